#!/venv/bin/python
"""C06 at the EDGES: values and paths the other C06 streams (pass2_diff, emu_diff) never produce.

pass2_diff / emu_diff draw registers of 2-8 qubits, bounds 0..7 and indices that are mostly in the middle.  This stream
keeps the same property and moves every number to a boundary:

  sizes      1, 2..6 (emulated), 255/256/65535/65536/65537, 2**53-1 .. 2**53+3, 2**60+-1, 2**63+-1, 2**64 .. 2**64+9,
             10**30, 3*2**70+5, 2**1024+1, 10**400+7 (beyond the double range), 10**4298+3 (4299 digits, next to
             CPython's int/str limit)
  slices     start / element count / stop at their extremes (first element, last element of the source, exactly one
             element, the longest possible alias, the smallest and the largest stop that give the same elements, stop 0
             with a negative step, strides 1 2 3 7 -1 -2 -3 and - on large registers - 2**53+1, 10**9+7, size//3 ...),
             so that stop-start is usually NOT a multiple of the stride and, on large registers, not a double;
             spans 2**53+1, 2**54-1, 2**60+-1, 2**63+-1, 2**64+-1, 2**100+-1 ... placed strictly inside the source, so
             that an element count that is off by one in either direction still points at a qubit of the source
  values     every bound / size / index written as a literal, defaulted, or a let; lets also as integral floats
             (`2.0`, `0.0`, `-0.0`, `1152921504606846976.0`), the value 0 wherever it is legal (start 0, index 0,
             stop 0, argument 0 through a macro parameter)
  indices    0, 1, len-2, len-1, len//2 of every level of the chain (valid), and len, len+1, 2*len+1, -1,
             len+2**53 (not an element of the alias: see oracle outside_alias_not_a_qubit)
  chains     depth 0-5 of strided slices, whole-register aliases and single-qubit aliases
  positions  plain statement, loop, sequential / parallel / subcircuit block, nested blocks, argument of a macro call
             (qubit parameter), index through a macro parameter, literal reference inside a macro body, a macro
             calling a macro, a macro call inside a loop
  entries    program text (parse_jaqal_string, also with expand_macro / expand_let / expand_let_map), S-expressions
             handed to `build` (also with integral floats), CircuitBuilder with evaluated objects, and the core
             constructors Register / NamedQubit / Constant / Macro / Circuit with positional and keyword gate calls

Every expectation comes from the reference in this file: a register denotes the list of fundamental indices
[start + i*step for i in range(count)] composed along the chain, with the element count computed by exact integer
arithmetic (`count_range`); nothing is read back from the library.

oracle (corr is empty)
  front_end_accepts_valid_chain   a program all of whose aliases stay inside their sources and all of whose references
                                  are elements of their aliases is built without an exception
  resolve_qubit_index             NamedQubit.resolve_qubit() == (fundamental register, start+i*step composed) for every
                                  reference, on the circuit as built, after fill_in_let, after expand_macros, and in the
                                  pipeline the emulator uses; a reference indexed by a macro parameter under the
                                  context of its call
  used_qubits_index               get_used_qubit_indices of every top-level statement (macro calls included) and of
                                  the body == the set of those indices
  fill_in_map_index               fill_in_map rewrites every reference to fundamental[that index] (alias_from is the
                                  fundamental register, alias_index the index) and the rewritten reference resolves to
                                  the same qubit; also through parse_jaqal_string(expand_let_map=True)
  emulator_label_index            the qubit position the pyGSTi front end of the emulator reads for every gate of the
                                  expanded circuit (pygsti_label_from_statement) == that index
  emulator_state                  registers of <= 6 qubits: state vector of run_jaqal_circuit == the state computed here
                                  by applying each gate's matrix on the reference indices, == the state of the program
                                  written on r[k] directly
  outside_alias_not_a_qubit       a reference whose index is not in range(len(alias)) denotes no qubit: no consumer
                                  (resolve_qubit, used-qubit analysis, fill_in_map, the passes of the emulator pipeline
                                  followed by resolution, the pyGSTi label, run_jaqal_circuit) returns one.  A refusal
                                  of any class at any stage counts - class and stage are C16's / C14's business and are
                                  only recorded in the distribution

CLI: c06_edge.py [--seed S] [--n N] [--thorough]
"""
import argparse
import json
import os
import random
import re
import signal
import sys
import warnings

DEFAULT_DRIVER = "/verif/lean/.lake/build/bin/jaqal-model"
ORACLES = ("front_end_accepts_valid_chain", "resolve_qubit_index", "used_qubits_index", "fill_in_map_index",
           "emulator_label_index", "emulator_state", "outside_alias_not_a_qubit")
EMU_MAX = 6
_L = {}


def lib():
    """import jaqalpaq lazily (no work at import time)"""
    if _L:
        return _L
    os.environ["JAQALPAQ_RUN_EMULATOR"] = "1"
    root = os.path.dirname(os.path.dirname(os.path.dirname(os.path.abspath(__file__))))
    if not os.path.isfile(os.path.join(root, "harness", "gates.py")):
        root = "/verif"
    if root not in sys.path:
        sys.path.insert(0, root)
    import numpy as np
    from harness import timeouts as T
    from harness import gates as HG
    from jaqalpaq.error import JaqalError
    from jaqalpaq.parser import parse_jaqal_string
    from jaqalpaq.core.algorithm import expand_macros, fill_in_let, expand_subcircuits
    from jaqalpaq.core.algorithm.fill_in_map import fill_in_map
    from jaqalpaq.core.algorithm.used_qubit_visitor import get_used_qubit_indices
    from jaqalpaq.core.circuitbuilder import build, CircuitBuilder, SequentialBlockBuilder, ParallelBlockBuilder
    from jaqalpaq.core.circuit import Circuit
    from jaqalpaq.core.constant import Constant
    from jaqalpaq.core.parameter import Parameter
    from jaqalpaq.core.register import Register, NamedQubit
    from jaqalpaq.core.gate import GateStatement
    from jaqalpaq.core.block import BlockStatement, LoopStatement
    from jaqalpaq.core.macro import Macro
    from jaqalpaq.run import run_jaqal_circuit
    _L.update(np=np, T=T, HG=HG, GATES=HG.GATES_IDLE, SIG=HG.SIG, JaqalError=JaqalError, parse=parse_jaqal_string,
              expand_macros=expand_macros, fill_in_let=fill_in_let, expand_subcircuits=expand_subcircuits,
              fill_in_map=fill_in_map, used=get_used_qubit_indices, build=build, CircuitBuilder=CircuitBuilder,
              SequentialBlockBuilder=SequentialBlockBuilder, ParallelBlockBuilder=ParallelBlockBuilder,
              Circuit=Circuit, Constant=Constant, Parameter=Parameter, Register=Register, NamedQubit=NamedQubit,
              GateStatement=GateStatement, BlockStatement=BlockStatement, LoopStatement=LoopStatement, Macro=Macro,
              run=run_jaqal_circuit, label=None)
    return _L


def load_label():
    """the pyGSTi front end of the emulator; importing pyGSTi takes 2 s on an idle machine and 10-20 s on a loaded one,
    so the quick tier leaves this consumer out (run(thorough=True) and replay load it)"""
    L = lib()
    if L["label"] is None and not L.get("label_failed"):
        try:
            with warnings.catch_warnings():
                warnings.simplefilter("ignore")
                from jaqalpaq.emulator.pygsti.circuit import pygsti_label_from_statement
            L["label"] = pygsti_label_from_statement
        except Exception:  # noqa: BLE001   pyGSTi not importable: that consumer is skipped (counted)
            L["label_failed"] = True


class Hang(BaseException):
    pass


def _on_alarm(_s, _f):
    raise Hang()


def guarded(f):
    """-> ("ok", value) | ("rej", message) for JaqalError | ("exc", class, message) | ("hang", "", "")"""
    L = lib()
    try:
        old = signal.signal(signal.SIGALRM, _on_alarm)
    except ValueError:  # not the main thread
        old = None
    if old is not None:
        signal.alarm(int(L["T"].limit()))
    try:
        with warnings.catch_warnings():
            warnings.simplefilter("ignore")
            return ("ok", f())
    except Hang:
        L["T"].saw_hang()
        return ("hang", "", "")
    except L["JaqalError"] as e:
        return ("rej", str(e)[:200])
    except RecursionError:
        return ("exc", "RecursionError", "")
    except Exception as e:  # noqa: BLE001
        return ("exc", type(e).__name__, str(e)[:200])
    finally:
        if old is not None:
            signal.alarm(0)
            signal.signal(signal.SIGALRM, old)


def short(x, k=260):
    s = x if isinstance(x, str) else json.dumps(x, default=str)
    s = re.sub(r"\d{40,}", lambda m: m.group(0)[:12] + f"…({len(m.group(0))} digits)", s)
    return s[:k]


# ------------------------------------------------------------------------------------------------------------------
# the reference: what a register denotes (exact integer arithmetic, written independently of the library)

_INT_RE = re.compile(r"^-?\d+$")


def let_value(text):
    """the integer a `let` line declares: an integer literal, or a decimal literal with an integral value"""
    if _INT_RE.match(text):
        return int(text)
    f = float(text)
    if f != int(f):
        raise ValueError("fractional let")
    return int(f)


def count_range(start, stop, step):
    """number of elements of range(start, stop, step), for integers of any size"""
    if step > 0:
        return (stop - start + step - 1) // step if stop > start else 0
    return (start - stop - step - 1) // (-step) if start > stop else 0


class Den:
    """denotation of the header of a case"""

    def __init__(self, case):
        self.env = {n: let_value(t) for n, t in case["lets"]}
        self.regs = {"r": ("fund", self.val(case["size"]))}
        self.qal = {}
        for m in case["maps"]:
            if m["kind"] == "whole":
                self.regs[m["name"]] = ("whole", m["src"])
            elif m["kind"] == "qubit":
                self.qal[m["name"]] = self.elem(m["src"], self.val(m["index"]))
            else:
                n = self.length(m["src"])
                start = 0 if m["start"] is None else self.val(m["start"])
                stop = n if m["stop"] is None else self.val(m["stop"])
                step = 1 if m["step"] is None else self.val(m["step"])
                self.regs[m["name"]] = ("slice", m["src"], start, step, count_range(start, stop, step), stop)

    def val(self, b):
        return self.env[b] if isinstance(b, str) else b

    def length(self, name):
        r = self.regs[name]
        if r[0] == "fund":
            return r[1]
        if r[0] == "whole":
            return self.length(r[1])
        return r[4]

    def elem(self, name, i):
        """fundamental index of element i of register `name`, None when i is not an element"""
        if not (0 <= i < self.length(name)):
            return None
        r = self.regs[name]
        if r[0] == "fund":
            return i
        if r[0] == "whole":
            return self.elem(r[1], i)
        return self.elem(r[1], r[2] + i * r[3])

    def ref(self, ref):
        name, idx = ref
        if idx is None:
            return self.qal[name]
        return self.elem(name, self.val(idx))

    def stays_inside(self):
        """every alias is a sub-list of its source"""
        for name, r in self.regs.items():
            if r[0] == "slice" and r[4] > 0:
                n = self.length(r[1])
                if not (0 <= r[2] < n and 0 <= r[2] + (r[4] - 1) * r[3] < n):
                    return False
                if r[3] > 0 and r[5] > n:
                    return False
        return True


# ------------------------------------------------------------------------------------------------------------------
# generator

SMALL = [1, 2, 2, 3, 3, 4, 4, 5, 5, 6, 6]
MID = [255, 256, 65535, 65536, 65537, 10**6 + 3]
BIG = [2**53 - 1, 2**53, 2**53 + 1, 2**53 + 2, 2**53 + 3, 2**60 - 1, 2**60 + 1, 2**60 + 2, 2**61, 2**63 - 1, 2**63,
       2**63 + 1, 2**64, 2**64 + 1, 2**64 + 9, 2**64 + 10, 10**30, 3 * 2**70 + 5, 2**1024 + 1, 10**400 + 7, 10**4298 + 3]
SPANS = [2**53 + 1, 2**54 - 1, 2**54 + 3, 2**60 - 1, 2**60 + 1, 2**62 - 3, 2**63 - 1, 2**63 + 1, 2**64 - 1, 2**64 + 1,
         3 * 2**60 + 1, 2**100 - 1, 2**100 + 1, 2**1023 + 1, 10**400 + 1]
GATE1 = ["X", "X", "Y", "Z", "S", "SX", "P", "PF", "N"]
GATE2 = ["CX", "CX", "CZ", "SWAP", "ISWAP", "NS", "HH"]
GATE3 = ["CCX", "ROT3"]
WRAPS = ["plain", "plain", "loop", "seq", "par", "sub", "nest", "macro_q", "macro_q", "macro_i", "macro_i", "macro_lit",
         "macro_nq", "macro_ni"]


def edge(rng, lo, hi):
    """an integer of [lo, hi], mostly at or next to an end"""
    if hi <= lo:
        return lo
    c = rng.random()
    if c < 0.22:
        return lo
    if c < 0.44:
        return hi
    if c < 0.54:
        return min(hi, lo + 1)
    if c < 0.64:
        return max(lo, hi - 1)
    if c < 0.72:
        return (lo + hi) // 2
    if c < 0.8:
        return max(lo, min(hi, (lo + hi) // 2 | 1))
    if c < 0.9:
        return max(lo, min(hi, lo + rng.choice([2, 3, 5, 7, 255, 65535, 65536, 2**53, 2**53 + 1, 2**63])))
    return rng.randint(lo, hi)


def is_double(v):
    """the integer v is exactly a double"""
    return abs(v) < 10**300 and int(float(v)) == v


class G:
    def __init__(self, rng, entry, tier):
        self.rng = rng
        self.entry = entry
        self.tier = tier
        self.lets = []          # [name, text]
        self.feat = set()

    def let_for(self, v, role):
        """name of a let whose value is v (reused or new)"""
        r = self.rng
        same = [n for n, t in self.lets if let_value(t) == v]
        if same and r.random() < 0.5:
            self.feat.add("one let used twice")
            return r.choice(same)
        text = str(v)
        if self.entry != "core" and r.random() < 0.3 and is_double(v):
            text = ("-0.0" if r.random() < 0.5 else "0.0") if v == 0 else f"{v}.0"
            self.feat.add("integral-float let" + (" beyond 2**53" if abs(v) > 2**53 else ""))
        if v == 0:
            self.feat.add(f"let equal to zero as {role}")
        name = f"k{len(self.lets)}"
        self.lets.append([name, text])
        return name

    def rep(self, v, role, default_ok=False, plet=0.35):
        r = self.rng
        c = r.random()
        if default_ok and c < 0.3:
            self.feat.add(f"defaulted {role}")
            return None
        if c < 0.3 + plet:
            self.feat.add(f"let-valued {role}")
            return self.let_for(v, role)
        if v == 0:
            self.feat.add(f"literal zero as {role}")
        return v

    def pick_slice(self, n):
        """(start, stop, step, count) with count >= 1 and every element inside range(n)"""
        r = self.rng
        steps = [1, 1, 1, 1, 2, 2, 3, 7, -1, -1, -2, -3]
        if n > 2**40:
            steps += [2**53 + 1, 10**9 + 7, max(1, n // 3) | 1, -(2**31 + 1), -(max(1, n // 5) | 1), 2, 3, 7, -3, -7]
        step = r.choice(steps)
        if abs(step) >= n:
            step = 1 if step > 0 else -1
        spans = [x for x in SPANS if x < n - 1]
        if spans and r.random() < 0.35:
            # stop-start next to a power of two (no double holds it) and the alias ends BEFORE the end of its source:
            # an element count that is off by one then still points into the source
            span = r.choice(spans)
            step = r.choice([1, 1, -1, 2, 3, -3, 7])
            base = edge(r, 1, n - 1 - span)
            start, stop = (base, base + span) if step > 0 else (base + span, base)
            cnt = count_range(start, stop, step)
            self.feat.add("stop-start next to a power of two, alias ends inside its source")
            if not is_double(stop - start):
                self.feat.add("stop-start not a double")
            if (stop - start) % step:
                self.feat.add("stop-start not a multiple of the step")
            return start, stop, step, cnt
        if step > 0:
            start = edge(r, 0, n - 1)
            cnt = edge(r, 1, (n - 1 - start) // step + 1)
            lo, hi = start + (cnt - 1) * step + 1, min(n, start + cnt * step)
        else:
            s = -step
            start = edge(r, 0, n - 1)
            if start == 0:
                start = min(n - 1, 1)
            if start == 0:                      # n == 1: a negative step cannot be written without a negative stop
                return 0, 1, 1, 1
            cnt = edge(r, 1, (start - 1) // s + 1)          # last element >= 1, so that the stop is >= 0
            lo, hi = max(0, start - cnt * s), start - (cnt - 1) * s - 1
        stop = r.choice([lo, hi, r.randint(lo, hi)])
        assert count_range(start, stop, step) == cnt, (start, stop, step, cnt)
        if stop == 0:
            self.feat.add("stop 0 with a negative step")
        if (stop - start) % step:
            self.feat.add("stop-start not a multiple of the step")
        if not is_double(stop - start):
            self.feat.add("stop-start not a double")
        if cnt == 1:
            self.feat.add("alias of one element")
        return start, stop, step, cnt


def gen_case(rng, idx, thorough=False):
    L = lib()
    SIG = L["SIG"]
    tier = rng.choice(["small"] * 9 + ["mid"] * 2 + ["big"] * 9)
    entry = rng.choice(["text"] * 4 + ["sexpr"] * 2 + ["builder"] * 2 + ["core"] * 2)
    bad = rng.random() < 0.25
    g = G(rng, entry, tier)
    size = rng.choice({"small": SMALL, "mid": MID, "big": BIG}[tier])
    if tier == "big" and rng.random() < 0.25:
        size = rng.choice(BIG) + rng.choice([0, 1, 2, 3, 5, 11])
    size_rep = g.rep(size, "register size", plet=0.3)
    lens = {"r": size}
    maps = []
    names = ["a", "b", "c", "d", "e"]
    depth = rng.choice([0, 1, 1, 1, 2, 2, 2, 3, 3, 4, 5])
    prev = "r"
    for name in names[:depth]:
        src = prev if rng.random() < 0.75 else rng.choice(list(lens))
        n = lens[src]
        if rng.random() < 0.12:
            maps.append({"name": name, "src": src, "kind": "whole"})
            lens[name] = n
            g.feat.add("whole-register alias")
        else:
            start, stop, step, cnt = g.pick_slice(n)
            m = {"name": name, "src": src, "kind": "slice",
                 "start": g.rep(start, "start", default_ok=(start == 0 and step > 0)),
                 "stop": g.rep(stop, "stop", default_ok=(stop == n and step > 0)),
                 "step": g.rep(step, "step", default_ok=(step == 1))}
            if entry == "text" and m["step"] is None and m["start"] is None and m["stop"] is None:
                g.feat.add("map a r[:]")
            maps.append(m)
            lens[name] = cnt
            if step < 0:
                g.feat.add("negative step")
            if abs(step) > 2**31:
                g.feat.add("huge stride")
        prev = name
    g.feat.add(f"chain depth {depth}")
    # single-qubit aliases
    qals = []
    for j in range(rng.choice([0, 0, 1, 1, 2])):
        src = rng.choice(list(lens))
        i = edge(rng, 0, lens[src] - 1)
        name = f"q{j}"
        maps.append({"name": name, "src": src, "kind": "qubit", "index": g.rep(i, "index of a single-qubit alias")})
        qals.append(name)
        g.feat.add("single-qubit alias")
    case = {"id": idx, "entry": entry, "tier": tier, "lets": g.lets, "size": size_rep, "maps": maps, "items": [],
            "emulate": tier == "small", "bad": None, "flags": [], "floats": entry == "sexpr" and rng.random() < 0.35,
            "kw": entry == "core" and rng.random() < 0.5}
    den = Den(dict(case, lets=g.lets))

    def new_ref(taken):
        """a valid reference whose qubit is not in `taken`"""
        for _ in range(12):
            if qals and rng.random() < 0.2:
                name = rng.choice(qals)
                ref = [name, None]
            else:
                name = rng.choice(list(lens)) if rng.random() < 0.3 else prev
                i = edge(rng, 0, lens[name] - 1)
                if i == 0:
                    g.feat.add("index 0")
                if i == lens[name] - 1:
                    g.feat.add("index len-1")
                ref = [name, i]
            k = den.ref(ref)
            assert k is not None, (case, ref)
            if k not in taken:
                taken.add(k)
                return ref
        return None

    def new_gate(taken, arity=None):
        arity = arity or rng.choice([1, 1, 1, 2, 2, 3])
        refs = []
        for _ in range(arity):
            ref = new_ref(taken)
            if ref is None:
                break
            refs.append(ref)
        if not refs:
            return None
        name = rng.choice({1: GATE1, 2: GATE2, 3: GATE3}[len(refs)])
        if name == "N" and tier == "small" and rng.random() < 0.5:
            name = "X"
        return {"g": name, "q": refs, "c": [rng.choice([0, 1, 2, 3, 5])] if "i" in SIG[name] else []}

    def finish_refs(item, in_macro_index):
        """decide how each index is written (literal / let); parameters are introduced by the wrap itself"""
        for gt in item["gates"]:
            for ref in gt["q"]:
                if ref[1] is not None:
                    ref[1] = g.rep(ref[1], "index" + (" through a macro parameter" if in_macro_index else ""), plet=0.25)

    nitems = rng.choice([1, 1, 2, 2, 3, 4])
    for j in range(nitems):
        wrap = rng.choice(WRAPS)
        if case["emulate"] and wrap == "sub":
            wrap = "seq"
        taken = set()
        want = {"plain": 1, "loop": rng.choice([1, 2, 3]), "seq": rng.choice([1, 2, 3]), "par": rng.choice([2, 3]),
                "sub": rng.choice([1, 2]), "nest": 3}.get(wrap, rng.choice([1, 1, 2, 3]))
        gates = []
        for _ in range(want):
            # branches of one parallel block (and of a macro body, which may be one) act on different qubits;
            # sequential gates may use the same qubit again
            gt = new_gate(taken if wrap in ("par", "nest") or wrap.startswith("macro") else set())
            if gt is not None:
                gates.append(gt)
        if not gates:
            continue
        if wrap == "par" and len(gates) < 2:
            wrap = "plain"
        if wrap == "nest" and len(gates) < 3:
            wrap = "loop"
        item = {"wrap": wrap, "gates": gates, "count": rng.choice([1, 2, 2, 3]),
                "mbody": "par" if wrap.startswith("macro") and len(gates) > 1 and rng.random() < 0.3 else "seq",
                "callwrap": "loop" if wrap.startswith("macro") and rng.random() < 0.25 else None}
        if wrap in ("macro_i", "macro_ni"):
            if not any(ref[1] is not None for gt in gates for ref in gt["q"]):
                item["wrap"] = "macro_lit"
            elif any(den.val(ref[1]) == 0 for gt in gates for ref in gt["q"] if ref[1] is not None):
                g.feat.add("argument 0 through a macro parameter")
        finish_refs(item, item["wrap"] in ("macro_i", "macro_ni"))
        case["items"].append(item)
        g.feat.add("position: " + item["wrap"] + (" in a loop" if item["callwrap"] else ""))
    if bad:
        # one reference that is not an element of its alias
        cands = [n for n in lens if n != "r"] or ["r"]
        name = rng.choice(cands) if rng.random() < 0.85 else "r"
        n = lens[name]
        choices = [n, n, n, n + 1, 2 * n + 1, -1]
        if n > 2**40:
            choices += [n, n + 2**53, n + 1]
        b = rng.choice(choices)
        how = rng.choice(["lit", "let", "let", "macro_i", "macro_i", "macro_q_let", "qalias_lit", "qalias_let"])
        if entry == "core" and how == "qalias_lit":
            how = "qalias_let"
        case["bad"] = {"reg": name, "index": b, "how": how, "inside_fundamental": False}
        if how in ("let", "macro_q_let", "qalias_let"):
            bl = f"k{len(g.lets)}"
            g.lets.append([bl, str(b)])
            case["bad"]["let"] = bl
        if how.startswith("qalias"):
            maps.append({"name": "qbad", "src": name, "kind": "qubit", "index": case["bad"].get("let", b)})
        case["items"] = case["items"][: rng.choice([0, 1])]
        g.feat.add(f"not an element: {how}, index " + ("len" if b == n else "len+1" if b == n + 1 else "-1" if b == -1 else "far"))
        # does start+i*step still fall inside the fundamental register?  (then only the alias' own length refuses it)
        r_ = den.regs.get(name)
        if r_ and r_[0] == "slice":
            k = r_[2] + b * r_[3]
            if den.elem(r_[1], k) is not None:
                case["bad"]["inside_fundamental"] = True
                g.feat.add("not an element of the alias but start+i*step is a qubit of the source")
    if not case["items"] and not bad:
        case["items"].append({"wrap": "plain", "gates": [{"g": "X", "q": [[prev, 0]], "c": []}], "count": 1, "mbody": "seq",
                              "callwrap": None})
    if entry == "text":
        has_index_macro = any(it["wrap"] in ("macro_i", "macro_ni") for it in case["items"])
        opts = [["expand_macro"], ["expand_let"], ["expand_macro", "expand_let"]]
        if not has_index_macro:
            # (expand_macro keeps the macro definitions, so fill_in_map still meets a body indexed by a parameter)
            opts += [["expand_let_map"], ["expand_macro", "expand_let_map"]]
        case["flags"] = rng.choice(opts)
    case["features"] = sorted(g.feat)
    return case


# ------------------------------------------------------------------------------------------------------------------
# program tree of a case (shared by the four entries)
#   stmt = ["gate", name, [arg]] | ["loop", count, block] | ["seq", [stmt]] | ["par", [stmt]] | ["sub", [stmt]]
#   arg  = ["q", register, index] | ["n", identifier] | ["i", number or identifier]

def gate_stmt(L, gt, qargs):
    sig = L["SIG"][gt["g"]]
    qa, ca = iter(qargs), iter(gt["c"])
    return ["gate", gt["g"], [next(qa) if ch == "q" else ["i", next(ca)] for ch in sig]]


def ref_arg(ref):
    return ["n", ref[0]] if ref[1] is None else ["q", ref[0], ref[1]]


def tree_of(case, den=None, direct=False):
    """-> {"macros": [[name, [param], kind, [stmt]]], "body": [stmt]}; direct: every reference written r[k], macros
    written out"""
    L = lib()
    macros, body = [], []

    def plain(gt):
        if direct:
            return gate_stmt(L, gt, [["q", "r", den.ref(ref)] for ref in gt["q"]])
        return gate_stmt(L, gt, [ref_arg(ref) for ref in gt["q"]])

    for j, it in enumerate(case["items"]):
        gs, w = it["gates"], it["wrap"]
        if w == "plain":
            body.append(plain(gs[0]))
        elif w == "loop":
            body.append(["loop", it["count"], ["seq", [plain(x) for x in gs]]])
        elif w in ("seq", "par", "sub"):
            body.append([w, [plain(x) for x in gs]])
        elif w == "nest":
            body.append(["loop", it["count"], ["seq", [["par", [plain(gs[0]), ["seq", [plain(gs[1]), plain(gs[2])]]]]]]])
        else:
            if direct:
                blk = [it["mbody"], [plain(x) for x in gs]]
                if it["callwrap"]:
                    blk = ["loop", it["count"], blk if it["mbody"] == "seq" else ["seq", [blk]]]
                body.append(blk)
                continue
            params, call, stmts = [], [], []
            for x in gs:
                qargs = []
                for ref in x["q"]:
                    if w in ("macro_q", "macro_nq"):
                        p = f"p{j}_{len(params)}"
                        params.append(p)
                        call.append(ref_arg(ref))
                        qargs.append(["n", p])
                    elif w in ("macro_i", "macro_ni") and ref[1] is not None:
                        p = f"i{j}_{len(params)}"
                        params.append(p)
                        call.append(["i", ref[1]])
                        qargs.append(["q", ref[0], p])
                    else:
                        qargs.append(ref_arg(ref))
                stmts.append(gate_stmt(L, x, qargs))
            if w in ("macro_nq", "macro_ni"):
                macros.append([f"N{j}", params, it["mbody"], stmts])
                outer = [("u" + p) for p in params]
                macros.append([f"M{j}", outer, "seq", [["gate", f"N{j}", [["n", p] if w == "macro_nq" else ["i", p] for p in outer]]]])
            else:
                macros.append([f"M{j}", params, it["mbody"], stmts])
            c = ["gate", f"M{j}", call]
            body.append(["loop", it["count"], ["seq", [c]]] if it["callwrap"] else c)
    b = case.get("bad")
    if b and not direct:
        idx = b.get("let", b["index"])
        how = b["how"]
        if how in ("lit", "let"):
            body.append(["gate", "X", [["q", b["reg"], idx]]])
        elif how == "macro_i":
            macros.append(["MB", ["ib"], "seq", [["gate", "X", [["q", b["reg"], "ib"]]]]])
            body.append(["gate", "MB", [["i", idx]]])
        elif how == "macro_q_let":
            macros.append(["MB", ["pb"], "seq", [["gate", "X", [["n", "pb"]]]]])
            body.append(["gate", "MB", [["q", b["reg"], idx]]])
        else:
            body.append(["gate", "X", [["n", "qbad"]]])
    return {"macros": macros, "body": body}


# --- text

def b_text(b):
    return "" if b is None else str(b)


def header_text(case, direct=False, den=None):
    out = []
    if direct:
        return [f"register r[{den.length('r')}]"]
    for n, t in case["lets"]:
        out.append(f"let {n} {t}")
    out.append(f"register r[{case['size']}]")
    for m in case["maps"]:
        if m["kind"] == "whole":
            out.append(f"map {m['name']} {m['src']}")
        elif m["kind"] == "qubit":
            out.append(f"map {m['name']} {m['src']}[{m['index']}]")
        else:
            s = b_text(m["start"]) + ":" + b_text(m["stop"]) + ("" if m["step"] is None else ":" + b_text(m["step"]))
            out.append(f"map {m['name']} {m['src']}[{s}]")
    return out


def arg_text(a):
    if a[0] == "q":
        return f"{a[1]}[{a[2]}]"
    return str(a[1])


def stmt_text(s):
    if s[0] == "gate":
        return " ".join([s[1]] + [arg_text(a) for a in s[2]])
    if s[0] == "loop":
        return f"loop {s[1]} " + stmt_text(s[2])
    if s[0] == "seq":
        return "{ " + " ; ".join(stmt_text(x) for x in s[1]) + " }"
    if s[0] == "par":
        return "< " + " | ".join(stmt_text(x) for x in s[1]) + " >"
    return "subcircuit { " + " ; ".join(stmt_text(x) for x in s[1]) + " }"


def text_of(case, den=None, direct=False):
    t = tree_of(case, den, direct)
    lines = header_text(case, direct, den)
    for name, params, kind, stmts in t["macros"]:
        lines.append(f"macro {name} " + "".join(p + " " for p in params) + stmt_text([kind, stmts]))
    if case["emulate"]:
        lines.append("prepare_all")
    lines += [stmt_text(s) for s in t["body"]]
    if case["emulate"]:
        lines.append("measure_all")
    return "\n".join(lines) + "\n"


# --- S-expressions

def fl(case, v):
    """sexpr entry with `floats`: an integer that a double holds exactly is handed over as a float"""
    if case.get("floats") and isinstance(v, int) and abs(v) < 2**53:
        return float(v)
    return v


def sexpr_stmt(case, s):
    if s[0] == "gate":
        args = []
        for a in s[2]:
            if a[0] == "q":
                args.append(["array_item", a[1], fl(case, a[2])])
            else:
                args.append(a[1])
        return ["gate", s[1], *args]
    if s[0] == "loop":
        return ["loop", s[1], sexpr_stmt(case, s[2])]
    if s[0] == "seq":
        return ["sequential_block", *[sexpr_stmt(case, x) for x in s[1]]]
    if s[0] == "par":
        return ["parallel_block", *[sexpr_stmt(case, x) for x in s[1]]]
    return ["subcircuit_block", "", *[sexpr_stmt(case, x) for x in s[1]]]


def let_number(text):
    return int(text) if _INT_RE.match(text) else float(text)


def sexpr_of(case):
    t = tree_of(case)
    out = ["circuit"]
    for n, txt in case["lets"]:
        out.append(["let", n, let_number(txt)])
    out.append(["register", "r", fl(case, case["size"])])
    for m in case["maps"]:
        if m["kind"] == "whole":
            out.append(["map", m["name"], m["src"]])
        elif m["kind"] == "qubit":
            out.append(["map", m["name"], m["src"], fl(case, m["index"])])
        else:
            out.append(["map", m["name"], m["src"], fl(case, m["start"]), fl(case, m["stop"]), fl(case, m["step"])])
    for name, params, kind, stmts in t["macros"]:
        out.append(["macro", name, *params, sexpr_stmt(case, [kind, stmts])])
    if case["emulate"]:
        out.append(["gate", "prepare_all"])
    out += [sexpr_stmt(case, s) for s in t["body"]]
    if case["emulate"]:
        out.append(["gate", "measure_all"])
    return out


# --- CircuitBuilder with evaluated objects

def builder_build(case):
    L = lib()
    t = tree_of(case)
    b = L["CircuitBuilder"](native_gates=L["GATES"])
    consts = {n: b.let(n, let_number(txt)) for n, txt in case["lets"]}
    obj = lambda v: consts[v] if isinstance(v, str) else v      # noqa: E731
    regs = {"r": b.register("r", obj(case["size"]))}
    for m in case["maps"]:
        if m["kind"] == "whole":
            regs[m["name"]] = b.map(m["name"], regs[m["src"]])
        elif m["kind"] == "qubit":
            regs[m["name"]] = b.map(m["name"], regs[m["src"]], obj(m["index"]))
        else:
            regs[m["name"]] = b.map(m["name"], regs[m["src"]], slice(obj(m["start"]), obj(m["stop"]), obj(m["step"])))
    for name, params, kind, stmts in t["macros"]:
        b.macro(name, params, sexpr_stmt(case, [kind, stmts]), unevaluated=True)

    def arg(a):
        if a[0] == "q":
            return regs[a[1]][obj(a[2])]
        if a[0] == "n":
            return regs[a[1]]
        return obj(a[1])

    def put(bb, s):
        if s[0] == "gate":
            bb.gate(s[1], *[arg(a) for a in s[2]])
        elif s[0] == "loop":
            blk = L["SequentialBlockBuilder"]()
            for x in s[2][1]:
                put(blk, x)
            bb.loop(s[1], blk, unevaluated=True)
        elif s[0] in ("seq", "par"):
            blk = bb.block(parallel=(s[0] == "par"))
            for x in s[1]:
                put(blk, x)
        else:
            blk = bb.subcircuit()
            for x in s[1]:
                put(blk, x)

    if case["emulate"]:
        b.gate("prepare_all")
    for s in t["body"]:
        put(b, s)
    if case["emulate"]:
        b.gate("measure_all")
    return b.build()


# --- core constructors

def core_build(case):
    L = lib()
    t = tree_of(case)
    Register, NamedQubit, Constant, Parameter = L["Register"], L["NamedQubit"], L["Constant"], L["Parameter"]
    consts = {n: Constant(n, let_value(txt)) for n, txt in case["lets"]}
    obj = lambda v: consts[v] if isinstance(v, str) else v      # noqa: E731
    regs = {"r": Register("r", obj(case["size"]))}
    for m in case["maps"]:
        src = regs[m["src"]]
        if m["kind"] == "whole":
            regs[m["name"]] = Register(m["name"], alias_from=src)
        elif m["kind"] == "qubit":
            regs[m["name"]] = NamedQubit(m["name"], src, obj(m["index"]))
        else:
            stop = obj(m["stop"])
            if stop is None:
                stop = src.size          # what build_map does; the constructor has no default for the stop
            regs[m["name"]] = Register(m["name"], alias_from=src, alias_slice=slice(obj(m["start"]), stop, obj(m["step"])))
    defs = dict(L["GATES"])
    c = L["Circuit"](native_gates=L["GATES"])

    def stmt(s, params):
        if s[0] == "gate":
            args = []
            for a in s[2]:
                if a[0] == "q":
                    i = a[2]
                    args.append(regs[a[1]][params[i] if i in params else obj(i)])
                elif a[0] == "n":
                    args.append(params[a[1]] if a[1] in params else regs[a[1]])
                else:
                    args.append(params[a[1]] if a[1] in params else obj(a[1]))
            d = defs[s[1]]
            if case.get("kw") and args:
                kw = dict(zip([p.name for p in d.parameters], args))
                return d(**dict(reversed(list(kw.items()))))          # keyword call, arguments in reverse order
            return d(*args)
        if s[0] == "loop":
            return L["LoopStatement"](s[1], stmt(s[2], params))
        return L["BlockStatement"](parallel=(s[0] == "par"), subcircuit=(s[0] == "sub"),
                                   statements=[stmt(x, params) for x in s[1]])

    for name, pnames, kind, stmts in t["macros"]:
        params = {p: Parameter(p, None) for p in pnames}
        mac = L["Macro"](name, parameters=list(params.values()), body=stmt([kind, stmts], params))
        defs[name] = mac
        c.macros[name] = mac
    c.constants.update(consts)
    c.registers.update(regs)
    body = [stmt(s, {}) for s in t["body"]]
    if case["emulate"]:
        body = [defs["prepare_all"]()] + body + [defs["measure_all"]()]
    c.body.statements.extend(body)
    return c


def build_case(case, flags=()):
    L = lib()
    e = case["entry"]
    if e == "text":
        kw = {f: True for f in flags}
        return L["parse"](text_of(case), inject_pulses=L["GATES"], autoload_pulses=False, **kw)
    if e == "sexpr":
        return L["build"](sexpr_of(case), inject_pulses=L["GATES"])
    if e == "builder":
        return builder_build(case)
    return core_build(case)


# ------------------------------------------------------------------------------------------------------------------
# expectations

def item_flat(den, it):
    """[(gate name, [fundamental index of each quantum argument])] in program order, macros written out"""
    return [(gt["g"], [den.ref(ref) for ref in gt["q"]]) for gt in it["gates"]]


def ref_state(L, n, ops):
    """state vector after the gates `ops` = [(name, [qubit], [classical])] on |0..0>; bit i of the state index is
    register qubit i, bit j of a gate's matrix index is its j-th quantum argument"""
    np = L["np"]
    v = np.zeros(2**n, dtype=complex)
    v[0] = 1
    for name, qs, cs in ops:
        u = L["HG"].GATES[name].ideal_unitary
        if u is None:
            continue
        m = np.asarray(u(*cs))
        w = np.zeros_like(v)
        for i in range(2**n):
            if v[i] == 0:
                continue
            col = sum(((i >> q) & 1) << j for j, q in enumerate(qs))
            base = i
            for q in qs:
                base &= ~(1 << q)
            for row in range(2 ** len(qs)):
                a = m[row, col]
                if a != 0:
                    o = base
                    for j, q in enumerate(qs):
                        if (row >> j) & 1:
                            o |= 1 << q
                    w[o] += a * v[i]
        v = w
    return v


def unrolled_ops(den, case):
    ops = []
    for it in case["items"]:
        reps = it["count"] if it["wrap"] in ("loop", "nest") or it["callwrap"] else 1
        one = [(gt["g"], [den.ref(ref) for ref in gt["q"]], gt["c"]) for gt in it["gates"]]
        ops += one * reps
    return ops


# ------------------------------------------------------------------------------------------------------------------
# the check of one case

def check_case(case):
    """-> (checks [(oracle, ok, detail)], info [str])"""
    L = lib()
    NamedQubit, Register, GateStatement, LoopStatement, Macro = (L["NamedQubit"], L["Register"], L["GateStatement"],
                                                                 L["LoopStatement"], L["Macro"])
    checks, info = [], []
    den = Den(case)

    def rec(name, ok, detail=""):
        checks.append((name, bool(ok), "" if ok else short(detail, 700)))

    def flat(s):
        if isinstance(s, GateStatement):
            return [s]
        if isinstance(s, LoopStatement):
            return flat(s.statements)
        out = []
        for x in s.statements:
            out += flat(x)
        return out

    def qargs(gs):
        return [v for v in gs.parameters.values() if isinstance(v, NamedQubit)]

    def resolved(q, ctx=None):
        r = guarded(lambda: q.resolve_qubit(ctx) if ctx is not None else q.resolve_qubit())
        if r[0] == "ok":
            reg, k = r[1]
            return ("ok", getattr(reg, "name", None), k)
        return r

    def is_index(got, k):
        return got[0] == "ok" and got[1] == "r" and not isinstance(got[2], bool) and got[2] == k

    if case.get("bad"):
        return check_bad(case, den, checks, info, rec, flat, qargs, resolved)

    assert den.stays_inside()
    br = guarded(lambda: build_case(case))
    rec("front_end_accepts_valid_chain", br[0] == "ok", f"{case['entry']} front end: {br[1:]}")
    if br[0] != "ok":
        return checks, info
    c = br[1]
    off = 1 if case["emulate"] else 0
    items = case["items"]
    exp = [item_flat(den, it) for it in items]

    def top(circ):
        st = list(circ.body.statements)
        return st[off:len(st) - off] if off else st

    def cmp_gates(view, gates, want, oracle="resolve_qubit_index", fundamental=False):
        gates = [x for x in gates if x.name not in ("prepare_all", "measure_all")]
        if [x.name for x in gates] != [w[0] for w in want]:
            rec(oracle, False, f"{view}: gates {[x.name for x in gates]} expected {[w[0] for w in want]}")
            return
        for x, (nm, ks) in zip(gates, want):
            qs = qargs(x)
            if len(qs) != len(ks):
                rec(oracle, False, f"{view}: {nm} has {len(qs)} qubit arguments, expected {len(ks)}")
                continue
            for q, k in zip(qs, ks):
                got = resolved(q)
                ok = is_index(got, k)
                det = f"{view}: {nm} {q.name} resolves to {got[1:] if got[0] == 'ok' else got}, the reference denotes r[{k}]"
                if ok and fundamental:
                    af = q.alias_from
                    ok = (isinstance(af, Register) and af.fundamental and af.name == "r"
                          and not isinstance(q.alias_index, bool) and isinstance(q.alias_index, (int, float)) and q.alias_index == k)
                    det = f"{view}: {nm} argument is {q.name} (from {getattr(af, 'name', af)!s:.40}, index {q.alias_index!s:.60}), expected r[{k}]"
                rec(oracle, ok, det)

    def raw_view(view, circ, oracle="resolve_qubit_index", fundamental=False):
        tops = top(circ)
        if len(tops) != len(items):
            rec(oracle, False, f"{view}: {len(tops)} top-level statements, expected {len(items)}")
            return
        for j, (st, it, want) in enumerate(zip(tops, items, exp)):
            w = it["wrap"]
            if not w.startswith("macro"):
                cmp_gates(view, flat(st), want, oracle, fundamental)
                continue
            calls = flat(st)
            if len(calls) != 1 or not isinstance(calls[0].gate_def, Macro):
                rec(oracle, False, f"{view}: item {j} is not one macro call")
                continue
            call = calls[0]
            allk = [k for _, ks in want for k in ks]
            if w in ("macro_q", "macro_nq"):
                cmp_gates(view + " (call arguments)", [call], [(call.name, allk)], oracle, fundamental)
            mac = circ.macros.get(f"M{j}" if w in ("macro_q", "macro_i", "macro_lit") else f"N{j}")
            if mac is None:
                rec(oracle, False, f"{view}: macro of item {j} is missing")
                continue
            if w == "macro_lit":
                cmp_gates(view + " (macro body)", flat(mac.body), want, oracle, fundamental)
            elif w in ("macro_i", "macro_ni") and not fundamental:
                # the reference a[i] lives in the body; under the context of the call it denotes the element
                vals = [ref[1] for gt in it["gates"] for ref in gt["q"] if ref[1] is not None]
                ctx = {p.name: den.val(v) for p, v in zip(mac.parameters, vals)}
                gs = flat(mac.body)
                if [x.name for x in gs] != [nm for nm, _ in want]:
                    rec(oracle, False, f"{view}: macro body gates {[x.name for x in gs]}")
                    continue
                for x, (nm, ks) in zip(gs, want):
                    for q, k in zip(qargs(x), ks):
                        got = resolved(q, ctx)
                        rec(oracle, is_index(got, k),
                            f"{view}: {nm} {q.name} under {short(ctx, 120)} resolves to {got[1:] if got[0] == 'ok' else got}, denotes r[{k}]")

    # 1. qubit resolution on the circuit as built
    raw_view("as built", c)
    # 2. used-qubit analysis, statement by statement and of the whole body
    def used_of(x):
        r = guarded(lambda: {k: set(v) for k, v in L["used"](x).items() if v})
        return r

    for j, (st, want) in enumerate(zip(top(c), exp)):
        ks = {k for _, kk in want for k in kk}
        got = used_of(st)
        rec("used_qubits_index", got[0] == "ok" and got[1] == {"r": ks},
            f"get_used_qubit_indices(item {j}: {items[j]['wrap']}) = {short(str(got[1:]), 200)}, the references denote r{sorted(ks)}")
    if not case["emulate"] and items:
        allk = {k for want in exp for _, kk in want for k in kk}
        got = used_of(c.body)
        rec("used_qubits_index", got[0] == "ok" and got[1] == {"r": allk}, f"get_used_qubit_indices(body) = {short(str(got[1:]), 200)}, expected r{sorted(allk)}")
    elif case["emulate"]:
        got = used_of(c)
        n = den.length("r")
        rec("used_qubits_index", got[0] == "ok" and got[1] == {"r": set(range(n))}, f"get_used_qubit_indices(circuit) = {short(str(got[1:]), 200)} (prepare_all uses all {n})")
    # 3. fill_in_let keeps every reference on its qubit
    fl_ = guarded(lambda: L["fill_in_let"](c))
    if fl_[0] == "ok":
        raw_view("after fill_in_let", fl_[1])
    else:
        rec("resolve_qubit_index", False, f"fill_in_let of a valid program: {fl_[1:]}")
    # 4. expand_macros
    ex = guarded(lambda: L["expand_macros"](c))
    allwant = [w for e_ in exp for w in e_]
    if ex[0] == "ok":
        # (a macro body is spliced into the block of its call: compare the flattened bodies)
        cmp_gates("after expand_macros", flat(ex[1].body), allwant)
    else:
        rec("resolve_qubit_index", False, f"expand_macros of a valid program: {ex[1:]}")
    # 5. fill_in_map
    index_macro = any(it["wrap"] in ("macro_i", "macro_ni") for it in items)
    if not index_macro:
        fm = guarded(lambda: L["fill_in_map"](c))
        if fm[0] == "ok":
            raw_view("fill_in_map", fm[1], "fill_in_map_index", True)
        else:
            rec("fill_in_map_index", False, f"fill_in_map of a valid program: {fm[1:]}")
    else:
        info.append("fill_in_map not applicable before expansion (index through a macro parameter)")
    if ex[0] == "ok":
        fm = guarded(lambda: L["fill_in_map"](ex[1]))
        if fm[0] == "ok":
            cmp_gates("fill_in_map after expand_macros", flat(fm[1].body), allwant, "fill_in_map_index", True)
        else:
            rec("fill_in_map_index", False, f"fill_in_map after expand_macros: {fm[1:]}")
    # 6. the front-end options of parse_jaqal_string
    if case["entry"] == "text" and case.get("flags"):
        flags = case["flags"]
        pr = guarded(lambda: build_case(case, flags))
        view = "parse_jaqal_string(" + ", ".join(flags) + ")"
        if pr[0] != "ok":
            rec("front_end_accepts_valid_chain", False, f"{view}: {pr[1:]}")
        else:
            orc, fund = ("fill_in_map_index", True) if "expand_let_map" in flags else ("resolve_qubit_index", False)
            if "expand_macro" in flags:
                cmp_gates(view, flat(pr[1].body), allwant, orc, fund)
            else:
                raw_view(view, pr[1], orc, fund)
    # 7. what the emulator reads: the pipeline of run_jaqal_circuit, then the qubit position of every gate
    pipe = guarded(lambda: L["expand_macros"](L["fill_in_let"](L["expand_subcircuits"](c))))
    if pipe[0] == "ok":
        gs = [x for x in flat(pipe[1].body) if x.name not in ("prepare_all", "measure_all")]
        want = allwant
        cmp_gates("emulator pipeline", gs, want)
        if L["label"] is None:
            info.append("pyGSTi front end not loaded (quick tier) or not importable: label consumer skipped")
        elif [x.name for x in gs] == [w[0] for w in want]:
            for x, (nm, ks) in zip(gs, want):
                if "i" in L["SIG"][nm]:
                    # pyGSTi's Label misreads (name, qubit, ";", number) for some qubit positions, with or without an
                    # alias (Label(["GJP", 3, ";", 1]).sslbls == (1,)): not a matter of C06, such gates are left out
                    continue
                lb = guarded(lambda: tuple(L["label"](x).sslbls))
                rec("emulator_label_index", lb[0] == "ok" and len(lb[1]) == len(ks) and all(
                    not isinstance(a, bool) and a == k for a, k in zip(lb[1], ks)),
                    f"pygsti_label_from_statement({nm} …) reads qubits {short(str(lb[1:]), 200)}, the references denote {ks}")
    else:
        rec("resolve_qubit_index", False, f"emulator pipeline (expand_subcircuits, fill_in_let, expand_macros) on a valid program: {pipe[1:]}")
    # 8. the unitary emulator
    if case["emulate"] and den.length("r") <= EMU_MAX:
        np = L["np"]
        n = den.length("r")
        st = guarded(lambda: np.array(L["run"](c).subcircuits[0].state_vector))
        want = ref_state(L, n, unrolled_ops(den, case))
        if st[0] != "ok":
            rec("emulator_state", False, f"run_jaqal_circuit on a valid program: {st[1:]}")
        else:
            ok = st[1].shape == want.shape and bool(np.allclose(st[1], want, atol=1e-9))
            rec("emulator_state", ok, f"state {np.round(st[1], 3).tolist()} but the gates on the denoted qubits give {np.round(want, 3).tolist()}")
            dt = text_of(case, den, direct=True)
            sd = guarded(lambda: np.array(L["run"](L["parse"](dt, inject_pulses=L["GATES"], autoload_pulses=False)).subcircuits[0].state_vector))
            if sd[0] == "ok":
                rec("emulator_state", sd[1].shape == st[1].shape and bool(np.allclose(sd[1], st[1], atol=1e-9)),
                    f"alias program and direct program differ; direct program:\n{dt}")
            else:
                info.append(f"direct program not runnable: {sd[1:]}")
    return checks, info


def check_bad(case, den, checks, info, rec, flat, qargs, resolved):
    """one reference is not an element of its alias: nothing may hand out a qubit for it"""
    L = lib()
    b = case["bad"]
    name = "outside_alias_not_a_qubit"
    n = den.length(b["reg"])
    what = f"{b['reg']}[{b['index']}] ({b['how']}; {b['reg']} has {n} elements)"
    assert not (0 <= b["index"] < n)

    def note(stage, r):
        if r[0] == "exc":
            info.append(f"refused with {r[1]} at {stage}")
        elif r[0] == "rej":
            info.append(f"refused with JaqalError at {stage}")
        elif r[0] == "hang":
            rec(name, False, f"{what}: {stage} does not return")

    br = guarded(lambda: build_case(case))
    if br[0] != "ok":
        rec(name, br[0] != "hang", f"{what}: front end does not return")
        note("front end", br)
        return checks, info
    c = br[1]
    if b["how"] in ("lit", "qalias_lit"):
        # (the library checks a literal index when the reference is built; C06 does not say at which stage, so an
        # accepting front end is only recorded - the consumers below must still refuse)
        info.append("literal index outside the alias accepted by the front end")
    last = list(c.body.statements)[-1 - (1 if case["emulate"] else 0)]

    def bad_refs(circ_stmt):
        return [q for g_ in flat(circ_stmt) for q in qargs(g_)]

    # resolution of the reference itself
    if b["how"] == "macro_i":
        mac = c.macros["MB"]
        qs = bad_refs(mac.body)
        ctx = {"ib": b["index"]}
    else:
        qs = bad_refs(last)
        ctx = None
    for q in qs:
        got = resolved(q, ctx)
        rec(name, got[0] != "ok" and got[0] != "hang", f"{what}: resolve_qubit gives {got[1:]}")
        note("resolve_qubit", got)
    u = guarded(lambda: {k: set(v) for k, v in L["used"](last).items() if v})
    rec(name, u[0] not in ("ok", "hang"), f"{what}: get_used_qubit_indices of the statement gives {short(str(u[1:]), 200)}")
    note("get_used_qubit_indices", u)
    if b["how"] != "macro_i":
        fm = guarded(lambda: L["fill_in_map"](c))
        rec(name, fm[0] not in ("ok", "hang"), f"{what}: fill_in_map rewrites the reference" +
            (": " + short(str([q.name for q in bad_refs(list(fm[1].body.statements)[-1 - (1 if case['emulate'] else 0)])]), 120) if fm[0] == "ok" else ""))
        note("fill_in_map", fm)
    # expansion / let filling may only produce a reference that is still refused
    for stage, f in (("expand_macros", lambda: L["expand_macros"](c)), ("fill_in_let", lambda: L["fill_in_let"](c)),
                     ("emulator pipeline", lambda: L["expand_macros"](L["fill_in_let"](L["expand_subcircuits"](c))))):
        r = guarded(f)
        note(stage, r)
        if r[0] != "ok":
            continue
        st = list(r[1].body.statements)[-1 - (1 if case["emulate"] else 0)]
        for q in bad_refs(st):
            got = resolved(q)
            rec(name, got[0] not in ("ok", "hang"), f"{what}: after {stage} the reference {q.name} resolves to {got[1:]}")
            if stage == "emulator pipeline" and L["label"] is not None and got[0] == "ok":
                pass
        if stage == "emulator pipeline" and L["label"] is not None:
            for g_ in flat(st):
                lb = guarded(lambda: tuple(L["label"](g_).sslbls))
                rec(name, lb[0] not in ("ok", "hang"), f"{what}: the pyGSTi front end reads qubit {lb[1:]}")
    if case["emulate"] and den.length("r") <= EMU_MAX:
        rr = guarded(lambda: L["run"](c).subcircuits[0].state_vector)
        rec(name, rr[0] not in ("ok", "hang"), f"{what}: run_jaqal_circuit runs the program")
        note("run_jaqal_circuit", rr)
    return checks, info


# ------------------------------------------------------------------------------------------------------------------

def strip(case):
    return {k: v for k, v in case.items() if k != "features"}


def run(seed: int, n: int, driver: str = DEFAULT_DRIVER, thorough: bool = False) -> dict:
    lib()
    rng = random.Random(f"c06_edge:{seed}")
    if thorough or "pygsti" in sys.modules:
        load_label()
    if thorough:
        n = n * 8
    oracle = {k: {"cases": 0, "failures": [], "total": 0} for k in ORACLES}
    dist = {}
    samples = []
    distinct = set()

    def bump(k, v=1):
        dist[k] = dist.get(k, 0) + v

    for i in range(n):
        case = gen_case(rng, i, thorough)
        checks, info = check_case(case)
        failed = set()
        for name, ok, detail in checks:
            oracle[name]["cases"] += 1
            if not ok:
                oracle[name]["total"] += 1
                if name not in failed and len(oracle[name]["failures"]) < 20:
                    failed.add(name)
                    oracle[name]["failures"].append({"case": strip(case), "detail": detail})
        bump("cases")
        bump("entry: " + case["entry"])
        bump("tier: " + case["tier"])
        bump("kind: " + ("reference outside its alias" if case["bad"] else "valid chain"))
        for f in case["features"]:
            bump("feature: " + f)
        for s in set(info):
            bump("info: " + s)
        if case["floats"]:
            bump("feature: S-expression with integral floats")
        if case["kw"]:
            bump("feature: keyword gate calls (core)")
        for f in case["flags"]:
            bump("parse option: " + f)
        if case["maps"]:
            distinct.add(json.dumps(strip(case), sort_keys=True))
        if len(samples) < 4 and case["maps"]:
            samples.append(strip(case))
    return {"corr": {}, "oracle": oracle, "distribution": dict(sorted(dist.items())), "samples": samples,
            "nontrivial": len(distinct)}


def replay(case: dict, driver: str = DEFAULT_DRIVER) -> dict:
    lib()
    load_label()
    case = dict(case)
    case.setdefault("features", [])
    checks, info = check_case(case)
    fails = [f"{name}: {detail}" for name, ok, detail in checks if not ok]
    out = {"oracle_ok": not fails, "detail": "; ".join(fails[:4]) or "ok"}
    if case["entry"] == "text":
        out["text"] = short(text_of(case), 1500)
    return out


def main():
    ap = argparse.ArgumentParser()
    ap.add_argument("--seed", type=int, default=0)
    ap.add_argument("--n", type=int, default=250)
    ap.add_argument("--thorough", action="store_true")
    a = ap.parse_args()
    res = run(a.seed, a.n, thorough=a.thorough)
    bad = 0
    for name, d in res["oracle"].items():
        bad += d["total"]
        print(f"oracle {name:32} cases {d['cases']:6}  failures {d['total']}")
        for x in d["failures"][:3]:
            print("    ", x["detail"][:900])
            print("     case:", short(x["case"], 900))
    for k, v in res["distribution"].items():
        print(f"  {k}: {v}")
    print("nontrivial:", res["nontrivial"])
    sys.exit(0 if bad == 0 else 1)


if __name__ == "__main__":
    main()
