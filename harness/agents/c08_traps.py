#!/venv/bin/python
"""C08 against COOPERATING SITES, PYTHON LANGUAGE TRAPS, EXCEPTION PATHS, RE-ENTRANCY, NUMERIC FORM and ACCESS ORDER.

The other C08 streams (walk_diff, extra_c08, c08_history, c08_edge, c08_scale, outlist_diff) only ever make calls
that SUCCEED, read the views of a result in one fixed order (by_int first, by_str rarely), and use the gate
definitions of harness/gates.py as they were constructed.  One case here is a short history, in ONE process, of

    make        a program -> Circuit: parse_jaqal_string (flags expand_let / override_dict) or circuitbuilder.build
                of an S-expression in which equal sub-expressions are THE SAME Python list object (tuples or lists),
                then optionally caller-side passes (expand_subcircuits / fill_in_let / expand_macros, any subset, in
                pipeline order), with the std gate set, a DERIVED gate set (every definition a `.copy(name=...)`, copies
                with other parameters / another unitary, idle gates of the copies) or the gate table of an EARLIER
                circuit of the history (native_gates of circuit A injected for circuit B)
    wrap        core API: a new Circuit that reuses registers / constants / macros / native gates of an earlier
                circuit (plain or a pass output) and whose body is `loop k { <that circuit's body object> }`
    run / out   run_jaqal_circuit (default backend | one backend OBJECT shared by the whole history) and
                parse_jaqal_output_list (list / tuple / one-shot iterator; elements int and bit string MIXED in every
                pattern: int first, str first, alternating, random), observed through the views read in a RANDOM
                ORDER (by_str before by_int, second view first, subcircuits before readouts, as_str before as_int,
                never-visited subcircuits first) and read twice
    bad_*       calls that FAIL half-way: an output list one or more outputs short (the missing output deep inside
                nested loops), an undecodable / out-of-range / None output in the middle, an iterator that raises
                half-way, programs with one or TWO defects deep inside loops (gate outside a subcircuit, measure_all
                without prepare_all, measure -> prepare inside a loop, a gate whose unitary raises JaqalError, a
                non-unitary gate, an undefined gate, deep nesting), fill_in_let with an unknown / non-numeric override,
                a syntax error in the middle of a nested program.  They are NOT judged (any exception or result is
                fine, they only have to return); the VALID calls that follow - same circuit, another circuit, either
                entry point, the same backend object - are, and must behave as in a fresh process.
                Cases with a bad_* step run in forked children (25 per child; when any check of such a batch fails,
                every case of the batch is run again in a child of its own) so that whatever they leave behind cannot
                reach the other cases or the process of the check, and a reported failure replays deterministically.

Programs: nestings of loops (literal / let-valued / overridden counts, 0 and 1 often), top-level blocks, subcircuit
blocks and prepare_all..measure_all sections, with the Python traps built in: EMPTY blocks / loop bodies /
subcircuits / macros (objects with __len__ == 0), let / register / macro / parameter names that are substrings,
prefixes and case variants of each other (n, nn, n0, n10, N; F, FF, F0), lets declared in shuffled or descending order,
macros calling macros defined before them, override dict keys created at run time ("".join), identical subcircuits.

Every observation is judged against an independent reference computed here from the JSON tree: visit sequence by
unrolling, flat numbering by textual order, and the measured bits that are determined classically (X/Y/copies flip,
Z/idle keep, SX unknown, CX).

oracle (the C08 text on the real code alone; corr is empty):
  traps_terminates          every library call returns within the alarm
  traps_accepted            constructing a valid program / a derived circuit raises nothing
  traps_emulator_visits     run_jaqal_circuit: [readout.subcircuit.index] == reference unrolling, subcircuits numbered
                            0,1,2,... in flat order (also the never-visited ones), readout indices 0,1,2,...
  traps_output_list_visits  parse_jaqal_output_list, matching length: same attribution, readout k carries output k
                            (as_int = the int / the bit string read qubit 0 first; as_str = its n-character form)
  traps_own_readouts        each subcircuit's .readouts are exactly its own readouts in order; its relative frequencies
                            count exactly those - through relative_frequency_by_int AND relative_frequency_by_str (and the
                            deprecated probability_by_* aliases of parsed results), whichever is read first, also for
                            subcircuits that were never visited (all zero), and the same when read a second time
  traps_outcome_possible    every sampled outcome has non-zero probability in its subcircuit's distribution (by_int and
                            by_str view) and agrees with the classically determined bits of THAT subcircuit
  traps_after_failure       the five statements above for the valid calls that come AFTER a failed call of the same
                            history (C08 quantifies over histories; kept apart so that the integrator can see it)
  traps_scope_numeric_form  the same statements when a count arrives as numpy integer / integral float / bool / -0.0
                            (override dict values, let values of the S-expression path) or the output list mixes numpy
                            integer scalars / numpy.str_ with int / str (the quantifier does not name these forms)

CLI: c08_traps.py [--seed S] [--n N] [--thorough]
"""
import os, sys, json, copy, random, signal, argparse

DEFAULT_DRIVER = "/verif/lean/.lake/build/bin/jaqal-model"
CORE = ("traps_terminates", "traps_accepted", "traps_emulator_visits", "traps_output_list_visits",
        "traps_own_readouts", "traps_outcome_possible")
ORACLES = CORE + ("traps_after_failure", "traps_scope_numeric_form")
STREAMS = ("fail", "views", "derived", "names", "forms")
MAX_VISITS = 60
COUNT_FAMILIES = [["n", "nn", "n0", "n10", "N"], ["m", "mn", "nm", "m_"], ["k", "kk", "k1", "K"], ["reps", "rep", "re"]]
INDEX_NAMES = ["i", "ii", "i0", "j"]
MACRO_NAMES = ["F", "FF", "F0", "G", "GF"]
REG_NAMES = ["r", "q", "rr", "reg"]
FLIPS = ("X", "Y", "FLIP", "ZX", "XX2")
KEEPS = ("Z", "I_X", "I_FLIP", "I_SX", "NOP")
_real = {}


def _load():
    """import jaqalpaq lazily (no work at import time)"""
    if _real:
        return _real
    os.environ["JAQALPAQ_RUN_EMULATOR"] = "1"
    root = os.path.dirname(os.path.dirname(os.path.dirname(os.path.abspath(__file__))))
    if not os.path.isfile(os.path.join(root, "harness", "gates.py")):
        root = "/verif"
    if root not in sys.path:
        sys.path.insert(0, root)
    import warnings
    warnings.filterwarnings("ignore")
    import numpy
    from harness import gates as Gm
    from harness import timeouts as T
    from jaqalpaq.parser import parse_jaqal_string
    from jaqalpaq.emulator import run_jaqal_circuit
    from jaqalpaq.emulator.unitary import UnitarySerializedEmulator
    from jaqalpaq.core.algorithm import fill_in_let, expand_macros, expand_subcircuits
    from jaqalpaq.core.result import parse_jaqal_output_list
    from jaqalpaq.core.circuitbuilder import build
    from jaqalpaq.core import Circuit, LoopStatement, GateDefinition, Parameter, ParamType
    from jaqalpaq.core.gatedef import add_idle_gates
    from jaqalpaq.error import JaqalError
    _real.update(np=numpy, Gm=Gm, T=T, parse=parse_jaqal_string, run=run_jaqal_circuit, USE=UnitarySerializedEmulator,
                 fill=fill_in_let, xm=expand_macros, xs=expand_subcircuits, out=parse_jaqal_output_list, build=build,
                 Circuit=Circuit, Loop=LoopStatement, GateDefinition=GateDefinition, Parameter=Parameter,
                 ParamType=ParamType, add_idle=add_idle_gates, JaqalError=JaqalError)
    return _real


class Hang(Exception):
    pass


def _alarm(*a):
    raise Hang()


# ---------------------------------------------------------------- gate sets

def gate_set(R, kind):
    """'std': harness gate set with idle gates.  'derived': every definition is a copy made with .copy(name=...),
    plus copies under another name / with other parameters / with another unitary, and the idle gates of all of them.
    'bad': std + gates that make the emulator fail (BOOM raises JaqalError, HALF is not unitary)."""
    Gm = R["Gm"]; np = R["np"]
    if kind == "std":
        g = dict(Gm.GATES_IDLE)
        g["FLIP"] = Gm.GATES["X"].copy(name="FLIP")
        g["NOP"] = Gm.GATES["Z"].copy(name="NOP")
        return g
    Q = R["ParamType"].QUBIT
    if kind == "derived":
        base = {}
        for nm, d in Gm.GATES.items():
            base[nm] = d.copy(name="".join([nm[:1], nm[1:]]))
        base["FLIP"] = base["X"].copy(name="FLIP")                                    # copy of a copy
        base["XX2"] = Gm.GATES["X"].copy(name="XX2", parameters=[R["Parameter"]("t", Q)])
        base["ZX"] = Gm.GATES["Z"].copy(name="ZX", ideal_unitary=Gm.U_X)              # Z's definition, X's unitary
        base["NOP"] = Gm.GATES["Z"].copy(name="NOP", parameters=list(Gm.GATES["Z"].parameters))
        return R["add_idle"](base)
    g = gate_set(R, "std")

    def boom():
        raise R["JaqalError"]("BOOM has no pulse")

    g["BOOM"] = R["GateDefinition"]("BOOM", [R["Parameter"]("q", Q)], ideal_unitary=boom)
    g["HALF"] = R["GateDefinition"]("HALF", [R["Parameter"]("q", Q)], ideal_unitary=lambda: np.eye(2, dtype=complex) / 2)
    return g


# ---------------------------------------------------------------- programs (JSON trees)
# top-level items:   ["sub", "sc"|"pm", inner]   ["loop", count, items]   ["blk", items]  (blk: top level only)
# inner items:       ["g", name, q]  ["cx", c, t]  ["iloop", count, inner]  ["par", [g, g]]  ["call", macro, q|None]
# count: int or let name;  q: int, let name, or the macro parameter name
# prog = {"nq", "reg", "lets": [[name, value]...] in declaration order, "macros": [{"name","param","body"}], "items"}

def gen_count(rng, ctx):
    if ctx["cnames"] and rng.random() < 0.6:
        return rng.choice(ctx["cnames"])
    return rng.choice([0, 0, 1, 1, 2, 2, 3])


def gen_qubit(rng, ctx):
    if ctx.get("param"):
        return ctx["param"]
    if ctx["inames"] and rng.random() < 0.3:
        return rng.choice(ctx["inames"])
    return rng.randrange(ctx["nq"])


def gen_gate(rng, ctx):
    pool = ["X", "X", "Y", "Z", "SX", "FLIP", "NOP", "I_X"]
    if ctx.get("derived"):
        pool += ["ZX", "XX2", "I_FLIP", "I_SX", "FLIP"]
    return ["g", rng.choice(pool), gen_qubit(rng, ctx)]


def gen_inner(rng, ctx, depth=0, maxlen=3):
    out = []
    n = rng.choice([0, 0, 1, 2, 3][:maxlen + 2])
    for _ in range(n):
        k = rng.random()
        if k < 0.5 or depth >= 2:
            out.append(gen_gate(rng, ctx))
        elif k < 0.7:
            out.append(["iloop", gen_count(rng, ctx), gen_inner(rng, ctx, depth + 1, 2)])
        elif k < 0.78 and not ctx.get("param") and ctx["nq"] >= 2:
            c, t = rng.sample(range(ctx["nq"]), 2)
            out.append(["cx", c, t])
        elif k < 0.85 and not ctx.get("param") and ctx["nq"] >= 2:
            a, b = rng.sample(range(ctx["nq"]), 2)
            out.append(["par", [["g", rng.choice(["X", "Y", "Z"]), a], ["g", rng.choice(["X", "FLIP"]), b]]])
        elif ctx.get("macros"):
            m = rng.choice(ctx["macros"])
            out.append(["call", m["name"], gen_qubit(rng, ctx) if m["param"] else None])
        else:
            out.append(gen_gate(rng, ctx))
    return out


def gen_items(rng, ctx, depth, maxdepth, top=False):
    out = []
    lo = 1 if top else 0
    for _ in range(rng.randint(lo, 3)):
        k = rng.random()
        if k < 0.45 or depth >= maxdepth:
            if ctx.get("same_sub") is not None and rng.random() < 0.7:
                out.append(["sub", rng.choice(["sc", "pm"]), copy.deepcopy(ctx["same_sub"])])
            else:
                out.append(["sub", rng.choice(["sc", "sc", "pm"]), gen_inner(rng, ctx)])
        elif k < 0.9 or not top:
            out.append(["loop", gen_count(rng, ctx), gen_items(rng, ctx, depth + 1, maxdepth)])
        else:
            out.append(["blk", gen_items(rng, ctx, depth + 1, maxdepth)])
    return out


def count_subs(items):
    return sum(1 if it[0] == "sub" else count_subs(it[-1]) for it in items)


def gen_program(rng, derived=False, maxdepth=3, need_depth=False):
    for _ in range(300):
        nq = rng.choice([1, 2, 2, 3])
        fam = rng.sample(COUNT_FAMILIES, rng.choice([1, 1, 2]))
        cnames = []
        for f in fam:
            cnames += rng.sample(f, rng.randint(1, min(3, len(f))))
        inames = rng.sample(INDEX_NAMES, rng.choice([0, 0, 1, 2]))
        reg = rng.choice(REG_NAMES)
        ctx = {"cnames": cnames, "inames": inames, "nq": nq, "macros": [], "derived": derived}
        macros = []
        mnames = rng.sample(MACRO_NAMES, rng.choice([0, 1, 2, 3]))
        for nm in mnames:
            param = rng.choice(["a", "x", "q0", None])
            if param is None:
                body = gen_inner(rng, dict(ctx, macros=[m for m in macros if m["param"] is None]), 1, 2) if rng.random() < 0.5 else []
            else:
                # a macro body calls macros defined BEFORE it, passing its parameter on
                body = gen_inner(rng, dict(ctx, param=param, macros=list(macros)), 1, 3)
            macros.append({"name": nm, "param": param, "body": body})
        ctx["macros"] = macros
        if rng.random() < 0.35:
            ctx["same_sub"] = gen_inner(rng, ctx)
        items = gen_items(rng, ctx, 0, maxdepth, top=True)
        lets = [[nm, rng.choice([0, 0, 1, 1, 2, 2, 3])] for nm in cnames] + [[nm, rng.randrange(nq)] for nm in inames]
        order = rng.choice(["shuffled", "descending", "ascending"])
        if order == "shuffled": rng.shuffle(lets)
        else: lets.sort(key=lambda x: x[0], reverse=(order == "descending"))
        prog = {"nq": nq, "reg": reg, "lets": lets, "macros": macros, "items": items, "let_order": order}
        worst = {nm: 3 for nm in cnames}
        if count_subs(items) == 0 or len(ref_visits(items, worst)) > MAX_VISITS:
            continue
        if need_depth and not deep_positions(items, dict(lets)):
            continue
        return prog
    raise RuntimeError("generator could not produce a program")


# ---------------------------------------------------------------- text / S-expression

def q_text(q, prog):
    return q if (isinstance(q, str) and q not in dict(prog["lets"])) else f"{prog['reg']}[{q}]"


def inner_text(inner, prog, ind):
    out = []
    for it in inner:
        if it[0] == "g": out.append(f"{ind}{it[1]} {q_text(it[2], prog)}")
        elif it[0] == "cx": out.append(f"{ind}CX {prog['reg']}[{it[1]}] {prog['reg']}[{it[2]}]")
        elif it[0] == "iloop": out.append(f"{ind}loop {it[1]} {{\n" + inner_text(it[2], prog, ind + "  ") + f"\n{ind}}}")
        elif it[0] == "par": out.append(f"{ind}< " + " | ".join(f"{g[1]} {q_text(g[2], prog)}" for g in it[1]) + " >")
        else: out.append(f"{ind}{it[1]}" + ("" if it[2] is None else " " + q_text(it[2], prog)))
    return "\n".join(out)


def items_text(items, prog, ind=""):
    out = []
    for it in items:
        if it[0] == "sub":
            body = inner_text(it[2], prog, ind + "  ")
            if it[1] == "sc": out.append(f"{ind}subcircuit {{\n{body}\n{ind}}}")
            else: out.append(f"{ind}prepare_all\n{body}\n{ind}measure_all")
        elif it[0] == "loop": out.append(f"{ind}loop {it[1]} {{\n" + items_text(it[2], prog, ind + "  ") + f"\n{ind}}}")
        else: out.append(f"{ind}{{\n" + items_text(it[1], prog, ind + "  ") + f"\n{ind}}}")
    return "\n".join(out)


def prog_text(p):
    head = "".join(f"let {nm} {v}\n" for nm, v in p["lets"]) + f"register {p['reg']}[{p['nq']}]\n"
    for m in p["macros"]:
        head += f"macro {m['name']} " + (m["param"] + " " if m["param"] else "") + "{\n" + inner_text(m["body"], p, "  ") + "\n}\n"
    return head + items_text(p["items"], p) + "\n"


def prog_sexpr(p, rng, conv=None):
    """S-expression in which equal sub-expressions are the SAME Python object (memo on the JSON of the subtree), made of
    lists or tuples.  `conv` converts let values (numeric form)."""
    memo = {}
    tup = rng.random() < 0.5
    lets = dict(p["lets"])

    def mk(*xs):
        return tuple(xs) if tup else list(xs)

    def q(x):
        if isinstance(x, str) and x not in lets: return x
        return mk("array_item", p["reg"], x)

    def share(key, f):
        k = json.dumps(key)
        if k not in memo: memo[k] = f()
        return memo[k]

    def inner(its):
        out = []
        for it in its:
            if it[0] == "g": out.append(share(it, lambda: mk("gate", it[1], q(it[2]))))
            elif it[0] == "cx": out.append(mk("gate", "CX", q(it[1]), q(it[2])))
            elif it[0] == "iloop": out.append(share(it, lambda: mk("loop", it[1], mk("sequential_block", *inner(it[2])))))
            elif it[0] == "par": out.append(mk("parallel_block", *inner(it[1])))
            else: out.append(mk("gate", it[1]) if it[2] is None else mk("gate", it[1], q(it[2])))
        return out

    def items(its):
        out = []
        for it in its:
            if it[0] == "sub":
                if it[1] == "sc": out.append(share(it, lambda: mk("subcircuit_block", None, *inner(it[2]))))
                else: out += [mk("gate", "prepare_all")] + inner(it[2]) + [mk("gate", "measure_all")]
            elif it[0] == "loop": out.append(share(it, lambda: mk("loop", it[1], mk("sequential_block", *items(it[2])))))
            else: out.append(mk("sequential_block", *items(it[1])))
        return out

    head = [mk("let", nm, conv(v) if conv else v) for nm, v in p["lets"]] + [mk("register", p["reg"], p["nq"])]
    for m in p["macros"]:
        head.append(mk("macro", m["name"], *([m["param"]] if m["param"] else []), mk("sequential_block", *inner(m["body"]))))
    return mk("circuit", *head, *items(p["items"]))


# ---------------------------------------------------------------- independent reference (property text only)

def val(c, env):
    return env[c] if isinstance(c, str) else c


def _walk(items, env, k):
    visits = []
    for it in items:
        if it[0] == "sub":
            visits.append(k); k += 1
        elif it[0] == "loop":
            body, k = _walk(it[2], env, k)
            visits += body * max(int(val(it[1], env)), 0)
        else:
            body, k = _walk(it[1], env, k)
            visits += body
    return visits, k


def ref_visits(items, env):
    return _walk(items, env, 0)[0]


def flat_subs(items, out=None):
    out = [] if out is None else out
    for it in items:
        if it[0] == "sub": out.append(it)
        else: flat_subs(it[-1], out)
    return out


def deep_positions(items, env, depth=0, k=None, mult=1, acc=None):
    """positions (0-based, in the visit sequence) of first visits that happen at loop depth >= 1 -> list of
    (position, depth).  Used to cut an output list so that the walk is aborted below the top level."""
    seq = []

    def rec(its, d, kk):
        out = []          # list of (k, depth)
        for it in its:
            if it[0] == "sub":
                out.append((kk[0], d)); kk[0] += 1
            elif it[0] == "loop":
                body = rec(it[2], d + 1, kk)
                out += body * max(int(val(it[1], env)), 0)
            else:
                out += rec(it[1], d + 1, kk)
        return out

    seq = rec(items, 0, [0])
    return [(i, d) for i, (kk, d) in enumerate(seq) if d >= 1]


def _bits(inner, env, macros, st, arg=None):
    """classical reachability of the measured bits: st[q] in (0, 1, None=unknown)"""
    for it in inner:
        if it[0] == "g":
            q = arg if (isinstance(it[2], str) and it[2] not in env) else val(it[2], env)
            if it[1] in FLIPS: st[q] = None if st[q] is None else 1 - st[q]
            elif it[1] == "SX": st[q] = None
        elif it[0] == "cx":
            c, t = it[1], it[2]
            if st[c] is None: st[t] = None
            elif st[c] == 1 and st[t] is not None: st[t] = 1 - st[t]
        elif it[0] == "iloop":
            for _ in range(max(int(val(it[1], env)), 0)): _bits(it[2], env, macros, st, arg)
        elif it[0] == "par":
            _bits(it[1], env, macros, st, arg)
        else:
            m = macros[it[1]]
            a = None
            if it[2] is not None:
                a = arg if (isinstance(it[2], str) and it[2] not in env) else val(it[2], env)
            _bits(m["body"], env, macros, st, a)
    return st


def ref_support(prog, env):
    macros = {m["name"]: m for m in prog["macros"]}
    return [_bits(s[2], env, macros, [0] * prog["nq"]) for s in flat_subs(prog["items"])]


def as_str_ref(v, nq):
    return format(v, "b").zfill(nq)[::-1]


def out_int(v):
    return int(v[::-1], 2) if isinstance(v, str) else int(v)


# ---------------------------------------------------------------- cases

BAD_DEFECTS = {
    "gate_outside": "X {r}[0]",
    "measure_alone": "measure_all",
    "measure_prepare_loop": "prepare_all\nloop 2 {{ measure_all\nprepare_all }}\nmeasure_all",
    "boom": "subcircuit {{ BOOM {r}[0] }}",
    "half": "subcircuit {{ HALF {r}[0] }}",
    "undefined": "subcircuit {{ UNDEF {r}[0] }}",
    "two_boom_outside": "subcircuit {{ BOOM {r}[0] }}\nX {r}[0]",
    "two_half_measure": "subcircuit {{ HALF {r}[0] }}\nmeasure_all",
    "neg_index": "subcircuit {{ X {r}[7] }}",
}


def bad_text(rng, kind, reg="r"):
    depth = rng.randint(1, 3)
    core = BAD_DEFECTS[kind].format(r=reg)
    for d in range(depth):
        pre = rng.choice(["", "subcircuit { X %s[0] }\n" % reg, "subcircuit { }\nsubcircuit { }\n"])
        post = rng.choice(["", "\nsubcircuit { }"])
        core = f"loop {rng.choice([1, 2, 2, 3])} {{\n{pre}{core}{post}\n}}"
    return f"let n 2\nregister {reg}[2]\nsubcircuit {{ X {reg}[1] }}\n{core}\nsubcircuit {{ }}\n"


def gen_vals(rng, nq, count, pattern, numpy_forms=False):
    """abstract outputs: ["i", v] int, ["s", bits] string, ["n", dtype, v] numpy scalar, ["ns", bits] numpy.str_"""
    out = []
    for j in range(count):
        v = rng.randrange(2 ** nq)
        if pattern == "int": s = False
        elif pattern == "str": s = True
        elif pattern == "int_first": s = j > 0 and rng.random() < 0.8
        elif pattern == "str_first": s = j == 0 or rng.random() < 0.2
        elif pattern == "alternate": s = j % 2 == 1
        else: s = rng.random() < 0.5
        if numpy_forms and rng.random() < 0.5:
            out.append(["ns", as_str_ref(v, nq)] if s else ["n", rng.choice(["int64", "uint8", "int32", "intp"]), v])
        else:
            out.append(["s", as_str_ref(v, nq)] if s else ["i", v])
    return out


def real_vals(R, vals):
    np = R["np"]
    out = []
    for v in vals:
        if v[0] == "i": out.append(v[1])
        elif v[0] == "s": out.append("".join(list(v[1])))
        elif v[0] == "n": out.append(getattr(np, v[1])(v[2]))
        elif v[0] == "ns": out.append(np.str_(v[1]))
        elif v[0] == "none": out.append(None)
        elif v[0] == "raw": out.append(v[1])
    return out


def vals_ints(vals):
    return [out_int(v[1]) if v[0] in ("s", "ns") else v[-1] for v in vals]


def env_for(prog, ovr):
    env = {nm: v for nm, v in prog["lets"]}
    if ovr:
        for k, v in ovr.items():
            if k in env: env[k] = ovr_value(v)
    return env


def ovr_value(v):
    """abstract override value -> its numeric value: int, or ["f", 2.0] / ["np", "int64", 2] / ["b", True] / ["npf", 1.0]"""
    if isinstance(v, list):
        return int(v[-1])
    return v


def real_ovr(R, ovr):
    np = R["np"]
    d = {}
    for k, v in ovr.items():
        key = "".join(list(k)) if len(k) > 1 else str(k)     # created at run time
        if isinstance(v, list):
            if v[0] == "f": v = float(v[1])
            elif v[0] == "np": v = getattr(np, v[1])(v[2])
            elif v[0] == "npf": v = np.float64(v[1])
            elif v[0] == "b": v = bool(v[1])
        d[key] = v
    return d


def gen_override(rng, prog, numeric=False):
    names = [nm for nm, _ in prog["lets"]]
    cn = [nm for nm in names if nm not in INDEX_NAMES]
    if not cn: return {}
    ovr = {}
    for nm in rng.sample(cn, rng.randint(1, min(2, len(cn)))):
        v = rng.choice([0, 0, 1, 2, 3])
        if numeric:
            form = rng.choice(["f", "np", "npf", "b", "negzero", "int"])
            if form == "f": v = ["f", float(v)]
            elif form == "np": v = ["np", rng.choice(["int64", "int32", "uint8"]), v]
            elif form == "npf": v = ["npf", float(v)]
            elif form == "b": v = ["b", rng.choice([True, False])]
            elif form == "negzero": v = ["f", -0.0]
        ovr[nm] = v
    return ovr


def gen_make(rng, p, prog, to, stream, slots):
    derived = prog.get("derived", False)
    numeric = stream == "forms"
    path = rng.choice(["text", "text", "sexpr"])
    flags = {}
    ovr = None
    if rng.random() < (0.6 if stream in ("names", "forms") else 0.3):
        ovr = gen_override(rng, prog, numeric and rng.random() < 0.8)
    if path == "text" and rng.random() < 0.4:
        flags["expand_let"] = True
        if ovr is not None: flags["ovr"] = ovr
    pre = []
    if stream == "derived" or rng.random() < 0.25:
        for ps in ("xs", "fill", "xm"):
            if rng.random() < 0.5: pre.append(ps)
    if ovr is not None and "ovr" not in flags:
        if "fill" not in pre:
            pre.append("fill"); pre.sort(key=["xs", "fill", "xm"].index)
    gates = "derived" if derived else "std"
    if not derived and slots and rng.random() < (0.5 if stream == "derived" else 0.1):
        cands = [s for s, info in slots.items() if not info.get("derived")]
        if cands: gates = "from:" + rng.choice(cands)
    st = {"op": "make", "p": p, "path": path, "flags": flags, "pre": pre, "gates": gates, "to": to,
          "sx_seed": rng.randrange(2 ** 30)}
    if ovr is not None and "ovr" not in flags:
        st["fill_ovr"] = ovr
    if numeric and path == "sexpr" and rng.random() < 0.6:
        st["let_form"] = rng.choice(["np", "f", "b"])
    env = env_for(prog, ovr)
    return st, env


def observe_steps(rng, c, info, progs, stream, nq, numeric=False):
    """one or two observed calls on circuit slot c"""
    steps = []
    want = info["want"]
    for _ in range(rng.choice([1, 1, 2])):
        if rng.random() < 0.5:
            steps.append({"op": "run", "c": c, "backend": rng.choice(["default", "shared", "shared"]), "order": rng.randrange(2 ** 30)})
        else:
            pattern = rng.choice(["int", "str", "int_first", "str_first", "alternate", "random"])
            steps.append({"op": "out", "c": c, "vals": gen_vals(rng, nq, len(want), pattern, numeric and rng.random() < 0.7),
                          "container": rng.choice(["list", "list", "tuple", "iter"]), "order": rng.randrange(2 ** 30)})
    return steps


def gen_bad_steps(rng, case, slots, new_slot):
    """1-2 failing calls"""
    steps = []
    for _ in range(rng.choice([1, 1, 2])):
        r = rng.random()
        good = [s for s, info in slots.items() if info["want"]]
        deep = [s for s in good if slots[s]["deep"]]
        if r < 0.45 and good:
            c = rng.choice(deep) if deep and rng.random() < 0.85 else rng.choice(good)
            info = slots[c]
            nq = info["nq"]; want = info["want"]
            if info["deep"] and rng.random() < 0.9:
                pos = rng.choice(info["deep"])[0]
            else:
                pos = rng.randrange(len(want))
            vals = gen_vals(rng, nq, len(want), "random")
            kind = rng.choice(["short", "short", "short", "badchar", "range", "none", "raise", "empty"])
            if kind == "short": vals = vals[:pos]
            elif kind == "badchar": vals[pos] = ["raw", "2" * nq]
            elif kind == "range": vals[pos] = ["raw", 2 ** nq + rng.randrange(3)]
            elif kind == "none": vals[pos] = ["none"]
            elif kind == "empty": vals[pos] = ["raw", ""]
            steps.append({"op": "bad_out", "c": c, "vals": vals, "kind": kind, "raise_at": pos if kind == "raise" else None})
        elif r < 0.8:
            kind = rng.choice(sorted(BAD_DEFECTS))
            steps.append({"op": "bad_prog", "kind": kind, "text": bad_text(rng, kind, rng.choice(["r", "q"])),
                          "how": rng.choice(["run", "run", "out", "both"]), "backend": rng.choice(["default", "shared"])})
        elif r < 0.88 and slots:
            c = rng.choice(sorted(slots))
            steps.append({"op": "bad_fill", "c": c, "ovr": rng.choice([{"no_such_let": 1}, {"n": "two"}, {"n": 1.5}, {"": 0}])})
        elif r < 0.95:
            steps.append({"op": "bad_parse", "text": "register r[2]\nloop 2 {\n subcircuit { X r[0] }\n loop 3 { subcircuit { X r[1] ] }\n}\n"})
        else:
            steps.append({"op": "bad_deep", "depth": rng.choice([150, 400])})
    return steps


def gen_case(rng, stream, thorough=False):
    maxdepth = 3 if (thorough or stream == "fail") else 2
    nprog = {"fail": rng.choice([1, 2, 2]), "views": 1, "derived": rng.choice([1, 2]), "names": rng.choice([1, 2]), "forms": 1}[stream]
    progs = []
    for i in range(nprog):
        derived = stream == "derived" and rng.random() < 0.5
        p = gen_program(rng, derived=derived, maxdepth=maxdepth, need_depth=(stream == "fail" and i == 0))
        p["derived"] = derived
        progs.append(p)
    case = {"stream": stream, "progs": progs, "steps": [], "npseed": rng.randrange(2 ** 31)}
    steps = case["steps"]
    slots = {}
    fresh = [0]

    def new_slot():
        nm = f"c{fresh[0]}"; fresh[0] += 1
        return nm

    def make(p):
        to = new_slot()
        st, env = gen_make(rng, p, progs[p], to, stream, slots)
        steps.append(st)
        slots[to] = {"p": p, "env": env, "nq": progs[p]["nq"], "want": ref_visits(progs[p]["items"], env),
                     "deep": deep_positions(progs[p]["items"], env), "derived": progs[p].get("derived", False), "mult": 1}
        return to

    def wrap(c):
        to = new_slot()
        k = rng.choice([0, 1, 2, 2, 3])
        steps.append({"op": "wrap", "from": c, "count": k, "to": to})
        info = slots[c]
        slots[to] = dict(info, want=info["want"] * k, deep=[], mult=info["mult"] * k)
        return to

    def again(c):
        """a pass applied to an existing circuit object (re-entrancy)"""
        to = new_slot()
        steps.append({"op": "repass", "from": c, "passes": [ps for ps in ("xs", "fill", "xm") if rng.random() < 0.6] or ["fill"], "to": to})
        slots[to] = dict(slots[c])
        return to

    if stream == "fail":
        cs = [make(p) for p in range(nprog)]
        if rng.random() < 0.5:
            steps += observe_steps(rng, cs[0], slots[cs[0]], progs, stream, slots[cs[0]]["nq"])
        for rnd in range(rng.choice([1, 1, 2])):
            steps += gen_bad_steps(rng, case, slots, new_slot)
            targets = list(cs)
            rng.shuffle(targets)
            if rng.random() < 0.3: targets.append(make(rng.randrange(nprog)))
            for c in targets[:rng.choice([1, 2, 3])]:
                steps += observe_steps(rng, c, slots[c], progs, stream, slots[c]["nq"])
    else:
        for p in range(nprog):
            c = make(p)
            steps += observe_steps(rng, c, slots[c], progs, stream, slots[c]["nq"], numeric=(stream == "forms"))
            if stream == "derived":
                for _ in range(rng.choice([1, 2])):
                    src = rng.choice(sorted(slots))
                    if len(slots[src]["want"]) * 3 > 3 * MAX_VISITS: continue
                    c2 = wrap(src) if rng.random() < 0.5 else again(src)
                    steps += observe_steps(rng, c2, slots[c2], progs, stream, slots[c2]["nq"])
                # the first circuit again, after its objects were reused elsewhere
                steps += observe_steps(rng, c, slots[c], progs, stream, slots[c]["nq"])[:1]
            elif rng.random() < 0.3:
                c2 = make(p)
                steps += observe_steps(rng, c2, slots[c2], progs, stream, slots[c2]["nq"], numeric=(stream == "forms"))
    case["slots"] = {s: {"p": i["p"], "env": i["env"], "mult": i["mult"]} for s, i in slots.items()}
    for p in progs:
        p["src"] = prog_text(p)
    return case


# ---------------------------------------------------------------- observing one result

def judge(R, r, kind, want, nsub, nq, given, support, order, tag):
    """-> list of (statement, ok, detail); statement in emulator_visits/output_list_visits/own_readouts/outcome_possible.
    Views are read in an order drawn from `order`; any exception while reading a view is a failure of the statement
    the view belongs to."""
    rnd = random.Random(order)
    vname = "emulator_visits" if kind == "run" else "output_list_visits"
    res = []
    try:
        if rnd.random() < 0.5:
            subs = list(r.subcircuits); ros = list(r.readouts)
        else:
            ros = list(r.readouts); subs = list(r.subcircuits)
        # the views of a result can be read again (an iterator would be used up)
        subs2 = list(r.subcircuits); ros2 = list(r.readouts)
        if len(subs2) != len(subs) or len(ros2) != len(ros) or any(a is not b for a, b in zip(subs + ros, subs2 + ros2)):
            return [(vname, False, f"{tag}: result.subcircuits / result.readouts read twice: {len(subs)} / {len(ros)} objects, then {len(subs2)} / {len(ros2)} (or other objects)")]
    except Exception as e:
        return [(vname, False, f"{tag}: reading the result: {type(e).__name__}: {e}")]
    # ---- per-subcircuit views, in random order
    views = ["rf_str", "rf_int", "readouts", "index", "mq", "repr", "p_str", "p_int"]
    if kind == "run": views += ["sp_str", "sp_int"]
    getters = {
        "rf_str": lambda sc: [(k, float(v)) for k, v in sc.relative_frequency_by_str.items()],
        "rf_int": lambda sc: [float(v) for v in sc.relative_frequency_by_int],
        "readouts": lambda sc: list(sc.readouts),
        "index": lambda sc: sc.index,
        "mq": lambda sc: len(sc.measured_qubits),
        "repr": lambda sc: repr(sc),
        "p_str": lambda sc: [(k, float(v)) for k, v in sc.probability_by_str.items()],
        "p_int": lambda sc: [float(v) for v in sc.probability_by_int],
        "sp_str": lambda sc: [(k, float(v)) for k, v in sc.simulated_probability_by_str.items()],
        "sp_int": lambda sc: [float(v) for v in sc.simulated_probability_by_int],
    }
    seen = {}
    ks = list(range(len(subs)))
    if rnd.random() < 0.7: rnd.shuffle(ks)
    read_order = []
    view_err = None
    for k in ks:
        vs = list(views)
        rnd.shuffle(vs)
        if rnd.random() < 0.5:           # the by-string view before anything else
            vs.remove("rf_str"); vs.insert(0, "rf_str")
        vs += ["rf_str", "rf_int"] if rnd.random() < 0.5 else ["rf_int", "rf_str"]     # a second read
        for v in vs:
            read_order.append(f"{k}.{v}")
            try:
                got = getters[v](subs[k])
            except Exception as e:
                if view_err is None:
                    view_err = (v, f"subcircuit {k}: reading {v} (views read so far: {read_order[-6:]}): {type(e).__name__}: {e}")
                continue
            if (k, v) in seen and v in ("rf_str", "rf_int"):
                if seen[(k, v)] != got and view_err is None:
                    view_err = (v, f"subcircuit {k}: {v} read twice gives {seen[(k, v)]} then {got}")
            else:
                seen[(k, v)] = got
    # ---- readouts: fields in random order
    rvals = []
    r_err = None
    for j, ro in enumerate(ros):
        fields = ["as_int", "as_str", "index", "sub", "repr"]
        rnd.shuffle(fields)
        d = {}
        for f in fields:
            try:
                if f == "as_int": d[f] = int(ro.as_int)
                elif f == "as_str": d[f] = str(ro.as_str)
                elif f == "index": d[f] = ro.index
                elif f == "sub": d[f] = ro.subcircuit
                else: d[f] = repr(ro)
            except Exception as e:
                if r_err is None: r_err = f"readout {j}: reading {f}: {type(e).__name__}: {e}"
        rvals.append(d)
    # ---- visits
    try:
        got = [d["sub"].index for d in rvals]
        ok = (r_err is None and got == want and len(subs) == nsub
              and [seen.get((k, "index")) for k in range(len(subs))] == list(range(nsub))
              and all(d["sub"] is subs[d["sub"].index] for d in rvals)
              and [d["index"] for d in rvals] == list(range(len(rvals))))
        detail = r_err or f"visits {got} over {len(subs)} subcircuits (indices {[seen.get((k, 'index')) for k in range(len(subs))]}, readout indices {[d.get('index') for d in rvals]}), reference {want} over {nsub}"
    except Exception as e:
        ok = False; detail = r_err or f"{type(e).__name__}: {e}"
    if ok and given is not None:
        ints = [d["as_int"] for d in rvals]; strs = [d["as_str"] for d in rvals]
        ok = ints == given and strs == [as_str_ref(v, nq) for v in given]
        detail = f"readout values {ints} / {strs}, outputs given {given} / {[as_str_ref(v, nq) for v in given]}"
    elif ok:
        bad = [j for j, d in enumerate(rvals) if not (0 <= d["as_int"] < 2 ** nq) or d["as_str"] != as_str_ref(d["as_int"], nq)]
        if bad:
            ok = False; detail = f"readout {bad[0]}: as_int {rvals[bad[0]]['as_int']} as_str {rvals[bad[0]]['as_str']!r} on {nq} qubits"
    res.append((vname, ok, "" if ok else f"{tag}: {detail}"))
    if not ok and (r_err is not None or len(subs) != nsub):
        return res
    # ---- own readouts / frequencies through both views
    ok = True; detail = ""
    if view_err is not None and view_err[0] in ("rf_str", "rf_int", "readouts", "index", "mq", "repr") or \
            (view_err is not None and kind == "out"):
        ok = False; detail = view_err[1]
    else:
        for k, sc in enumerate(subs):
            own = [d for d in rvals if d.get("sub") is sc]
            ownro = [ro for ro, d in zip(ros, rvals) if d.get("sub") is sc]
            mine = seen.get((k, "readouts"), [])
            hist = [0] * (2 ** nq)
            for d in own:
                if 0 <= d.get("as_int", -1) < len(hist): hist[d["as_int"]] += 1
            exp_str = [(as_str_ref(v, nq), float(h)) for v, h in enumerate(hist)]
            if len(mine) != len(ownro) or any(a is not b for a, b in zip(mine, ownro)):
                ok = False; detail = f"subcircuit {k}: lists {len(mine)} readouts, {len(ownro)} readouts of the result are attributed to it"
            elif seen.get((k, "rf_int")) != [float(h) for h in hist]:
                ok = False; detail = f"subcircuit {k}: relative_frequency_by_int {seen.get((k, 'rf_int'))}, own histogram {hist}"
            elif seen.get((k, "rf_str")) != exp_str:
                ok = False; detail = f"subcircuit {k}: relative_frequency_by_str {seen.get((k, 'rf_str'))}, expected {exp_str}"
            elif seen.get((k, "mq")) != nq:
                ok = False; detail = f"subcircuit {k}: {seen.get((k, 'mq'))} measured qubits, register has {nq}"
            elif kind == "out" and (seen.get((k, "p_int")) != [float(h) for h in hist] or seen.get((k, "p_str")) != exp_str):
                ok = False; detail = f"subcircuit {k}: probability_by_int/_str (aliases of the relative frequencies of a parsed result) {seen.get((k, 'p_int'))} / {seen.get((k, 'p_str'))}, own histogram {hist}"
            if not ok: break
    res.append(("own_readouts", ok, "" if ok else f"{tag}: {detail}"))
    # ---- sampled outcomes
    if kind == "run":
        ok = True; detail = ""
        if view_err is not None and view_err[0] in ("sp_str", "sp_int", "p_str", "p_int"):
            ok = False; detail = view_err[1]
        else:
            for j, d in enumerate(rvals):
                k = d["sub"].index
                if not (0 <= k < len(subs)): continue
                pi = seen.get((k, "sp_int")); ps = dict(seen.get((k, "sp_str")) or [])
                if pi is None or not (0 <= d["as_int"] < len(pi)) or not pi[d["as_int"]] > 0 or not ps.get(d["as_str"], 0) > 0:
                    ok = False; detail = f"readout {j} = {d['as_int']} ({d['as_str']}) has probability 0 in subcircuit {k}: by_int {pi}, by_str {ps}"; break
                if seen.get((k, "p_int")) != pi or dict(seen.get((k, "p_str")) or []) != ps:
                    ok = False; detail = f"subcircuit {k}: probability_by_int/_str differ from simulated_probability_by_int/_str"; break
                if support is not None and k < len(support) and any(b is not None and ((d["as_int"] >> q) & 1) != b for q, b in enumerate(support[k])):
                    ok = False; detail = f"readout {j} = {d['as_int']} (bit q = qubit q) is impossible for subcircuit {k}: reference bits {support[k]}"; break
        res.append(("outcome_possible", ok, "" if ok else f"{tag}: {detail}"))
    return res


# ---------------------------------------------------------------- executing one case on the real code

def exec_case(case, R=None):
    """-> list of [oracle, ok, detail, step index]"""
    R = R or _load()
    np = R["np"]; T = R["T"]; JE = R["JaqalError"]
    progs = case["progs"]
    texts = [prog_text(p) for p in progs]
    slots = {}
    checks = []
    failed_before = [False]
    numeric = [False]
    shared_backend = [None]
    gsets = {}

    def gs(kind):
        if kind not in gsets: gsets[kind] = gate_set(R, kind)
        return gsets[kind]

    def call(f, *a, **k):
        signal.alarm(int(T.limit()))
        try:
            return f(*a, **k)
        finally:
            signal.alarm(0)

    def add(stmt, ok, detail, idx):
        if numeric[0]: name = "traps_scope_numeric_form"
        elif failed_before[0] and stmt not in ("terminates",): name = "traps_after_failure"
        else: name = "traps_" + stmt
        if name in ("traps_after_failure", "traps_scope_numeric_form") and not ok:
            detail = f"[{stmt}] " + detail
        checks.append([name, bool(ok), detail, idx])

    def backend(which):
        if which == "default": return {}
        if shared_backend[0] is None: shared_backend[0] = R["USE"]()
        return {"backend": shared_backend[0]}

    old = signal.signal(signal.SIGALRM, _alarm)
    st0 = np.random.get_state()
    np.random.seed(case.get("npseed", 0))
    try:
        for idx, s in enumerate(case["steps"]):
            op = s["op"]
            tag = f"step {idx} {json.dumps(s)[:400]}" + (" (after a failed call)" if failed_before[0] else "")
            try:
                if op == "make":
                    prog = progs[s["p"]]
                    if s["gates"].startswith("from:"):
                        src = slots.get(s["gates"][5:])
                        if src is None: continue
                        gates = src["c"].native_gates
                    else:
                        gates = gs(s["gates"])
                    fl = s["flags"]
                    if s.get("let_form") or any(isinstance(v, list) for v in list(fl.get("ovr", {}).values()) + list(s.get("fill_ovr", {}).values())):
                        numeric[0] = True
                    try:
                        if s["path"] == "text":
                            kw = {}
                            if fl.get("expand_let"):
                                kw["expand_let"] = True
                                if "ovr" in fl: kw["override_dict"] = real_ovr(R, fl["ovr"])
                            c = call(R["parse"], texts[s["p"]], inject_pulses=gates, autoload_pulses=False, **kw)
                        else:
                            conv = None
                            if s.get("let_form") == "np": conv = lambda v: np.int64(v)
                            elif s.get("let_form") == "f": conv = float
                            elif s.get("let_form") == "b": conv = lambda v: bool(v) if v in (0, 1) else v
                            sx = prog_sexpr(prog, random.Random(s["sx_seed"]), conv)
                            c = call(R["build"], sx, inject_pulses=gates)
                        for ps in s["pre"]:
                            if ps == "xs": c = call(R["xs"], c)
                            elif ps == "xm": c = call(R["xm"], c)
                            elif "fill_ovr" in s: c = call(R["fill"], c, real_ovr(R, s["fill_ovr"]))
                            else: c = call(R["fill"], c)
                        add("accepted", True, "", idx)
                    except Hang:
                        raise
                    except Exception as e:
                        if numeric[0] and isinstance(e, JE):
                            continue            # a numeric form the library documents it refuses: nothing to observe
                        add("accepted", False, f"{tag}: {type(e).__name__}: {e}", idx)
                        continue
                    info = case["slots"][s["to"]]
                    slots[s["to"]] = {"c": c, "p": s["p"], "env": info["env"], "mult": info["mult"]}
                    continue
                if op in ("wrap", "repass"):
                    src = slots.get(s["from"])
                    if src is None: continue
                    try:
                        if op == "wrap":
                            c0 = src["c"]
                            c = R["Circuit"](native_gates=c0.native_gates)
                            c.registers.update(c0.registers); c.constants.update(c0.constants); c.macros.update(c0.macros)
                            c.body.statements.append(call(R["Loop"], s["count"], c0.body))
                        else:
                            c = src["c"]
                            for ps in s["passes"]:
                                c = call({"xs": R["xs"], "xm": R["xm"], "fill": R["fill"]}[ps], c)
                        add("accepted", True, "", idx)
                    except Hang:
                        raise
                    except Exception as e:
                        add("accepted", False, f"{tag}: {type(e).__name__}: {e}", idx)
                        continue
                    info = case["slots"][s["to"]]
                    slots[s["to"]] = {"c": c, "p": src["p"], "env": info["env"], "mult": info["mult"]}
                    continue
                if op.startswith("bad_"):
                    # not judged: the call only has to return (with a result or an exception)
                    try:
                        if op == "bad_out":
                            sl = slots.get(s["c"])
                            if sl is None: continue
                            vals = real_vals(R, s["vals"])
                            if s["kind"] == "raise":
                                def it(vals=vals, at=s["raise_at"]):
                                    for j, v in enumerate(vals):
                                        if j == at: raise RuntimeError("acquisition interrupted")
                                        yield v
                                vals = it()
                            call(R["out"], sl["c"], vals)
                        elif op == "bad_prog":
                            c = call(R["parse"], s["text"], inject_pulses=gs("bad"), autoload_pulses=False)
                            if s["how"] in ("run", "both"):
                                try: call(R["run"], c, **backend(s["backend"]))
                                except Hang: raise
                                except Exception: pass
                            if s["how"] in ("out", "both"):
                                call(R["out"], c, [0] * 3)
                        elif op == "bad_fill":
                            sl = slots.get(s["c"])
                            if sl is None: continue
                            call(R["fill"], sl["c"], dict(s["ovr"]))
                        elif op == "bad_parse":
                            call(R["parse"], s["text"], inject_pulses=gs("std"), autoload_pulses=False)
                        elif op == "bad_deep":
                            t = "register r[1]\n" + "loop 1 {\n" * s["depth"] + "subcircuit { X r[0] }\n" + "}\n" * s["depth"]
                            c = call(R["parse"], t, inject_pulses=gs("std"), autoload_pulses=False)
                            call(R["out"], c, [])
                    except Hang:
                        raise
                    except Exception:
                        pass
                    failed_before[0] = True
                    checks.append(["traps_terminates", True, "", idx])
                    continue
                # ---- observed calls
                sl = slots.get(s["c"])
                if sl is None: continue
                prog = progs[sl["p"]]; env = sl["env"]
                want = ref_visits(prog["items"], env) * sl["mult"]
                nsub = count_subs(prog["items"]); nq = prog["nq"]
                given = None
                vname = "emulator_visits" if op == "run" else "output_list_visits"
                if op == "out" and any(v[0] in ("n", "ns") for v in s["vals"]): numeric[0] = True
                try:
                    if op == "run":
                        r = call(R["run"], sl["c"], **backend(s["backend"]))
                    else:
                        vals = real_vals(R, s["vals"])
                        given = vals_ints(s["vals"])
                        if s["container"] == "tuple": vals = tuple(vals)
                        elif s["container"] == "iter": vals = iter(vals)
                        r = call(R["out"], sl["c"], vals)
                except Hang:
                    raise
                except Exception as e:
                    add(vname, False, f"{tag}: {type(e).__name__}: {e}; reference visits {want} (environment {env})", idx)
                    checks.append(["traps_terminates", True, "", idx])
                    continue
                checks.append(["traps_terminates", True, "", idx])
                sup = ref_support(prog, env) if op == "run" else None
                for stmt, ok, detail in judge(R, r, op, want, nsub, nq, given, sup, s["order"], tag):
                    add(stmt, ok, detail, idx)
            except Hang:
                T.saw_hang()
                checks.append(["traps_terminates", False, f"{tag}: no result within the time limit", idx])
                return checks
    finally:
        signal.alarm(0)
        signal.signal(signal.SIGALRM, old)
        np.random.set_state(st0)
    return checks


def has_bad(case):
    return any(s["op"].startswith("bad_") for s in case["steps"])


def _in_child(fn):
    """run fn() in a forked child and return its JSON result (None when fork is unavailable, "died" when the child
    produced nothing)"""
    if not hasattr(os, "fork"):
        return None
    try:
        rd, wr = os.pipe()
        pid = os.fork()
    except OSError:
        return None
    if pid == 0:
        code = 0
        try:
            os.close(rd)
            try:
                data = json.dumps(fn()).encode()
            except BaseException as e:       # noqa
                data = json.dumps({"harness_error": f"{type(e).__name__}: {e}"}).encode()
            with os.fdopen(wr, "wb") as f:
                f.write(data)
        except BaseException:                # noqa
            code = 1
        finally:
            os._exit(code)
    os.close(wr)
    chunks = []
    with os.fdopen(rd, "rb") as f:
        while True:
            b = f.read(65536)
            if not b: break
            chunks.append(b)
    os.waitpid(pid, 0)
    try:
        return json.loads(b"".join(chunks).decode())
    except Exception:
        return "died"


def exec_isolated(case, R=None):
    """run a case with failing calls in a forked child of its own (whatever such calls leave behind in the process
    must not reach other cases or the process of the check); falls back to in-process execution without fork"""
    R = R or _load()
    if not has_bad(case):
        return exec_case(case, R)
    res = _in_child(lambda: exec_case(case, R))
    if res is None:
        return exec_case(case, R)
    if res == "died" or isinstance(res, dict):
        return [["traps_terminates", False, f"the child process that ran this history gave no result ({res})", -1]]
    return res


def exec_batch(cases, R=None):
    """several cases with failing calls in ONE forked child (a fork costs as much as ten cases).  When every check of
    the batch holds, that is the result; as soon as one fails, every case of the batch is run again in a child of its
    own, so that a reported failure never depends on what another case left behind and replays deterministically."""
    R = R or _load()
    res = _in_child(lambda: [exec_case(c, R) for c in cases])
    if isinstance(res, list) and len(res) == len(cases) and all(ok for chk in res for _, ok, _, _ in chk):
        return res
    return [exec_isolated(c, R) for c in cases]


def strip(case):
    return json.loads(json.dumps(case))


# ---------------------------------------------------------------- protocol

def run(seed: int, n: int, driver: str = DEFAULT_DRIVER, thorough: bool = False) -> dict:
    R = _load()
    rng = random.Random(f"c08_traps:{seed}")
    if thorough: n = n * 6
    oracle = {k: {"cases": 0, "failures": [], "total": 0} for k in ORACLES}
    dist = {}
    samples = []
    distinct = set()

    def bump(k, v=1):
        dist[k] = dist.get(k, 0) + v

    weights = ["fail"] * 4 + ["views"] * 3 + ["derived"] * 2 + ["names"] * 2 + ["forms"] * 2
    cases = [gen_case(rng, weights[i % len(weights)], thorough) for i in range(n)]
    results = {}
    bad_idx = [i for i, c in enumerate(cases) if has_bad(c)]
    for b in range(0, len(bad_idx), 25):
        chunk = bad_idx[b:b + 25]
        for i, chk in zip(chunk, exec_batch([cases[i] for i in chunk], R)):
            results[i] = chk
    for i in range(n):
        stream = weights[i % len(weights)]
        case = cases[i]
        checks = results[i] if i in results else exec_case(case, R)
        failed = set()
        for name, ok, detail, idx in checks:
            oracle[name]["cases"] += 1
            if not ok and name not in failed:
                failed.add(name)
                oracle[name]["total"] += 1
                if len(oracle[name]["failures"]) < 20:
                    oracle[name]["failures"].append({"case": dict(strip(case), failed_step=idx), "detail": detail})
        steps = case["steps"]
        bump("cases"); bump("stream_" + stream)
        for s in steps:
            bump("op_" + s["op"])
            if s["op"] == "bad_out": bump("bad_out_" + s["kind"])
            if s["op"] == "bad_prog": bump("bad_prog_" + s["kind"])
            if s["op"] == "make":
                bump("make_path_" + s["path"]); bump("make_gates_" + s["gates"].split(":")[0])
                if s["pre"]: bump("make_with_caller_side_passes")
                if s["flags"].get("expand_let"): bump("make_expand_let")
                if "ovr" in s["flags"] or "fill_ovr" in s: bump("make_with_override")
                if s.get("let_form"): bump("sexpr_let_form_" + s["let_form"])
            if s["op"] == "out":
                forms = {v[0] for v in s["vals"]}
                bump("out_container_" + s["container"])
                if {"i", "s"} <= forms: bump("out_mixed_int_and_str")
                if s["vals"] and s["vals"][0][0] == "i" and "s" in forms: bump("out_int_first_then_str")
                if s["vals"] and s["vals"][0][0] == "s" and "i" in forms: bump("out_str_first_then_int")
                if forms & {"n", "ns"}: bump("out_numpy_forms")
            if s["op"] == "run": bump("run_backend_" + s["backend"])
        nobs_after = 0; seen_bad = False
        for s in steps:
            if s["op"].startswith("bad_"): seen_bad = True
            elif s["op"] in ("run", "out") and seen_bad: nobs_after += 1
        if nobs_after: bump("observed_calls_after_a_failed_call", nobs_after)
        for sname, info in case["slots"].items():
            p = case["progs"][info["p"]]
            want = ref_visits(p["items"], info["env"])
            if len(set(want)) < count_subs(p["items"]): bump("circuit_with_never_visited_subcircuit")
            if not want: bump("circuit_without_any_visit")
        for p in case["progs"]:
            if any(not s[2] for s in flat_subs(p["items"])): bump("program_with_empty_subcircuit")
            if '"loop", 0' in json.dumps(p["items"]) or '"iloop", 0' in json.dumps(p["items"]): bump("program_with_literal_zero_loop")
            if any(not m["body"] for m in p["macros"]): bump("program_with_empty_macro")
            if len(p["macros"]) > 1: bump("program_with_several_macros")
            names = [nm for nm, _ in p["lets"]]
            if any(a != b and a in b for a in names for b in names): bump("program_with_let_names_substring_of_each_other")
            bump("let_order_" + p["let_order"])
            if p.get("derived"): bump("program_on_derived_gate_set")
            if "[]" in json.dumps(p["items"]): bump("program_with_empty_block_or_body")
        distinct.add(json.dumps([[p["lets"], p["items"]] for p in case["progs"]] + [steps], sort_keys=True))
        if len(samples) < 5 and i % len(weights) in (0, 4, 7, 9, 11): samples.append(strip(case))
    return {"corr": {}, "oracle": oracle, "distribution": dist, "samples": samples, "nontrivial": len(distinct)}


def replay(case: dict, driver: str = DEFAULT_DRIVER) -> dict:
    checks = exec_isolated(case, _load())
    fails = [f"{name}: {detail}" for name, ok, detail, idx in checks if not ok]
    return {"oracle_ok": not fails, "detail": "; ".join(fails[:4]) or "ok",
            "impl": {"checks": len(checks), "failed": len(fails)}}


def main():
    ap = argparse.ArgumentParser()
    ap.add_argument("--seed", type=int, default=0)
    ap.add_argument("--n", type=int, default=260)
    ap.add_argument("--thorough", action="store_true")
    a = ap.parse_args()
    res = run(a.seed, a.n, thorough=a.thorough)
    bad = 0
    for name, d in res["oracle"].items():
        bad += d["total"]
        print(f"oracle {name:26} cases {d['cases']:6}  failures {d['total']}")
        for x in d["failures"][:2]:
            print("   ", x["detail"][:1500])
            for p in x["case"]["progs"]: print("    program:\n      " + p["src"].replace("\n", "\n      "))
    print("distribution", res["distribution"], "nontrivial", res["nontrivial"])
    sys.exit(0 if bad == 0 else 1)


if __name__ == "__main__":
    main()
