#!/venv/bin/python
"""C14 oracle stream (fifth round): COMBINATIONS and POSITIONS the other C14 generators never produce.

    PYTHONPATH=/verif /venv/bin/python /verif/harness/agents/c14_combo.py [--seed 0] [--n 3500] [--thorough]

Recommended: quick n=3500 (3 pipelines per program, ~9 600 pipeline runs, 10-13 s on the loaded machine, 3.5 s of it imports),
thorough n=6000 (every applicable pipeline, up to 20 per program, ~97 000 runs, 1.5-2 min).

Importable: `run(seed, n, driver, thorough) -> dict`, `replay(case, driver) -> dict` (AGENT_CONVENTIONS.md, "Diff-script
protocol").  Oracles only (`"corr": {}`): the Lean driver is not used.

What C14 says: a program is never accepted with a qubit index outside 0..size-1 of the register or alias it indexes
(literal, let value, overriding value, macro substitution), an alias slice reaching outside its source, an alias or
index applied to something that is not a register, an undefined or doubly defined identifier, a call to an unknown gate
when a native gate set is in force, or a call with the wrong number or kind of arguments; such programs are rejected WITH
JaqalError AT THE LATEST WHEN THE OFFENDING VALUE BECOMES KNOWN (parsing, let substitution, macro expansion, emulation) and
never run on a different qubit or gate.  Quantifier: all programs, all override dictionaries.

How this script states it.  Programs are the JSON trees of c14_edge.py (header: lets / register / maps; top: macros and
statements; an override dictionary) extended by `subcircuit` blocks, empty blocks, programs WITHOUT prepare_all /
measure_all, a text layout and comments.  The independent reference is c14_edge's evaluator `Ref` (it shares no code with
the library; lexical scoping: a macro parameter hides a let / register / alias of its name inside that macro and nowhere
else, an override dictionary replaces the values of LET CONSTANTS and of nothing else), extended here by subcircuit blocks.
For each knowledge level ({}, {let}, {macro}, {let, macro}) it says whether a reference that cannot be honoured is
determined; with full knowledge it yields the fundamental qubit of every executed native call and the basis state every
subcircuit ends in.  Each program goes through PIPELINES of library stages (each stage adds knowledge):

    A  parse, fill_in_let(c, ov), expand_macros, run        B  parse, expand_macros, fill_in_let(c, ov), run
    AN / BN  the same two orders without the emulator (programs that have no prepare_all ... measure_all structure)
    A2 parse, fill, fill again, expand, run                 AK parse, expand_macros(preserve_definitions=True), fill, expand, run
    S1 parse, expand_subcircuits, fill, expand, run         S2 parse, fill, expand, expand_subcircuits, run
    S3 parse, expand, expand_subcircuits, fill, run         C / D / H1 / H2  the parse flags expand_let / expand_macro / expand_let_map
    E  parse, fill, run     E0 parse, run (no override)     F / F2 own S-expression     G CircuitBuilder     I build(parse_to_sexpression)

Oracles (per program and pipeline; the same statements as c14_edge)
  invalid_reference_rejected        : a program the reference finds invalid (full knowledge) is refused at some stage.
  rejected_when_known               : ... by the end of the first stage whose knowledge level determines the defect.
  rejection_is_jaqalerror           : ... and the stage that refuses it raises JaqalError.
  accepted_runs_on_reference_qubits : a program the reference finds valid, IF the passes accept it, holds (loops unrolled)
                                      exactly the reference's native calls on the reference's fundamental qubits and
                                      classical values, and the emulator — if it runs it — ends every subcircuit in the
                                      reference's basis state.  (A refusal of a valid program is tabulated, never reported.)
  terminates                        : every guarded call returns within `harness.timeouts.limit()` seconds.
Programs whose status the property does not fix are `ambiguous` for the reference and only feed `terminates`.

Streams
  shadow   : NAME SHADOWING.  A macro parameter bears the name of a let constant / the register / an alias / a qubit alias /
             the macro itself / another macro / a native gate / nothing else (but the override dictionary has an entry for
             it).  Inside the macro the name is used as qubit index (of the register, of an alias whose bound is that let,
             of a register parameter), loop count, integer gate argument, register, qubit; the hidden let is at the same
             time used OUTSIDE (and through aliases / the register size INSIDE) as register size, alias bound, qubit-alias
             index, index or loop count of a twin statement with the SAME TEXT as the one in the macro (before the
             definition / between definition and call / after the call), in a second macro that forwards its own
             parameter of that name, passes the let itself, or uses the let where the first macro uses the parameter.
             x override dictionary (none / the hidden let, to a value that differs from the call argument / another let /
             both / a name that is no let at all) x call argument (valid and different from the override, equal to it,
             size, size+1, -1, the let itself, another let) x call wrapper x every order of the passes.
  roles    : ONE let constant in SEVERAL roles at once (register size, slice bounds, qubit-alias index, gate index, loop
             count, integer argument, macro argument, subcircuit count) with ONE override, macros whose parameter names
             are drawn from the same small pool (so they shadow by chance), 2-5 statements; the reference balances valid /
             invalid.
  position : the FIRST / LAST element and shapes ONE LEVEL OFF.  One probe (valid, or: index by literal / let / override /
             macro argument out of range, undefined identifier, unknown gate, arity, kind) placed as first / last
             statement of the program, after measure_all (dangling tail), before prepare_all, as the ONLY statement
             (also: a macro call as the only statement), first / last of a block, a loop body, a macro body, a subcircuit;
             after an empty `{ }` / `< >` / `loop k { }` / `loop k < >` / `subcircuit { }` / call of an empty macro; in
             `loop k < a | b >` versus `loop k { < a | b > }`; in subcircuits that occur ONLY nested (loop, block, macro body).
  history  : STATE LEFT BEHIND.  Families of 2-5 programs that differ in one number (a size, an index, a declared or
             overriding value, a call argument), run back to back in one process in an order that revisits members
             (A, A', A, A'', A'), with the same or different pipelines, earlier circuits dropped and collected or kept, the
             parsed circuit of one text shared between the members that differ only in the override; each run is judged
             against the reference on its own.  A failing case carries the whole history up to the failing step.
Text pipelines render the program compactly or spread over lines; a third of the texts carries comments whose content
looks like code behind characters some string methods treat as line breaks (\\r, \\x0b, \\x0c, \\x1c-\\x1e, \\x85, \\u2028,
\\u2029) and runs of 30-3000 `*` in terminated block comments: the reference ignores comments.
"""
import argparse
import collections
import copy
import gc
import json
import os
import random
import sys

sys.path.insert(0, os.path.dirname(os.path.dirname(os.path.dirname(os.path.abspath(__file__)))))

from harness import timeouts as _T  # noqa: E402
from harness.agents import c14_edge as E  # noqa: E402

DEFAULT_DRIVER = "/verif/lean/.lake/build/bin/jaqal-model"

lit, ident, gate, item, aid, anum = E.lit, E.ident, E.gate, E.item, E.aid, E.anum
enc, dec, is_intval = E.enc, E.dec, E.is_intval
guarded = E.guarded
BAD = E.BAD
LEVELS = E.LEVELS
SIG = E.SIG

_LIB3 = None


def lib():
    global _LIB3
    if _LIB3 is None:
        L = dict(E.lib())
        from jaqalpaq.core.algorithm import expand_subcircuits
        from jaqalpaq.core.circuitbuilder import SubcircuitBlockBuilder

        L["expand_subcircuits"] = expand_subcircuits
        L["SubcircuitBlockBuilder"] = SubcircuitBlockBuilder
        _LIB3 = L
    return _LIB3


# ---------------------------------------------------------------------------------------------------------------
# the reference: c14_edge's evaluator plus subcircuit blocks


class Ref3(E.Ref):
    def run(self):
        for t in self.prog["top"]:
            if t["k"] == "macro" and len(set(t["params"])) != len(t["params"]):
                self.ambiguous.append("macro with two parameters of one name")
        return super().run()

    def stmt(self, s, env, macros, out, expand):
        if s["k"] == "sub":
            c = self.ev(s.get("count"), env)
            if c is not None and c is not BAD:
                if c[0] == "num" and not (is_intval(c[1]) and c[1] >= 1):
                    self.ambiguous.append("subcircuit count not a positive integer")
                elif c[0] not in ("num", "numu", "opaque"):
                    self.ambiguous.append("subcircuit count not a number")
            sub = []
            out.append(("sub", c, sub))
            for x in s["body"]:
                self.stmt(x, env, macros, sub, expand)
            return
        return super().stmt(s, env, macros, out, expand)


def _natural(c, lo=0, hi=64):
    return c is not None and c is not BAD and c[0] == "num" and is_intval(c[1]) and lo <= c[1] <= hi


def _simulate(items, nq):
    """basis state (bit q = qubit q) after the items (loops unrolled), None when the reference cannot say"""
    bits = [0] * nq
    ok = [True]

    def go(its):
        for it in its:
            if not ok[0]:
                return
            if it[0] == "loop":
                if not _natural(it[1]):
                    ok[0] = False
                    return
                for _ in range(int(it[1][1])):
                    go(it[2])
                continue
            if it[0] == "sub":
                ok[0] = False
                return
            name, vals = it[1], it[2]
            qs = [v[2] for v in vals if v[0] == "qubit"]
            if len(qs) != SIG[name].count("q") or len(set(qs)) != len(qs) or any(not 0 <= q < nq for q in qs):
                ok[0] = False
                return
            if name == "X":
                bits[qs[0]] ^= 1
            elif name == "CX":
                bits[qs[1]] ^= bits[qs[0]]
            elif name == "SWAP":
                bits[qs[0]], bits[qs[1]] = bits[qs[1]], bits[qs[0]]
            elif name == "CCX":
                bits[qs[2]] ^= bits[qs[0]] & bits[qs[1]]
            elif name == "ROT3":
                a, b, c = (bits[q] for q in qs)
                bits[qs[0]], bits[qs[1]], bits[qs[2]] = c, a, b
            elif name == "N":
                ok[0] = False   # no unitary

    go(items)
    return sum(b << q for q, b in enumerate(bits)) if ok[0] else None


def _names_in(items):
    out = set()
    for it in items:
        if it[0] == "g":
            out.add(it[1])
        else:
            out |= _names_in(it[2])
    return out


def _has_sub(items):
    return any(it[0] == "sub" or (it[0] == "loop" and _has_sub(it[2])) for it in items)


def _count_gates(items):
    return sum(1 if it[0] == "g" else _count_gates(it[2]) for it in items)


def ref_states(trace, nq):
    """The basis state every subcircuit ends in, in the order of the text — only for the two plain structures:
    (P) prepare_all / measure_all are top-level statements that alternate, every other gate lies between a pair;
    (S) no prepare_all / measure_all at all, every gate lies in exactly one subcircuit block, which sits at top level or in
        blocks / loops of count >= 1 (a subcircuit is one subcircuit however often the loop around it runs).
    Anything else: None (the emulator's answer is not judged, the calls of the accepted circuit still are)."""
    names = _names_in(trace)
    pm = bool(names & {"prepare_all", "measure_all"})
    sub = _has_sub(trace)
    if pm and sub:
        return None
    states = []
    if pm:
        cur = None
        for it in trace:
            if it[0] == "g" and it[1] == "prepare_all":
                if cur is not None:
                    return None
                cur = []
            elif it[0] == "g" and it[1] == "measure_all":
                if cur is None:
                    return None
                st = _simulate(cur, nq)
                if st is None:
                    return None
                states.append(st)
                cur = None
            else:
                if it[0] != "g" and _names_in(it[2]) & {"prepare_all", "measure_all"}:
                    return None
                if cur is None:
                    if it[0] == "g" or _count_gates(it[2]):
                        return None
                else:
                    cur.append(it)
        return states if cur is None else None
    if sub:
        def go(items):
            for it in items:
                if it[0] == "g":
                    return False
                if it[0] == "loop":
                    if not _natural(it[1], lo=1) or not go(it[2]):
                        return False
                else:
                    if _has_sub(it[2]):
                        return False
                    st = _simulate(it[2], nq)
                    if st is None:
                        return False
                    states.append(st)
            return True

        return states if go(trace) else None
    return None


def judge(prog):
    """-> {"invalid": {level: bool}, "defects", "ambiguous", "flat": [...] | None, "states": [int] | None, "nq"}"""
    refs = {lv: Ref3(prog, *lv).run() for lv in LEVELS}
    full = refs[(True, True)]
    ambiguous = list(full.ambiguous)
    for lv in LEVELS:
        for a in refs[lv].ambiguous:
            if a not in ambiguous:
                ambiguous.append(a)
    for name, ds in full.macro_defects.items():
        if ds and name not in full.expanded and not refs[(False, False)].macro_defects.get(name):
            ambiguous.append(f"let-dependent defect in macro {name}, which is never called")
    out = {"invalid": {lv: bool(refs[lv].defects) for lv in LEVELS}, "defects": full.defects[:6], "ambiguous": ambiguous,
           "flat": None, "states": None, "nq": None}
    for lv in LEVELS:
        if refs[lv].defects and not full.defects:
            raise AssertionError(f"reference not monotone: {lv} {refs[lv].defects}")
    if full.defects or ambiguous:
        return out
    flat = []
    unrollable = [True]

    def walk(items):
        for it in items:
            if it[0] == "g":
                flat.append([it[1], [E._flatval(v) for v in it[2]]])
            elif it[0] == "sub":
                walk(it[2])
            else:
                if not _natural(it[1]):
                    unrollable[0] = False
                    return
                for _ in range(int(it[1][1])):
                    walk(it[2])

    walk(full.trace)
    out["flat"] = flat if unrollable[0] and len(flat) < 5000 else None
    regs = [v for v in full.env.values() if v[0] == "reg" and v[2] == 0 and v[3] == 1]
    fund = {v[1]: v[4] for v in regs if v[1] in full.env and full.env[v[1]] == v}
    if len(fund) == 1:
        out["nq"] = list(fund.values())[0]
        if out["nq"] <= 8:
            out["states"] = ref_states(full.trace, out["nq"])
    return out


# ---------------------------------------------------------------------------------------------------------------
# renderings: Jaqal text (two layouts, comments), S-expression, CircuitBuilder

NoText = E.NoText
_t_expr, _t_arg = E._t_expr, E._t_arg


def _t_stmt(s, inside, lines):
    """`inside`: "top" | "seq" | "par" | "loop" | "macro"; `lines`: spread blocks over lines"""
    k = s["k"]
    if k == "gate":
        return " ".join([s["name"]] + [_t_arg(a) for a in s["args"]])
    if k == "loop":
        if inside == "par":
            raise NoText("loop inside a parallel block")
        blk = {"k": "par" if s.get("par") else "seq", "body": s["body"]}
        return f"loop {_t_expr(s['count'])} {_t_stmt(blk, 'loop', lines)}"
    if k == "sub":
        if inside == "par":
            raise NoText("subcircuit inside a parallel block")
        c = "" if s.get("count") is None else _t_expr(s["count"]) + " "
        return f"subcircuit {c}{_t_stmt({'k': 'seq', 'body': s['body']}, 'sub', lines)}"
    if k == inside:
        raise NoText("block nested in a block of its own kind")
    if k == "seq":
        inner = [_t_stmt(x, "seq", lines) for x in s["body"]]
        if not inner:
            return "{ }"
        return "{\n" + "\n".join(inner) + "\n}" if lines else "{ " + " ; ".join(inner) + " }"
    inner = [_t_stmt(x, "par", lines) for x in s["body"]]
    if not inner:
        return "< >"
    return "<\n" + "\n".join(inner) + "\n>" if lines else "< " + " | ".join(inner) + " >"


def render_text(prog):
    lines = prog.get("style") == "lines"
    out = [ln for ln in E.render_text({"header": prog["header"], "top": []}).split("\n") if ln]
    for t in prog["top"]:
        if t["k"] == "macro":
            blk = {"k": "par" if t.get("par") else "seq", "body": t["body"]}
            out.append(" ".join(["macro", t["name"]] + t["params"]) + " " + _t_stmt(blk, "macro", lines))
        else:
            out.append(_t_stmt(t, "top", lines))
    out = "\n".join(out).split("\n")
    for d in prog.get("deco") or []:
        at = d["at"] % len(out)
        if d["kind"] == "line":
            out[at] = out[at] + " //" + d["text"]
        else:
            out.insert(at, "/*" + d["text"] + "*/")
    return "\n".join(out) + "\n"


_x_expr, _x_arg = E._x_expr, E._x_arg


def _x_stmt(s):
    k = s["k"]
    if k == "gate":
        return ["gate", s["name"]] + [_x_arg(a) for a in s["args"]]
    if k == "loop":
        return ["loop", _x_expr(s["count"]), ["parallel_block" if s.get("par") else "sequential_block"] + [_x_stmt(x) for x in s["body"]]]
    if k == "sub":
        return ["subcircuit_block", "" if s.get("count") is None else _x_expr(s["count"])] + [_x_stmt(x) for x in s["body"]]
    return ["parallel_block" if k == "par" else "sequential_block"] + [_x_stmt(x) for x in s["body"]]


def render_sx(prog):
    out = E.render_sx({"header": prog["header"], "top": []})
    for t in prog["top"]:
        if t["k"] == "macro":
            out.append(["macro", t["name"]] + list(t["params"])
                       + [["parallel_block" if t.get("par") else "sequential_block"] + [_x_stmt(x) for x in t["body"]]])
        else:
            out.append(_x_stmt(t))
    return out


def build_with_circuitbuilder(prog):
    L = lib()
    cb = L["CircuitBuilder"](native_gates=L["GATES"])

    def fill(bb, stmts):
        for s in stmts:
            k = s["k"]
            if k == "gate":
                bb.gate(s["name"], *[_x_arg(a) for a in s["args"]])
            elif k == "loop":
                inner = (L["ParallelBlockBuilder"] if s.get("par") else L["SequentialBlockBuilder"])()
                fill(inner, s["body"])
                bb.loop(_x_expr(s["count"]), inner, unevaluated=True)
            elif k == "sub":
                fill(bb.subcircuit(None if s.get("count") is None else _x_expr(s["count"])), s["body"])
            else:
                fill(bb.block(parallel=(k == "par")), s["body"])

    for h in prog["header"]:
        if h["k"] == "let":
            cb.let(h["name"], dec(h["v"], real=True), unevaluated=True)
        elif h["k"] == "reg":
            cb.register(h["name"], _x_expr(h["size"]), unevaluated=True)
        elif h["form"] == "whole":
            cb.map(h["name"], h["src"], unevaluated=True)
        elif h["form"] == "index":
            cb.map(h["name"], h["src"], _x_expr(h["index"]), unevaluated=True)
        else:
            cb.map(h["name"], h["src"], slice(_x_expr(h["start"]), _x_expr(h["stop"]), _x_expr(h["step"])), unevaluated=True)
    for t in prog["top"]:
        if t["k"] == "macro":
            inner = (L["ParallelBlockBuilder"] if t.get("par") else L["SequentialBlockBuilder"])()
            fill(inner, t["body"])
            cb.macro(t["name"], list(t["params"]), inner, unevaluated=True)
        else:
            fill(cb, [t])
    return cb.build()


# ---------------------------------------------------------------------------------------------------------------
# pipelines

LET, MAC = "let", "macro"
STAGE_K = dict(E.STAGE_K)
STAGE_K.update({"expand_keep": (MAC,), "subc": (), "fill2": (LET,)})
PIPES = {
    "A": ["parse", "fill", "expand", "run"],
    "B": ["parse", "expand", "fill", "run"],
    "AN": ["parse", "fill", "expand"],
    "BN": ["parse", "expand", "fill"],
    "A2": ["parse", "fill", "fill2", "expand", "run"],
    "AK": ["parse", "expand_keep", "fill", "expand", "run"],
    "S1": ["parse", "subc", "fill", "expand", "run"],
    "S2": ["parse", "fill", "expand", "subc", "run"],
    "S3": ["parse", "expand", "subc", "fill", "run"],
    "C": ["parse_all", "run"],
    "D": ["parse_letmap", "expand", "run"],
    "E": ["parse", "fill", "run"],
    "E0": ["parse", "run"],            # only without an override dictionary
    "H1": ["parse_let", "expand", "run"],
    "H2": ["parse_macro", "fill", "run"],
    "I": ["build_parsed_sx", "fill", "expand", "run"],
    "F": ["build_sx", "fill", "expand", "run"],
    "F2": ["build_sx", "expand", "fill", "run"],
    "FN": ["build_sx", "fill", "expand"],
    "G": ["cbuilder", "expand", "fill", "run"],
}
TEXT_PIPES = ["A", "B", "AN", "BN", "A2", "AK", "S1", "S2", "S3", "C", "D", "E", "E0", "H1", "H2", "I"]
OBJ_PIPES = ["F", "F2", "FN", "G"]


def applicable(prog, text):
    ps = list(OBJ_PIPES)
    if text is not None:
        ps = [p for p in TEXT_PIPES if not (p == "E0" and prog["ov"])] + ps
    return ps


def do_stage(stage, prog, text, circ, shared=None):
    L = lib()
    G = L["GATES"]
    ov = {name: dec(v, real=True) for name, v in prog["ov"]} or None
    if stage == "parse":
        if shared is not None:
            if text not in shared:
                shared[text] = L["parse_jaqal_string"](text, inject_pulses=G, autoload_pulses=False)
            return shared[text]
        return L["parse_jaqal_string"](text, inject_pulses=G, autoload_pulses=False)
    if stage == "build_sx":
        return L["core_build"](render_sx(prog), inject_pulses=G)
    if stage == "cbuilder":
        return build_with_circuitbuilder(prog)
    if stage == "fill2":
        return L["fill_in_let"](circ, override_dict=ov)
    if stage == "expand_keep":
        return L["expand_macros"](circ, preserve_definitions=True)
    if stage == "subc":
        return L["expand_subcircuits"](circ)
    return E.do_stage(stage, prog, text, circ)


def _comparable(ref, got, expanded_subcircuits):
    """expand_subcircuits writes the prepare_all / measure_all of a subcircuit block out: they are not compared then"""
    if not expanded_subcircuits:
        return ref, got
    pm = ("prepare_all", "measure_all")
    return [c for c in ref if c[0] not in pm], [c for c in got if c[0] not in pm]


def check(prog, pipe, verdict, text, shared=None):
    """Run one pipeline.  -> (results: [(oracle, ok, detail)], facts: [str])"""
    stages = PIPES[pipe]
    known = set()
    results, facts = [], []
    circ = None
    required = None      # index of the first stage whose knowledge determines a defect
    refused = None       # (index, outcome)
    pre_run = None
    final = None
    for i, st in enumerate(stages):
        known |= set(STAGE_K[st])
        if required is None and verdict["invalid"][(LET in known, MAC in known)]:
            required = i
    known = set()
    for i, st in enumerate(stages):
        known |= set(STAGE_K[st])
        lv = (LET in known, MAC in known)
        r = guarded(lambda st=st, circ=circ: do_stage(st, prog, text, circ, shared))
        if r[0] == "hang":
            results.append(("terminates", False, f"{st}: no answer within {_T.limit()} s"))
            return results, facts
        if r[0] != "ok":
            refused = (i, r)
            break
        if st == "run":
            final = r[1]
        else:
            circ = r[1]
            if lv == (True, True):
                pre_run = circ
    results.append(("terminates", True, ""))
    if verdict["ambiguous"]:
        facts.append("ambiguous: " + ("accepted" if refused is None else "refused"))
        return results, facts
    invalid = verdict["invalid"][(True, True)]
    if invalid:
        why = "; ".join(verdict["defects"][:3])
        if refused is None:
            results.append(("invalid_reference_rejected", False, f"accepted by every stage of {stages}; the reference says: {why}"))
            facts.append("invalid: ACCEPTED")
            return results, facts
        i, r = refused
        results.append(("invalid_reference_rejected", True, ""))
        results.append(("rejected_when_known", i <= required,
                        f"defect ({why}) is determined after stage {stages[required]!r} but the program passed it and was refused "
                        f"only by {stages[i]!r}: {r[1:]}"))
        results.append(("rejection_is_jaqalerror", r[0] == "jaqal",
                        f"stage {stages[i]!r} raised {r[1]}: {r[2] if len(r) > 2 else ''} instead of JaqalError; the reference says: {why}"))
        facts.append(f"invalid: refused at {stages[i]}" + ("" if i == required else " (earlier than required)"))
        return results, facts
    if refused is not None:
        i, r = refused
        facts.append(f"valid: refused at {stages[i]} ({'JaqalError' if r[0] == 'jaqal' else r[1]})")
        if stages[i] != "run" or pre_run is None:
            return results, facts
        # the passes accepted it (only the emulator did not run it): the accepted circuit is still judged
    else:
        facts.append("valid: accepted")
    bad = []
    if pre_run is not None and verdict["flat"] is not None:
        g = guarded(lambda: E.observe_flat(pre_run))
        if g[0] != "ok":
            bad.append(f"a qubit of the accepted circuit does not resolve: {g[1:]}")
        elif not E.same_flat(*_comparable(verdict["flat"], g[1], "subc" in stages)):
            bad.append(f"accepted circuit calls {json.dumps(g[1])[:300]}, the reference {json.dumps(verdict['flat'])[:300]}")
    if final is not None and verdict["states"] is not None:
        np = lib()["numpy"]

        def read():
            return [np.abs(np.asarray(s.state_vector)) for s in final.subcircuits]

        g = guarded(read)
        if g[0] != "ok":
            bad.append(f"no state vectors: {g[1:]}")
        else:
            hits = [int(np.argmax(v)) for v in g[1]]
            sure = all(abs(v[h] - 1) < 1e-9 for v, h in zip(g[1], hits))
            if hits != verdict["states"] or not sure:
                bad.append(f"emulator ended its subcircuits in basis states {hits}, the reference in {verdict['states']}")
    results.append(("accepted_runs_on_reference_qubits", not bad, "; ".join(bad)))
    return results, facts


# ---------------------------------------------------------------------------------------------------------------
# program construction


class B:
    def __init__(self, rng):
        self.rng = rng
        self.header, self.top, self.ov, self.tags = [], [], [], []

    def let(self, name, v):
        self.header.append({"k": "let", "name": name, "v": enc(v)})

    def reg(self, name, size):
        self.header.append({"k": "reg", "name": name, "size": size})

    def map_whole(self, name, src):
        self.header.append({"k": "map", "name": name, "src": src, "form": "whole"})

    def map_index(self, name, src, index):
        self.header.append({"k": "map", "name": name, "src": src, "form": "index", "index": index})

    def map_slice(self, name, src, start, stop, step=None):
        self.header.append({"k": "map", "name": name, "src": src, "form": "slice", "start": start, "stop": stop, "step": step})

    def macro(self, name, params, body, par=False):
        return {"k": "macro", "name": name, "params": list(params), "body": body, "par": par}

    def override(self, name, v, plain=False):
        """override `name` to v, written in one of the forms a caller may hand in"""
        self.ov = [o for o in self.ov if o[0] != name]
        self.ov.append([name, v if plain or self.rng.random() < 0.7 else E.PB(self.rng).ov_repr(v)])

    def eff(self, name):
        """effective value of let `name`"""
        for n, v in self.ov:
            if n == name:
                v = dec(v)
                return int(v) if is_intval(v) else v
        for h in self.header:
            if h["k"] == "let" and h["name"] == name:
                v = dec(h["v"])
                return int(v) if is_intval(v) else v
        return None

    def geo(self, name):
        """number of qubits of register / alias `name` under the overrides (None: broken or unknown)"""
        r = Ref3({"header": self.header, "top": [], "ov": self.ov}, True, True).run()
        v = r.env.get(name)
        if v is None or v[0] != "reg":
            return None
        return v[4]

    def prog(self, stream, bare=False):
        rng = self.rng
        top = self.top if bare else with_pm(self.top)
        p = {"header": self.header, "top": top, "ov": self.ov, "stream": stream, "tags": self.tags,
             "style": rng.choice(["compact", "compact", "lines"]), "deco": []}
        if rng.random() < 0.33:
            p["deco"] = make_deco(rng)
            self.tags.append("comments with line-break look-alikes / runs of *")
        if rng.random() < 0.12:
            # an entry for a name that is NOT a let constant (register, alias, macro, parameter, gate): it overrides nothing
            lets = {h["name"] for h in self.header if h["k"] == "let"}
            names = [h["name"] for h in self.header if h["k"] != "let"] + ["X"]
            for t in top:
                if t["k"] == "macro":
                    names += [t["name"]] + [x for x in t["params"]]
            names = [x for x in names if x not in lets and x not in [o[0] for o in self.ov]]
            if names:
                p["ov"] = self.ov + [[rng.choice(names), rng.choice([0, 1, 2, 5, 6, 7])]]
                self.tags.append("override entry for a name that is no let")
        return p


def with_pm(items):
    """prepare_all before the first statement that is not a macro definition, measure_all at the end"""
    top, seen = [], False
    for t in items:
        if t["k"] != "macro" and not seen:
            top.append(gate("prepare_all"))
            seen = True
        top.append(t)
    if not seen:
        top.append(gate("prepare_all"))
    top.append(gate("measure_all"))
    return top


BREAKS = ["\r", "\x0b", "\x0c", "\x1c", "\x1d", "\x1e", "\x85", "\u2028", "\u2029"]
CODE = [" X q[9]", " measure_all", " let n 7", " register z[1]", " ; X q[-1]", " } >", " macro f n { X q[n] }", " Foo q[0]", " prepare_all"]


def make_deco(rng):
    out = []
    for _ in range(rng.choice([1, 2, 3])):
        kind = rng.choice(["line", "line", "block", "stars"])
        at = rng.randrange(0, 40)
        body = "".join(rng.choice(BREAKS) + rng.choice(CODE) for _ in range(rng.choice([1, 2])))
        if kind == "line":
            out.append({"kind": "line", "at": at, "text": rng.choice(["", " c", "*"]) + body})
        elif kind == "block":
            out.append({"kind": "block", "at": at, "text": " " + body.replace("*/", "* /") + rng.choice(["\n X q[8]\n", " "])})
        else:
            k = rng.choice([30, 64, 255, 1000, 3000])
            out.append({"kind": "block", "at": at, "text": "*" * k + rng.choice(["", " X q[9] /", "\n/"]) + "*" * rng.choice([0, 1, k])})
    return out


def wrap(rng, b, stmt, how=None, count=None):
    how = how or rng.choice(["none", "none", "none", "seq", "par", "loop", "parloop", "seqparloop"])
    b.tags.append(f"wrap {how}")
    if how == "none":
        return stmt
    if how == "seq":
        return {"k": "seq", "body": [stmt]}
    if how == "par":
        return {"k": "par", "body": [stmt]}
    c = lit(rng.choice([1, 1, 2, 3])) if count is None else count
    if how == "parloop":
        return {"k": "loop", "count": c, "par": True, "body": [stmt]}
    if how == "seqparloop":
        return {"k": "loop", "count": c, "body": [{"k": "par", "body": [stmt]}]}
    return {"k": "loop", "count": c, "body": [stmt]}


def near(rng, C, valid):
    """an index for a register of C qubits"""
    if valid:
        return rng.choice([0, C - 1, C - 1, rng.randrange(C)]) if C > 0 else 0
    return rng.choice([C, C, C + 1, -1])


# ---- stream: shadow


def _numarg(b, v):
    return anum(v)


def gen_shadow(rng):
    b = B(rng)
    what = rng.choice(["let"] * 8 + ["register"] * 3 + ["alias"] * 2 + ["qubit_alias"] * 2 + ["macro_name", "gate_name"] + ["param_only"] * 2)
    b.tags.append(f"shadowed: {what}")
    return {"let": _shadow_let, "register": _shadow_reg, "alias": _shadow_reg, "qubit_alias": _shadow_qubit,
            "macro_name": _shadow_callable, "gate_name": _shadow_callable, "param_only": _shadow_param_only}[what](rng, b, what)


def _ov_value(rng, S, avoid):
    """an overriding value: mostly a valid index that differs from `avoid`"""
    cand = [v for v in range(0, S) if v not in avoid] or [0]
    return rng.choice(cand) if rng.random() < 0.85 else rng.choice([S, S + 1, -1])


def _shadow_let(rng, b, _what):
    S = rng.choice([2, 3, 3, 4, 5])
    size_src = rng.choice(["lit"] * 6 + ["n", "k"])
    D = rng.randrange(0, S)            # declared value of the hidden let n
    Dk = rng.randrange(0, S)
    if size_src == "n":
        D = S
    if size_src == "k":
        Dk = S
    b.let("n", D)
    b.let("k", Dk)
    b.tags.append(f"register size by {size_src}")
    b.reg("q", lit(S) if size_src == "lit" else ident(size_src))
    ovmode = rng.choice(["none", "n", "n", "n", "n", "n+k", "k", "n float"])
    b.tags.append(f"override: {ovmode}")
    if ovmode in ("n", "n+k", "n float"):
        if size_src == "n":
            b.override("n", rng.choice([S - 1, S + 1, S + 2]) if S > 1 else S + 1)
        else:
            b.override("n", _ov_value(rng, S, {D}))
        if ovmode == "n float" and isinstance(b.ov[-1][1], int):
            b.ov[-1][1] = {"f": repr(float(b.ov[-1][1]))}
    if ovmode in ("k", "n+k"):
        b.override("k", rng.choice([S - 1, S + 1]) if size_src == "k" else _ov_value(rng, S, {Dk}))
    # outer uses of the hidden let: alias bound, qubit alias
    alias = rng.choice(["none", "none", "stop n", "start n", "stop k", "literal", "whole", "reversed"])
    b.tags.append(f"alias: {alias}")
    Se = b.geo("q") or S
    if alias == "stop n":
        b.map_slice("a", "q", lit(0), ident("n"))
    elif alias == "start n":
        b.map_slice("a", "q", ident("n"), None)
    elif alias == "stop k":
        b.map_slice("a", "q", None, ident("k"))
    elif alias == "literal":
        lo = rng.randrange(0, Se)
        b.map_slice("a", "q", lit(lo), lit(rng.randrange(lo + 1, Se + 1)))
    elif alias == "whole":
        b.map_whole("a", "q")
    elif alias == "reversed":
        b.map_slice("a", "q", lit(Se - 1), lit(-1), lit(-1))
    qalias = rng.choice(["none", "none", "none", "n", "k", "lit"])
    if qalias != "none":
        b.tags.append(f"qubit alias by {qalias}")
        b.map_index("m", "q", lit(rng.randrange(Se)) if qalias == "lit" else ident(qalias))
    regs = ["q"] + (["a"] if alias != "none" else [])
    # the macro whose parameter n hides the let
    pform = rng.choice(["n", "n", "n", "n r", "r n", "n k", "j n"])
    params = pform.split()
    b.tags.append(f"parameters: {pform}")
    T = "r" if "r" in params else rng.choice(regs)
    Targ = rng.choice(regs) if "r" in params else T      # the register the calls index in the end
    C = b.geo(Targ)
    C = C if C else 1
    uses = rng.sample(["index", "index", "count", "intarg", "outer", "index k", "index+count"], rng.choice([1, 1, 2, 3]))
    if "index" not in uses and "index+count" not in uses and rng.random() < 0.7:
        uses[0] = "index"
    body = []
    g1 = rng.choice(["X", "X", "X", "Z"])
    index_stmt = gate(g1, item(T, ident("n")))      # the statement a twin repeats outside the macro
    for u in uses:
        b.tags.append(f"parameter used as {u}")
        if u == "index":
            body.append(index_stmt)
        elif u == "count":
            body.append({"k": "loop", "count": ident("n"), "par": rng.random() < 0.3, "body": [gate("X", item(T, lit(rng.randrange(C))))]})
        elif u == "intarg":
            body.append(gate("P", item(T, lit(rng.randrange(C))), aid("n")))
        elif u == "outer":
            if qalias != "none" and rng.random() < 0.5:
                body.append(gate("X", aid("m")))
            else:
                o = rng.choice(regs)
                body.append(gate("X", item(o, lit(near(rng, b.geo(o) or 1, rng.random() < 0.85)))))
        elif u == "index k":
            body.append(gate("X", item(T, ident("k"))))
        else:
            body.append({"k": "loop", "count": ident("n"), "body": [{"k": "par", "body": [gate("X", item(T, ident("n")))]}]
                         if rng.random() < 0.5 else [gate("X", item(T, ident("n")))]})
    fmac = b.macro("f", params, body)
    # the call
    argkind = rng.choice(["valid", "valid", "valid", "override value", "size", "size+1", "-1", "the let", "let k"])
    ovn = b.eff("n")
    if argkind == "valid":
        cand = [v for v in range(C) if v != ovn] or [0]
        v = rng.choice(cand)
    elif argkind == "override value":
        v = ovn if isinstance(ovn, int) else 0
    else:
        v = {"size": C, "size+1": C + 1, "-1": -1}.get(argkind)
    b.tags.append(f"argument: {argkind}")
    narg = aid("n") if argkind == "the let" else aid("k") if argkind == "let k" else anum(v)

    def call(name, arg):
        args = []
        for p in params:
            if p == "n":
                args.append(arg)
            elif p == "r":
                args.append(aid(Targ))
            else:
                args.append(anum(rng.randrange(C)))
        return gate(name, *args)

    items = [fmac]
    second = rng.choice(["none", "none", "none", "passes literal, uses the let", "forwards its parameter n", "forwards j, uses the let",
                         "parameter n, passes let k"])
    main = call("f", narg)
    if second != "none":
        b.tags.append(f"second macro: {second}")
        twin_in_g = gate(g1, item(Targ, ident("n")))
        if second == "passes literal, uses the let":
            items.append(b.macro("g", [], [call("f", narg), twin_in_g]))
            main = gate("g")
        elif second == "forwards its parameter n":
            items.append(b.macro("g", ["n"], [call("f", aid("n"))] + ([twin_in_g] if rng.random() < 0.5 else [])))
            main = gate("g", narg)
        elif second == "forwards j, uses the let":
            items.append(b.macro("g", ["j"], [call("f", aid("j")), twin_in_g]))
            main = gate("g", narg)
        else:
            items.append(b.macro("g", ["n"], [call("f", aid("k")), twin_in_g]))
            main = gate("g", narg)
    cnt = rng.choice([None, None, lit(2), ident("n"), ident("k")])
    main = wrap(rng, b, main, count=cnt)
    twin = rng.choice(["none", "none", "before the definition", "between definition and call", "after the call", "both sides"])
    b.tags.append(f"twin statement {twin}")
    tw = gate(g1, item(Targ if T == "r" else T, ident("n")))
    stmts = []
    if twin in ("before the definition", "both sides"):
        stmts.append(copy.deepcopy(tw))
    stmts += items
    if twin == "between definition and call":
        stmts.append(copy.deepcopy(tw))
    for _ in range(rng.choice([0, 0, 1])):
        stmts.append(gate("X", item("q", lit(rng.randrange(Se)))))
    stmts.append(main)
    if twin in ("after the call", "both sides"):
        stmts.append(copy.deepcopy(tw))
    b.top = stmts
    return b.prog("shadow")


def _shadow_reg(rng, b, what):
    """a parameter named like the register (q) or like an alias (a): inside the macro the name is the ARGUMENT"""
    S = rng.choice([3, 3, 4, 5])
    b.let("k", rng.randrange(0, S))
    b.reg("q", lit(S))
    form = rng.choice(["head", "tail", "mid", "stride", "reversed", "one"])
    if form == "head":
        b.map_slice("a", "q", lit(0), lit(S - 1))
    elif form == "tail":
        b.map_slice("a", "q", lit(1), None)
    elif form == "mid":
        b.map_slice("a", "q", lit(1), lit(S - 1 if S > 3 else S))
    elif form == "stride":
        b.map_slice("a", "q", lit(rng.choice([0, 1])), None, lit(2))
    elif form == "reversed":
        b.map_slice("a", "q", lit(S - 2), lit(-1), lit(-1))
    else:
        b.map_slice("a", "q", lit(S - 1), lit(S))
    b.tags.append(f"alias form {form}")
    if rng.random() < 0.4:
        Ca = b.geo("a")
        b.map_slice("c", "a", lit(0), lit(max(1, Ca - 1))) if rng.random() < 0.6 else b.map_whole("c", "q")
    names = [h["name"] for h in b.header if h["k"] in ("reg", "map")]
    P = "q" if what == "register" else "a"
    A = rng.choice([n for n in names if n != P] + ([P] if rng.random() < 0.2 else []))
    b.tags.append(f"parameter {P} bound to {'itself' if A == P else 'register' if A == 'q' else 'an alias'}")
    CA, CP = b.geo(A), b.geo(P)
    # an index chosen in view of BOTH sizes
    mode = rng.choice(["valid for both", "valid for the argument only", "valid for the hidden one only", "size of argument", "-1"])
    if mode == "valid for the argument only" and CA <= CP:
        mode = "valid for both"
    if mode == "valid for the hidden one only" and CP <= CA:
        mode = "size of argument"
    v = {"valid for both": rng.randrange(min(CA, CP)), "valid for the argument only": CA - 1, "valid for the hidden one only": CP - 1,
         "size of argument": CA, "-1": -1}[mode]
    b.tags.append(f"index {mode}")
    src = rng.choice(["lit", "lit", "let", "override", "parameter"])
    b.tags.append(f"index by {src}")
    params = [P]
    if src == "lit":
        ie = lit(v)
    elif src == "let":
        b.header[0]["v"] = enc(v)
        ie = ident("k")
    elif src == "override":
        b.header[0]["v"] = enc(0)
        b.override("k", v)
        ie = ident("k")
    else:
        params = rng.choice([[P, "i"], ["i", P]])
        ie = ident("i")
    if rng.random() < 0.3:
        b.override(rng.choice([P, P, "q", "i", "f"]), rng.choice([0, 1, S - 1, S + 1, S + 2]), plain=True)   # an entry for a name that is no let
        b.tags.append("override entry for a name that is no let")
    body = [gate("X", item(P, ie))]
    if rng.random() < 0.5:
        o = rng.choice([n for n in names if n != P] or names)
        body.insert(rng.randrange(2), gate(rng.choice(["X", "Z"]), item(o, lit(rng.randrange(b.geo(o))))))
    args = [aid(A) if p == P else anum(v) for p in params]
    stmts = [b.macro("f", params, body)]
    if rng.random() < 0.4:
        stmts.insert(rng.randrange(2), gate("X", item(P, lit(rng.randrange(CP)))))   # same text shape outside the macro
    if rng.random() < 0.3:
        stmts.append(b.macro("g", [P], [gate("f", *[aid(P) if p == P else anum(v) for p in params])]))
        stmts.append(wrap(rng, b, gate("g", aid(A))))
    else:
        stmts.append(wrap(rng, b, gate("f", *args)))
    b.top = stmts
    return b.prog("shadow")


def _shadow_qubit(rng, b, _what):
    S = rng.choice([2, 3, 4])
    D = rng.randrange(0, S)
    b.let("k", D)
    b.reg("q", lit(S))
    j = rng.randrange(S)
    b.map_index("m", "q", rng.choice([lit(j), ident("k")]))
    form = rng.choice(["qubit", "qubit", "index", "two"])
    b.tags.append(f"parameter m used as {form}")
    ov = rng.random() < 0.6
    if ov:
        b.override("k", _ov_value(rng, S, {D}))
    if rng.random() < 0.25:
        b.override("m", rng.randrange(S + 2), plain=True)
        b.tags.append("override entry for a name that is no let")
    valid = rng.random() < 0.6
    if form == "index":
        v = near(rng, S, valid)
        stmts = [b.macro("f", ["m"], [gate("X", item("q", ident("m")))]), wrap(rng, b, gate("f", anum(v)))]
    else:
        src = rng.choice(["lit", "let"])
        if src == "lit":
            v = near(rng, S, True)
            qa = item("q", lit(v))
        else:
            qa = item("q", ident("k"))
        body = [gate("X", aid("m"))] if form == "qubit" else [gate("CX", aid("m"), aid("u"))]
        params = ["m"] if form == "qubit" else ["m", "u"]
        other = item("q", lit(rng.randrange(S)))
        stmts = [b.macro("f", params, body), wrap(rng, b, gate("f", qa) if form == "qubit" else gate("f", qa, other))]
    if rng.random() < 0.5:
        stmts.insert(rng.randrange(len(stmts) + 1), gate("X", aid("m")))    # the alias itself, outside the macro
    b.top = stmts
    return b.prog("shadow")


def _shadow_callable(rng, b, what):
    S = rng.choice([2, 3, 4])
    b.let("k", rng.randrange(S))
    b.reg("q", lit(S))
    P = {"macro_name": rng.choice(["f", "g"]), "gate_name": rng.choice(["X", "CX", "prepare_all"])}[what]
    b.tags.append(f"parameter named {P}")
    v = near(rng, S, rng.random() < 0.55)
    stmts = []
    if P == "g":
        stmts.append(b.macro("g", ["i"], [gate("X", item("q", ident("i")))]))
    body = [gate("X", item("q", ident(P)))]
    if rng.random() < 0.5:
        body.append(gate("X", item("q", ident("k"))))
    stmts.append(b.macro("f", [P], body))
    if P == "g" and rng.random() < 0.5:
        stmts.append(gate("g", anum(rng.randrange(S))))
    stmts.append(wrap(rng, b, gate("f", anum(v))))
    if rng.random() < 0.4:
        b.override(P, rng.randrange(S + 2), plain=True)
        b.tags.append("override entry for a name that is no let")
    if rng.random() < 0.4:
        b.override("k", _ov_value(rng, S, set()))
    b.top = stmts
    return b.prog("shadow")


def _shadow_param_only(rng, b, _what):
    """the override dictionary has an entry for a name that is a macro parameter and nothing else"""
    S = rng.choice([2, 3, 4, 5])
    b.let("k", rng.randrange(S))
    b.reg("q", lit(S))
    valid = rng.random() < 0.5
    v = near(rng, S, valid)
    ovv = rng.choice([x for x in range(S) if x != v] or [0]) if rng.random() < 0.8 else rng.choice([S, -1])
    b.override("i", ovv, plain=rng.random() < 0.8)
    if rng.random() < 0.3:
        b.override("k", _ov_value(rng, S, set()))
    use = rng.choice(["index", "index", "count", "intarg", "forward"])
    b.tags.append(f"parameter-only name used as {use}")
    if use == "index":
        stmts = [b.macro("f", ["i"], [gate("X", item("q", ident("i")))]), gate("f", anum(v))]
    elif use == "count":
        c = rng.choice([0, 1, 2, 3])
        stmts = [b.macro("f", ["i"], [{"k": "loop", "count": ident("i"), "body": [gate("X", item("q", lit(rng.randrange(S))))]}]), gate("f", anum(c))]
    elif use == "intarg":
        stmts = [b.macro("f", ["i"], [gate("P", item("q", lit(rng.randrange(S))), aid("i"))]), gate("f", anum(rng.choice([0, 1, 2, 3])))]
    else:
        stmts = [b.macro("h", ["i"], [gate("X", item("q", ident("i")))]), b.macro("f", ["i"], [gate("h", aid("i"))]), gate("f", anum(v))]
    stmts[-1] = wrap(rng, b, stmts[-1])
    b.top = stmts
    return b.prog("shadow")


# ---- stream: roles (one let in several roles)


def _roles_once(rng):
    b = B(rng)
    S = rng.choice([2, 3, 3, 4, 5])
    en = rng.choice([S, S, S - 1, 1, 2])          # effective values the literals are likely to hit
    em = rng.randrange(0, S)
    eff = {"n": en, "m": em}
    roles = collections.Counter()

    def num(v, role, scope=()):
        """an expression of value v: a literal or — in this role — a let that has this (effective) value"""
        cand = [name for name in ("n", "m") if eff[name] == v and name not in scope]
        if cand and rng.random() < 0.8:
            name = rng.choice(cand)
            roles[(name, role)] += 1
            return ident(name)
        return lit(v)

    def as_arg(e):
        return aid(e["id"]) if "id" in e else anum(dec(e["lit"]))

    size = num(S, "size")
    regs = {"q": S}
    hdr = [("reg", "q", size)]
    if rng.random() < 0.7:
        form = rng.choice(["head", "tail", "mid", "stride"])
        lo = 0 if form in ("head", "stride") else rng.randrange(0, S)
        hi = S if form in ("tail", "stride") else rng.randrange(lo + 1, S + 1)
        st = 2 if form == "stride" else 1
        regs["a"] = len(range(lo, hi, st))
        hdr.append(("slice", "a", "q", num(lo, "bound") if lo or rng.random() < 0.5 else None,
                    num(hi, "bound") if hi != S or rng.random() < 0.5 else None, lit(st) if st != 1 else None))
        if rng.random() < 0.3 and regs["a"] > 1:
            hi2 = rng.randrange(1, regs["a"] + 1)
            regs["c"] = hi2
            hdr.append(("slice", "c", "a", None, num(hi2, "bound"), None))
    qubits = []
    if rng.random() < 0.4:
        r = rng.choice(list(regs))
        hdr.append(("index", "p", r, num(rng.randrange(regs[r]), "qubit alias")))
        qubits.append("p")
    # macros
    pool = ["i", "j", "n", "m", "q", "a"]
    macros = []
    for name in ["f", "g"][: rng.choice([0, 1, 1, 2])]:
        kinds = rng.choice([["idx"], ["idx"], ["reg", "idx"], ["idx", "cnt"], ["reg"], ["qb"], ["idx", "idx"]])
        pn = rng.sample(pool, len(kinds))
        scope = set(pn)
        body = []
        visible = {r: c for r, c in regs.items() if r not in scope}
        rp = [p for p, k in zip(pn, kinds) if k == "reg"]
        ip = [p for p, k in zip(pn, kinds) if k == "idx"]
        cp = [p for p, k in zip(pn, kinds) if k == "cnt"]
        qp = [p for p, k in zip(pn, kinds) if k == "qb"]
        tgt = rp[0] if rp else (rng.choice(list(visible)) if visible else None)
        if tgt is None:
            continue
        tsize = None if rp else visible[tgt]
        for p in ip:
            body.append(gate("X", item(tgt, ident(p))))
        if not ip and not qp:
            body.append(gate("X", item(tgt, num(0, "index", scope))))
        for p in qp:
            body.append(gate("X", aid(p)))
        if cp:
            body = [{"k": "loop", "count": ident(cp[0]), "body": body}]
        if visible and rng.random() < 0.5:
            o = rng.choice(list(visible))
            body.append(gate("Z", item(o, num(rng.randrange(visible[o]), "index", scope))))
        macros.append((name, pn, kinds, body, tgt if not rp else None, tsize))
    for p in {p for _n, pn, *_ in macros for p in pn} & {"n", "m"}:
        b.tags.append("a macro parameter hides the let")
    for p in {p for _n, pn, *_ in macros for p in pn} & {"q", "a"}:
        b.tags.append("a macro parameter hides a register / alias")
    # statements
    stmts = []

    def ref_stmt():
        r = rng.choice(list(regs))
        return gate(rng.choice(["X", "X", "Z"]), item(r, num(rng.randrange(regs[r]), "index")))

    for _ in range(rng.choice([2, 3, 3, 4, 5])):
        kind = rng.choice(["gate", "gate", "loop", "call", "call", "intarg", "par", "alias"])
        if kind == "call" and macros:
            name, pn, kinds, _body, tgt, tsize = rng.choice(macros)
            args = []
            areg = rng.choice(list(regs))
            c = tsize if tsize is not None else regs[areg]
            for k in kinds:
                if k == "reg":
                    args.append(aid(areg))
                elif k == "idx":
                    args.append(as_arg(num(rng.randrange(c), "macro argument")))
                elif k == "cnt":
                    args.append(as_arg(num(rng.choice([0, 1, 2, en if 0 <= en <= 4 else 1]), "macro argument (count)")))
                else:
                    r = rng.choice(list(regs))
                    args.append(item(r, num(rng.randrange(regs[r]), "index")))
            stmts.append(gate(name, *args))
        elif kind == "loop":
            c = rng.choice([1, 2, en if 0 <= en <= 4 else 2, em])
            stmts.append({"k": "loop", "count": num(c, "loop count"), "par": rng.random() < 0.3, "body": [ref_stmt()]})
        elif kind == "intarg":
            r = rng.choice(list(regs))
            stmts.append(gate("P", item(r, num(rng.randrange(regs[r]), "index")), as_arg(num(rng.choice([en, em, 1]), "integer argument"))))
        elif kind == "par" and S >= 2:
            x, y = rng.sample(range(S), 2)
            stmts.append({"k": "par", "body": [gate("X", item("q", num(x, "index"))), gate("X", item("q", num(y, "index")))]})
        elif kind == "alias" and qubits:
            stmts.append(gate("X", aid("p")))
        else:
            stmts.append(ref_stmt())
    # declared values and the override
    used = {name for name, _r in roles}
    mode = rng.choice(["none", "same as declared", "changes the value", "changes the value", "changes the value"])
    for name in ("n", "m"):
        if name not in used and rng.random() < 0.5:
            continue
        e = eff[name]
        if mode == "changes the value" and name in used:
            d = rng.choice([x for x in (e - 1, e + 1, e + 2, 0, 1) if x != e and x >= 0])
            b.let(name, d)
            b.override(name, e)
        else:
            b.let(name, e)
            if mode == "same as declared" and name in used:
                b.override(name, e)
    for name in used:
        if not any(h["k"] == "let" and h["name"] == name for h in b.header):
            b.let(name, eff[name])
    for h in hdr:
        if h[0] == "reg":
            b.reg(h[1], h[2])
        elif h[0] == "slice":
            b.map_slice(h[1], h[2], h[3], h[4], h[5])
        else:
            b.map_index(h[1], h[2], h[3])
    # one disturbance, half of the time: the reference decides what it does to the program
    dist = rng.choice(["none", "none", "none", "override moved", "override moved", "declared moved", "argument moved", "override added"])
    if dist == "override moved" and b.ov:
        o = rng.choice(b.ov)
        v = dec(o[1])
        o[1] = int(v) + rng.choice([-1, 1, 1, 2]) if is_intval(v) else 1
    elif dist == "declared moved":
        ls = [h for h in b.header if h["k"] == "let"]
        if ls:
            h = rng.choice(ls)
            h["v"] = enc(max(0, int(dec(h["v"])) + rng.choice([-1, 1, 2])))
    elif dist == "override added":
        ls = [h for h in b.header if h["k"] == "let" and h["name"] not in [o[0] for o in b.ov]]
        if ls:
            h = rng.choice(ls)
            b.override(h["name"], max(0, int(dec(h["v"])) + rng.choice([-1, 1, 2, -2])))
    elif dist == "argument moved":
        sites = [a for s in stmts if s["k"] == "gate" for a in s["args"] if a["t"] == "num"]
        if sites:
            a = rng.choice(sites)
            a["v"] = enc(int(dec(a["v"])) + rng.choice([-1, 1, 2, 3]))
    b.tags.append(f"disturbance: {dist}")
    distinct = collections.Counter(name for name, _r in set(roles))
    b.tags.append(f"most roles of one let: {max(distinct.values()) if distinct else 0}")
    for (_name, role) in set(roles):
        b.tags.append(f"let in role: {role}")
    b.top = [b.macro(name, pn, body) for name, pn, _k, body, _t, _s in macros] + stmts
    if rng.random() < 0.25:
        # the statements in one or two subcircuit blocks instead of prepare_all ... measure_all
        ms = [t for t in b.top if t["k"] == "macro"]
        ss = [t for t in b.top if t["k"] != "macro"]
        cut = rng.randrange(1, len(ss)) if len(ss) > 1 and rng.random() < 0.5 else len(ss)
        cnt = num(rng.choice([1, 2, en if en >= 1 else 1]), "subcircuit count") if rng.random() < 0.5 else None
        blocks = [{"k": "sub", "count": cnt, "body": ss[:cut]}] + ([{"k": "sub", "count": None, "body": ss[cut:]}] if ss[cut:] else [])
        for name in used | {n for (n, _r) in roles}:
            if not any(h["k"] == "let" and h["name"] == name for h in b.header):
                b.header.insert(0, {"k": "let", "name": name, "v": enc(eff[name])})
        b.top = ms + blocks
        b.tags.append("subcircuit blocks instead of prepare_all / measure_all")
        return b.prog("roles", bare=True)
    return b.prog("roles")


def gen_roles(rng):
    want = rng.choice(["valid", "valid", "invalid", "invalid", "any"])
    prog = None
    for _ in range(12):
        prog = _roles_once(rng)
        v = judge(prog)
        cls = "ambiguous" if v["ambiguous"] else "invalid" if v["invalid"][(True, True)] else "valid"
        if want == "any" or cls == want:
            break
    return prog


# ---- stream: position

PROBES = ["index literal", "index let", "index override", "index macro argument", "alias index override"] * 3 + [
    "undefined identifier", "undefined register", "unknown gate", "arity", "kind"]
POSITIONS = ["first", "last", "tail after measure_all", "head before prepare_all", "only statement", "block first", "block last",
             "par block last", "loop body last", "macro body first", "macro body last", "subcircuit last", "after empty seq",
             "after empty par", "after empty loop", "after empty par loop", "after empty subcircuit", "after empty macro call",
             "loop with parallel body", "loop of a parallel block", "subcircuit in loop only", "subcircuit in block only",
             "subcircuit in macro only", "subcircuit in loop in macro"]


def gen_position(rng):
    b = B(rng)
    S = rng.choice([2, 3, 4])
    b.reg("q", lit(S))
    probe = rng.choice(PROBES)
    pos = rng.choice(POSITIONS)
    valid = "index" in probe and rng.random() < 0.55
    b.tags.append(f"probe: {probe}" + (" (valid)" if valid else " (out of range)" if "index" in probe else ""))
    b.tags.append(f"position: {pos}")
    v = near(rng, S, valid)
    pre = []        # macro definitions the probe needs
    if probe == "index literal":
        st = gate("X", item("q", lit(v)))
    elif probe == "index let":
        b.let("i", v)
        st = gate("X", item("q", ident("i")))
    elif probe == "index override":
        b.let("i", rng.randrange(S))
        b.override("i", v)
        st = gate("X", item("q", ident("i")))
    elif probe == "alias index override":
        b.let("i", rng.randrange(S))
        b.override("i", v)
        b.map_index("m", "q", ident("i"))
        st = gate("X", aid("m"))
    elif probe == "index macro argument":
        pre.append(b.macro("pm", ["x"], [gate("X", item("q", ident("x")))]))
        st = gate("pm", anum(v))
    elif probe == "undefined identifier":
        st = rng.choice([gate("X", item("q", ident("zz"))), gate("X", aid("zz")), gate("P", item("q", lit(0)), aid("zz"))])
    elif probe == "undefined register":
        st = gate("X", item("zz", lit(0)))
    elif probe == "unknown gate":
        st = gate(rng.choice(["Foo", "x", "Xx", "prepare"]), item("q", lit(0)))
    elif probe == "arity":
        st = rng.choice([gate("X"), gate("X", item("q", lit(0)), item("q", lit(S - 1))), gate("CX", item("q", lit(0)))]) if S > 1 else gate("X")
    else:
        st = rng.choice([gate("X", anum(0)), gate("P", item("q", lit(0)), anum(0.5)), gate("P", item("q", lit(0)), item("q", lit(0))),
                         gate("X", aid("q"))])
    # lets must precede their use in the header: put them first
    b.header.sort(key=lambda h: 0 if h["k"] == "let" else 1)

    def fill(k=None):
        return [gate(rng.choice(["X", "Z"]), item("q", lit(rng.randrange(S)))) for _ in range(rng.choice([0, 1, 2]) if k is None else k)]

    other = gate("Z", item("q", lit((v + 1) % S if valid and isinstance(v, int) and 0 <= v < S else rng.randrange(S))))
    c = lit(rng.choice([1, 2, 3]))
    P, M = gate("prepare_all"), gate("measure_all")
    if pos == "first":
        top = [P, st] + fill() + [M]
    elif pos == "last":
        top = [P] + fill() + [st]
    elif pos == "tail after measure_all":
        top = [P] + fill() + [M, st]
    elif pos == "head before prepare_all":
        top = [st, P] + fill() + [M]
    elif pos == "only statement":
        top = [st]
    elif pos == "block first":
        top = [P] + fill() + [{"k": "seq", "body": [st] + fill(1)}] + fill() + [M]
    elif pos == "block last":
        top = [P] + fill() + [{"k": "seq", "body": fill(1) + [st]}] + ([M] if rng.random() < 0.7 else [])
    elif pos == "par block last":
        top = [P, {"k": "par", "body": [other, st]}, M]
    elif pos == "loop body last":
        top = [P] + fill() + [{"k": "loop", "count": c, "body": fill(1) + [st]}, M]
    elif pos == "macro body first":
        pre.append(b.macro("w", [], [st] + fill(1)))
        top = [P] + fill() + [gate("w"), M]
    elif pos == "macro body last":
        pre.append(b.macro("w", [], fill(1) + [st]))
        top = [P] + fill() + [gate("w")] + ([M] if rng.random() < 0.7 else [])
    elif pos == "subcircuit last":
        top = [{"k": "sub", "count": None, "body": fill() + [st]}]
    elif pos.startswith("after empty"):
        e = {"after empty seq": {"k": "seq", "body": []}, "after empty par": {"k": "par", "body": []},
             "after empty loop": {"k": "loop", "count": c, "body": []},
             "after empty par loop": {"k": "loop", "count": c, "par": True, "body": []},
             "after empty subcircuit": {"k": "sub", "count": None, "body": []},
             "after empty macro call": gate("w")}[pos]
        if pos == "after empty macro call":
            pre.append(b.macro("w", [], [], par=rng.random() < 0.5))
        if pos == "after empty subcircuit":
            top = [e, {"k": "sub", "count": None, "body": [st] + fill()}]
        else:
            where = rng.choice(["before prepare_all", "inside", "inside a block"])
            if where == "before prepare_all":
                top = [e, P, st] + fill() + [M]
            elif where == "inside":
                top = [P, e, st] + fill() + [M]
            else:
                top = [P, {"k": "seq", "body": [e, st]}, M] if e["k"] != "seq" else [P, {"k": "par", "body": [e, st]}, M]
    elif pos == "loop with parallel body":
        top = [P, {"k": "loop", "count": c, "par": True, "body": [other, st]}, M]
    elif pos == "loop of a parallel block":
        top = [P, {"k": "loop", "count": c, "body": [{"k": "par", "body": [other, st]}]}, M]
    elif pos == "subcircuit in loop only":
        top = [{"k": "loop", "count": c, "body": [{"k": "sub", "count": None, "body": fill() + [st]}]}]
    elif pos == "subcircuit in block only":
        top = [{"k": "seq", "body": [{"k": "sub", "count": None, "body": [st] + fill()}, {"k": "sub", "count": lit(2), "body": fill(1)}]}]
    elif pos == "subcircuit in macro only":
        pre.append(b.macro("w", [], [{"k": "sub", "count": None, "body": fill() + [st]}]))
        top = [gate("w")] + ([gate("w")] if rng.random() < 0.3 else [])
    else:
        pre.append(b.macro("w", [], [{"k": "loop", "count": c, "body": [{"k": "sub", "count": None, "body": [st] + fill()}]}]))
        top = [gate("w")]
    b.top = pre + top
    return b.prog("position", bare=True)


# ---- stream: history (families)


def _number_sites(prog):
    """every place of the program that holds a small integer: (container, key)"""
    sites = []

    def walk(j):
        if isinstance(j, dict):
            if "lit" in j and isinstance(j["lit"], int) and not isinstance(j["lit"], bool):
                sites.append((j, "lit"))
            elif j.get("t") == "num" and isinstance(j.get("v"), int) and not isinstance(j["v"], bool):
                sites.append((j, "v"))
            elif j.get("k") == "let" and isinstance(j.get("v"), int) and not isinstance(j["v"], bool):
                sites.append((j, "v"))
            for v in j.values():
                walk(v)
        elif isinstance(j, list):
            for v in j:
                walk(v)

    walk(prog["header"])
    walk(prog["top"])
    for o in prog["ov"]:
        if isinstance(o[1], int) and not isinstance(o[1], bool):
            sites.append((o, 1))
    return sites


def mutate(rng, prog):
    p = copy.deepcopy(prog)
    p["tags"] = []
    sites = _number_sites(p)
    how = rng.choice(["number", "number", "number", "override added", "override dropped"])
    lets = [h for h in p["header"] if h["k"] == "let"]
    if how == "override added" and lets:
        h = rng.choice(lets)
        d = dec(h["v"])
        p["ov"] = [o for o in p["ov"] if o[0] != h["name"]] + [[h["name"], (int(d) if is_intval(d) else 0) + rng.choice([-1, 1, 2])]]
    elif how == "override dropped" and p["ov"]:
        p["ov"].pop(rng.randrange(len(p["ov"])))
    elif sites:
        c, k = rng.choice(sites)
        c[k] = max(-1, c[k] + rng.choice([-1, 1, 1, 2]))
    return p


def gen_history(rng):
    base = rng.choice([gen_shadow, gen_shadow, gen_roles, gen_position])(random.Random(rng.getrandbits(64)))
    members = [base]
    for _ in range(rng.choice([1, 2, 2, 3, 4])):
        members.append(mutate(rng, rng.choice(members)))
    k = len(members)
    seq = list(range(k)) + [rng.randrange(k) for _ in range(rng.choice([1, 2, 3]))]
    if rng.random() < 0.6:
        seq = [0, 1, 0] + seq[2:]
    mode = rng.choice(["same pipeline", "same pipeline", "mixed pipelines"])
    return {"members": members, "seq": seq, "mode": mode, "collect": rng.random() < 0.5, "share_parse": rng.random() < 0.5,
            "pipe_seed": rng.getrandbits(32)}


STREAMS = {"shadow": gen_shadow, "roles": gen_roles, "position": gen_position}
WEIGHTS = [("shadow", 9), ("roles", 5), ("position", 5), ("history", 4)]

# ---------------------------------------------------------------------------------------------------------------
# running

ORACLES = ["invalid_reference_rejected", "rejected_when_known", "rejection_is_jaqalerror", "accepted_runs_on_reference_qubits",
           "terminates"]


def prog_text(prog):
    try:
        return render_text(prog)
    except NoText:
        return None


def choose_pipes(rng, prog, text, verdict, thorough, k=3):
    ps = applicable(prog, text)
    if thorough:
        return ps
    structured = verdict["states"] is not None or verdict["ambiguous"] or verdict["invalid"][(True, True)]
    first = [p for p in (("A", "B") if structured else ("AN", "BN")) if p in ps]
    if not first:
        first = [p for p in ("F", "F2") if p in ps]
    rng.shuffle(first)
    chosen = first[:2] if prog.get("stream") in ("shadow", "roles") else first[:1]
    rest = [p for p in ps if p not in chosen]
    rng.shuffle(rest)
    return chosen + rest[: max(0, k - len(chosen))]


def short(s, n=1200):
    return s if s is None or len(s) <= n else s[:n] + f"... <{len(s)} characters>"


def run_program(prog, pipes, report, count, verdict=None, text=None):
    verdict = verdict or judge(prog)
    text = text if text is not None else prog_text(prog)
    todo = [p for p in pipes if p in applicable(prog, text)]
    for pipe in todo:
        results, facts = check(prog, pipe, verdict, text)
        case = {"prog": prog, "pipe": pipe, "text": short(text), "override": prog["ov"]}
        for name, ok, detail in results:
            report(name, ok, case, detail)
        for f in facts:
            count(f)
            count(f"{prog.get('stream', '?')}: {f.split(' at ')[0].split(' (')[0]}")
        count(f"pipeline {pipe}")
    return todo


def history_pipes(fam):
    """the pipeline of every step, fixed by the family"""
    rng = random.Random(fam["pipe_seed"])
    out = []
    same = None
    for idx in fam["seq"]:
        prog = fam["members"][idx]
        ps = applicable(prog, prog_text(prog))
        pref = [p for p in ("A", "B", "AN", "BN", "A2", "S1", "E", "C", "H1", "F", "F2", "G") if p in ps]
        if fam["mode"] == "same pipeline":
            if same is None or same not in ps:
                same = rng.choice(pref)
            out.append(same)
        else:
            out.append(rng.choice(pref))
    return out


def run_history(fam, report, count, upto=None):
    """-> list of (step, oracle, ok, detail) of the LAST step run"""
    pipes = history_pipes(fam)
    shared = {} if fam["share_parse"] else None
    last = []
    keep = []
    for step, idx in enumerate(fam["seq"]):
        if upto is not None and step > upto:
            break
        prog = fam["members"][idx]
        verdict = judge(prog)
        text = prog_text(prog)
        pipe = pipes[step]
        results, facts = check(prog, pipe, verdict, text, shared)
        last = [(step, name, ok, detail) for name, ok, detail in results]
        if report is not None:
            case = {"history": {k: fam[k] for k in ("members", "seq", "mode", "collect", "share_parse", "pipe_seed")}, "step": step,
                    "pipe": pipe, "text": short(text), "override": prog["ov"]}
            case["history"] = dict(case["history"], seq=fam["seq"][: step + 1])
            for name, ok, detail in results:
                report(name, ok, case, f"[step {step + 1} of a history of {len(fam['seq'])}] {detail}" if not ok else detail)
            for f in facts:
                count(f)
                count(f"history: {f.split(' at ')[0].split(' (')[0]}")
            count(f"pipeline {pipe}")
        if fam["collect"]:
            gc.collect()
        else:
            keep.append(results)
    return last


def plan_streams(rng, n):
    names = []
    tot = sum(w for _s, w in WEIGHTS)
    for s, w in WEIGHTS:
        k = max(1, (n * w) // tot)
        names += [s] * (max(1, k // 4) if s == "history" else k)     # a history is 3-8 programs
    rng.shuffle(names)
    return names


def run(seed: int, n: int, driver: str = DEFAULT_DRIVER, thorough: bool = False, _stop_at=None) -> dict:
    """`_stop_at` (replay only): run the programs up to that ordinal and list the failures of that ordinal alone"""
    lib()
    rng = random.Random(f"c14_combo/{seed}/{int(bool(thorough))}")
    ctx = {"seed": seed, "n": n, "thorough": bool(thorough), "ordinal": -1}
    oracle = {o: {"cases": 0, "failures": []} for o in ORACLES}
    dist = collections.Counter()
    samples = []
    distinct = set()

    def report(name, ok, case, detail):
        o = oracle[name]
        o["cases"] += 1
        if not ok and (_stop_at is None or ctx["ordinal"] == _stop_at):
            if len(o["failures"]) < 20:
                o["failures"].append({"case": dict(case, ctx=dict(ctx)), "detail": detail})
            else:
                o["failures_not_listed"] = o.get("failures_not_listed", 0) + 1

    def count(f):
        dist[f] += 1

    def tally(prog, verdict):
        for t in prog["tags"]:
            count(t)
        for _name, v in prog["ov"]:
            count("override value " + (next(iter(v)) if isinstance(v, dict) else "int"))
        count("layout " + prog.get("style", "compact"))
        count("reference: " + ("ambiguous" if verdict["ambiguous"] else "invalid" if verdict["invalid"][(True, True)] else "valid"))
        if not verdict["ambiguous"] and not verdict["invalid"][(True, True)]:
            count("valid program: " + ("subcircuit states known" if verdict["states"] is not None else "calls only (no plain subcircuit structure)"))
        if verdict["invalid"][(True, True)] and not verdict["ambiguous"]:
            first = next(lv for lv in LEVELS if verdict["invalid"][lv])
            count("defect determined with knowledge of " + ("nothing but the text" if first == (False, False) else
                                                           "lets" if first == (True, False) else "macro arguments" if first == (False, True)
                                                           else "lets and macro arguments"))
            for d in verdict["defects"][:1]:
                count("defect " + d.split(":")[0])
        distinct.add(json.dumps([prog["header"], prog["top"], prog["ov"]], sort_keys=True))

    for ordinal, stream in enumerate(plan_streams(rng, n)):
        if _stop_at is not None and ordinal > _stop_at:
            break
        ctx["ordinal"] = ordinal
        sub = random.Random(rng.getrandbits(64))
        count(f"stream {stream}")
        if stream == "history":
            fam = gen_history(sub)
            run_history(fam, report, count)
            count(f"history of {len(fam['seq'])} steps over {len(fam['members'])} programs")
            count("history: " + fam["mode"])
            count("history: parsed circuit " + ("shared between steps" if fam["share_parse"] else "made afresh"))
            count("history: earlier circuits " + ("collected" if fam["collect"] else "kept alive"))
            for p in fam["members"]:
                tally(p, judge(p))
            continue
        prog = STREAMS[stream](sub)
        verdict = judge(prog)
        text = prog_text(prog)
        if text is None:
            count("no text form (S-expression / CircuitBuilder only)")
        pipes = choose_pipes(sub, prog, text, verdict, thorough)
        done = run_program(prog, pipes, report, count, verdict, text)
        tally(prog, verdict)
        if len(samples) < 6 and (len(samples) < 2 or stream not in [s["stream"] for s in samples]):
            samples.append({"stream": stream, "tags": prog["tags"], "text": short(text), "override": prog["ov"],
                            "reference": {"invalid": verdict["invalid"][(True, True)], "defects": verdict["defects"],
                                          "ambiguous": verdict["ambiguous"], "states": verdict["states"]}, "pipelines": done})
    return {"corr": {}, "oracle": oracle, "distribution": dict(dist), "samples": samples, "nontrivial": len(distinct)}


def replay(case: dict, driver: str = DEFAULT_DRIVER) -> dict:
    """Re-run one case on its own; if it does not fail on its own, re-run it AFTER the programs that preceded it in its
    run (same seed, n, tier): a failure that needs the state earlier programs left behind shows only then."""
    r = _replay_alone(case)
    c = case.get("ctx")
    if r["oracle_ok"] is not False and c:
        again = run(c["seed"], c["n"], driver, c["thorough"], _stop_at=c["ordinal"])
        for name, o in again["oracle"].items():
            for f in o["failures"]:
                fc = f["case"]
                if fc.get("pipe") == case.get("pipe") and fc.get("step") == case.get("step"):
                    return {"oracle_ok": False,
                            "detail": f"{name}: fails only after the {c['ordinal']} programs / histories run before it in one process "
                                      f"(run(seed={c['seed']}, n={c['n']}, thorough={c['thorough']})), not on its own — state left behind "
                                      f"between programs: {f['detail']}\n--- override {fc['override']}\n{fc['text']}",
                            "impl": {"oracle": name, "pipeline": fc.get("pipe"), "text": fc["text"], "override": fc["override"]}}
    return r


def _replay_alone(case: dict) -> dict:
    lib()
    if "history" in case:
        fam = case["history"]
        last = run_history(fam, None, None, upto=case.get("step", len(fam["seq"]) - 1))
        prog = fam["members"][fam["seq"][min(case.get("step", len(fam["seq"]) - 1), len(fam["seq"]) - 1)]]
        for step, name, ok, detail in last:
            if not ok:
                return {"oracle_ok": False,
                        "detail": f"{name} [step {step + 1} of the history, pipeline {case.get('pipe')}]: {detail}\n--- override {prog['ov']}\n{short(prog_text(prog))}",
                        "impl": {"oracle": name, "step": step, "override": prog["ov"], "text": short(prog_text(prog))}}
        return {"oracle_ok": True, "detail": "no oracle fails at the last step of this history"}
    prog = case["prog"]
    verdict = judge(prog)
    text = prog_text(prog)
    pipes = [case["pipe"]] if case.get("pipe") in applicable(prog, text) else applicable(prog, text)
    for pipe in pipes:
        results, _facts = check(prog, pipe, verdict, text)
        for name, ok, detail in results:
            if not ok:
                return {"oracle_ok": False,
                        "detail": f"{name} [pipeline {pipe}: {' -> '.join(PIPES[pipe])}]: {detail}\n--- override {prog['ov']}\n{short(text) or render_sx(prog)}",
                        "impl": {"oracle": name, "pipeline": pipe, "text": short(text), "override": prog["ov"]},
                        "model": {"reference_invalid": verdict["invalid"][(True, True)], "defects": verdict["defects"],
                                  "states": verdict["states"], "calls": verdict["flat"]}}
    return {"oracle_ok": True, "detail": "no oracle fails on this case"}


def main():
    ap = argparse.ArgumentParser()
    ap.add_argument("--seed", type=int, default=0)
    ap.add_argument("--n", type=int, default=3500)
    ap.add_argument("--thorough", action="store_true")
    ap.add_argument("--driver", default=DEFAULT_DRIVER)
    a = ap.parse_args()
    r = run(a.seed, a.n, a.driver, a.thorough)
    bad = 0
    for name, o in r["oracle"].items():
        print(f"{name:36s} cases {o['cases']:7d}  failures {len(o['failures'])}")
        bad += len(o["failures"])
        for f in o["failures"][:3]:
            c = f["case"]
            print(f"   [pipeline {c['pipe']}] {f['detail']}")
            print("   override", c["override"])
            print("   " + (c["text"] or "<no text form>")[:3000].replace("\n", "\n   "))
    print("distribution:", json.dumps(r["distribution"], indent=1, sort_keys=True))
    print("nontrivial:", r["nontrivial"])
    sys.exit(1 if bad else 0)


if __name__ == "__main__":
    main()
