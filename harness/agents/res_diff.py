#!/venv/bin/python
"""Differential test: Lean result model (JaqalModel/Model/Result.lean, ResultOps.lean) vs the real classes in
jaqalpaq.core.result.

    /venv/bin/python /verif/harness/agents/res_diff.py [--driver PATH] [--kmax 10] [--seed 0] [--n 3000]

The driver is the line-protocol executable built by `lake build jaqal-model`
(default /verif/lean/.lake/build/bin/jaqal-model).  Ops used: as_str, of_str, view_keys, histogram (Main.lean)
and normalize, accept_all (ResultOps.ops; must be wired into dispatch — sections that need them are skipped
with a message when the driver answers "unknown op").

Exit status 0 iff no disagreement.
"""
import argparse
import itertools
import json
import random
import subprocess
import sys
import warnings
from fractions import Fraction

import numpy

from jaqalpaq.core.algorithm.walkers import Trace
from jaqalpaq.core.result import (
    ProbabilisticSubcircuit,
    Readout,
    ReadoutSubcircuit,
    RelativeFrequencySubcircuit,
    parse_jaqal_output_list,
)
from jaqalpaq.parser import parse_jaqal_string


class Driver:
    def __init__(self, path):
        self.p = subprocess.Popen([path], stdin=subprocess.PIPE, stdout=subprocess.PIPE, text=True, bufsize=1)

    def call(self, **req):
        self.p.stdin.write(json.dumps(req) + "\n")
        self.p.stdin.flush()
        line = self.p.stdout.readline()
        if not line:
            raise RuntimeError("driver died on %r" % (req,))
        return json.loads(line)

    def out(self, **req):
        r = self.call(**req)
        if "out" not in r:
            raise RuntimeError("driver error %r on %r" % (r, req))
        return r["out"]

    def has(self, op):
        r = self.call(op=op)
        return not ("err" in r and "unknown op" in r["err"])

    def close(self):
        self.p.stdin.close()
        self.p.wait()


class FakeSub:
    def __init__(self, k):
        self.measured_qubits = [None] * k
        self.index = 0


class Tally:
    def __init__(self):
        self.count = {}
        self.bad = []

    def check(self, section, cond, detail):
        self.count[section] = self.count.get(section, 0) + 1
        if not cond:
            self.bad.append((section, detail))
            if len(self.bad) <= 20:
                print("DISAGREE", section, detail)


def real_as_str(k, n):
    r = Readout(n, 0)
    r._subcircuit = FakeSub(k)
    return r.as_str


def real_of_str(s):
    # the expression in OutputParser.process_trace
    try:
        return int(s[::-1], 2)
    except ValueError:
        return None


def to_nat(x):
    return None if x is None else int(x)


def test_as_str(d, t, kmax, rng, n):
    # exhaustive in range
    for k in range(0, kmax + 1):
        for v in range(2 ** k):
            t.check("as_str/in-range", d.out(op="as_str", k=k, n=v) == real_as_str(k, v), (k, v))
    # overflow and huge
    for _ in range(n):
        k = rng.randrange(0, 70)
        v = rng.randrange(0, 2 ** rng.randrange(1, 80))
        t.check("as_str/random", d.out(op="as_str", k=k, n=str(v)) == real_as_str(k, v), (k, v))


def test_of_str(d, t, kmax, rng, n):
    for k in range(0, kmax + 1):
        for bits in itertools.product("01", repeat=k):
            s = "".join(bits)
            t.check("of_str/bits", to_nat(d.out(op="of_str", s=s)) == real_of_str(s), s)
            if k > 0:
                # round trip through the real Readout
                v = real_of_str(s)
                t.check("of_str/roundtrip-real", real_as_str(k, v) == s, s)
    # strings with foreign characters (those for which the model documents agreement: no '_', sign, space, 0b)
    alphabet = "01012axZ9.,:;q"
    for _ in range(n):
        s = "".join(rng.choice(alphabet) for _ in range(rng.randrange(0, 12)))
        t.check("of_str/foreign", to_nat(d.out(op="of_str", s=s)) == real_of_str(s), s)
    for _ in range(n // 10):
        s = "".join(rng.choice("01") for _ in range(rng.randrange(60, 200)))
        t.check("of_str/long", to_nat(d.out(op="of_str", s=s)) == real_of_str(s), s)


def test_views(d, t, kmax, rng):
    for k in range(0, kmax + 1):
        tr = Trace(used_qubits=list(range(k)))
        sc = RelativeFrequencySubcircuit(tr, 0)
        keys = list(sc.relative_frequency_by_str.keys())
        t.check("view_keys/relfreq", d.out(op="view_keys", k=k, len=2 ** k) == keys, k)
        t.check("view_keys/values", list(sc.relative_frequency_by_str.values()) == list(sc.relative_frequency_by_int), k)
        with warnings.catch_warnings():
            warnings.simplefilter("ignore")
            pc = ProbabilisticSubcircuit(tr, 0, probabilities=numpy.full(2 ** k, 1.0 / 2 ** k))
        pkeys = list(pc.simulated_probability_by_str.keys())
        t.check("view_keys/prob", d.out(op="view_keys", k=k, len=2 ** k) == pkeys, k)
        t.check("view_keys/prob-values", list(pc.simulated_probability_by_str.values()) == list(pc.simulated_probability_by_int), k)
        # vector length not 2^k (caller supplied): keys follow enumerate
        for ln in (0, 1, 3, 2 ** k + 1, 2 ** k + 5):
            sc = RelativeFrequencySubcircuit(tr, 0, relative_frequencies=numpy.zeros(ln))
            # a dict: duplicates collapse in Python; compare as list of produced keys
            qubits = k
            produced = [f"{n:b}".zfill(qubits)[::-1] for n, _ in enumerate(sc.relative_frequency_by_int)]
            t.check("view_keys/odd-len", d.out(op="view_keys", k=k, len=ln) == produced, (k, ln))
            t.check("view_keys/odd-len-dict", list(OrderedDictKeys(produced)) == list(sc.relative_frequency_by_str.keys()), (k, ln))


def OrderedDictKeys(keys):
    seen = {}
    for x in keys:
        seen.setdefault(x, None)
    return seen.keys()


def test_histogram(d, t, kmax, rng, n, have_accept):
    for _ in range(n):
        k = rng.randrange(0, min(kmax, 6) + 1)
        ln = 2 ** k
        outs = [rng.randrange(ln) for _ in range(rng.randrange(0, 60))]
        if rng.random() < 0.2 and outs:
            outs[rng.randrange(len(outs))] = ln + rng.randrange(0, 4)
        sc = ReadoutSubcircuit(Trace(used_qubits=list(range(k))), 0)
        ok = True
        try:
            for i, o in enumerate(outs):
                sc.accept_readout(Readout(o, i))
        except IndexError:
            ok = False
        if ok:
            real = [int(x) for x in sc.relative_frequency_by_int]
            t.check("histogram/in-range", [int(x) for x in d.out(op="histogram", len=ln, outs=outs)] == real, (k, outs))
            t.check("histogram/sum", sum(real) == len(outs) == len(sc.readouts), (k, outs))
            # readouts carry the same correspondence
            t.check(
                "histogram/readout-str",
                all(r.as_str == d.out(op="as_str", k=k, n=r.as_int) for r in sc.readouts[:5]),
                (k, outs),
            )
        if have_accept:
            m = d.out(op="accept_all", len=ln, outs=outs)
            if ok:
                t.check("accept_all/ok", m is not None and [int(x) for x in m] == real, (k, outs))
            else:
                t.check("accept_all/IndexError", m is None, (k, outs))


def test_parser(d, t, rng, n):
    """String and integer outputs through the real OutputParser on a tiny program."""
    for k in range(1, 7):
        reps = 4
        circ = parse_jaqal_string(
            f"register q[{k}]\nloop {reps} {{ prepare_all\nmeasure_all }}\nprepare_all\nmeasure_all\n", autoload_pulses=False
        )
        for _ in range(max(1, n // 60)):
            ints = [rng.randrange(2 ** k) for _ in range(reps + 1)]
            strs = [d.out(op="as_str", k=k, n=v) for v in ints]
            mixed = [s if rng.random() < 0.5 else v for s, v in zip(strs, ints)]
            ri = parse_jaqal_output_list(circ, ints)
            rs = parse_jaqal_output_list(circ, strs)
            rm = parse_jaqal_output_list(circ, mixed)
            for r in (ri, rs, rm):
                t.check("parser/as_int", [x.as_int for x in r.readouts] == ints, (k, ints))
                t.check("parser/as_str", [x.as_str for x in r.readouts] == strs, (k, ints))
                t.check("parser/len", all(len(x.as_str) == k for x in r.readouts), (k, ints))
            for a, b in zip(ri.subcircuits, rs.subcircuits):
                t.check("parser/freq-same", list(a.relative_frequency_by_int) == list(b.relative_frequency_by_int), (k, ints))
                t.check(
                    "parser/freq-str-same",
                    list(a.relative_frequency_by_str.items()) == list(b.relative_frequency_by_str.items()),
                    (k, ints),
                )
            # model: of_str of each string = the int; histogram of each subcircuit
            t.check("parser/of_str", [to_nat(d.out(op="of_str", s=s)) for s in strs] == ints, (k, ints))
            h0 = [int(x) for x in d.out(op="histogram", len=2 ** k, outs=ints[:reps])]
            h1 = [int(x) for x in d.out(op="histogram", len=2 ** k, outs=ints[reps:])]
            t.check("parser/hist0", h0 == [int(x) for x in ri.subcircuits[0].relative_frequency_by_int], (k, ints))
            t.check("parser/hist1", h1 == [int(x) for x in ri.subcircuits[1].relative_frequency_by_int], (k, ints))
            t.check(
                "parser/keys",
                d.out(op="view_keys", k=k, len=2 ** k) == list(ri.subcircuits[0].relative_frequency_by_str.keys()),
                k,
            )


def real_normalize(ps):
    """ps: list of Fractions that are exact doubles. Returns ('ok', [Fraction], warn) | ('err', kind)."""
    arr = numpy.array([float(x) for x in ps], dtype=float)
    assert all(Fraction(float(x)) == x for x in ps)
    tr = Trace(used_qubits=[0])
    with warnings.catch_warnings(record=True) as w:
        warnings.simplefilter("always")
        try:
            sc = ProbabilisticSubcircuit(tr, 0, probabilities=arr)
        except RuntimeError:
            return ("err", "runtime")
        except ValueError:
            return ("err", "value")
    warn = any(issubclass(x.category, RuntimeWarning) and str(x.message).startswith("Error in probabilities") for x in w)
    return ("ok", [float(x) for x in sc.simulated_probability_by_int], warn)


def model_normalize(d, ps):
    r = d.out(op="normalize", p=[[str(x.numerator), str(x.denominator)] for x in ps])
    if "err" in r:
        return ("err", r["err"])
    return ("ok", [Fraction(int(a), int(b)) for a, b in r["ok"]], r["warn"])


def dyadic(rng, lo_exp, hi_exp, bits):
    """random dyadic m * 2^-e with at most `bits` significant bits, exactly representable."""
    e = rng.randrange(lo_exp, hi_exp)
    m = rng.randrange(0, 2 ** bits)
    return Fraction(m, 2 ** e)


def gen_probs(rng):
    ln = rng.choice([1, 2, 2, 4, 4, 8, 16])
    mode = rng.randrange(8)
    # base: exact distribution with denominators 2^20
    cuts = sorted(rng.randrange(0, 2 ** 20 + 1) for _ in range(ln - 1))
    base = [Fraction(b - a, 2 ** 20) for a, b in zip([0] + cuts, cuts + [2 ** 20])]
    if mode == 0:
        return base
    if mode == 1:  # small perturbation of the sum (warn zone or silent zone)
        i = rng.randrange(ln)
        e = rng.choice([60, 50, 45, 44, 43, 42, 40, 30, 25, 20])
        base[i] += rng.choice([1, -1]) * Fraction(1, 2 ** e) if base[i] > Fraction(1, 2 ** 19) else Fraction(1, 2 ** e)
        return base
    if mode == 2:  # around the fail cutoff 2e-6 ~ 2^-18.9
        i = rng.randrange(ln)
        base[i] += Fraction(rng.randrange(1, 2 ** 12), 2 ** 30)
        return base
    if mode == 3:  # negative entries (clip error), sum of the clipped vector exactly one
        return base + [-dyadic(rng, 20, 60, 8) for _ in range(rng.randrange(1, 3))]
    if mode == 4:  # entries above one
        return [1 + dyadic(rng, 20, 50, 6)] + [Fraction(0)] * (ln - 1)
    if mode == 5:  # wild
        return [rng.choice([1, -1]) * dyadic(rng, 0, 30, 10) for _ in range(ln)]
    if mode == 6:  # all zero / all negative: total = 0
        return [-dyadic(rng, 0, 30, 4) for _ in range(ln)]
    # mode 7: both kinds of error, small
    base[rng.randrange(ln)] += Fraction(rng.randrange(-8, 9), 2 ** rng.choice([25, 35, 45]))
    return base + [-Fraction(1, 2 ** rng.choice([22, 30, 44, 50]))]


def test_normalize(d, t, rng, n):
    fixed = [
        [],
        [Fraction(1)],
        [Fraction(0)],
        [Fraction(0), Fraction(0)],
        [Fraction(1, 2), Fraction(1, 2)],
        [Fraction(1, 2), Fraction(1, 4)],
        [Fraction(2)],
        [Fraction(-1), Fraction(1)],
        [Fraction(1, 2) + Fraction(1, 2 ** 44), Fraction(1, 2)],  # 5.7e-14 < warn cutoff
        [Fraction(1, 2) + Fraction(1, 2 ** 43), Fraction(1, 2)],  # 1.1e-13 > warn cutoff
        [Fraction(1, 2) + Fraction(1, 2 ** 19), Fraction(1, 2)],  # 1.9e-6 < fail cutoff
        [Fraction(1, 2) + Fraction(1, 2 ** 18), Fraction(1, 2)],  # 3.8e-6 > fail cutoff
    ]
    cases = fixed + [gen_probs(rng) for _ in range(n)]
    kinds = {}
    for ps in cases:
        # keep only cases where every intermediate of the float computation is exact (all entries multiples of 2^-60
        # and below 2^20 would need 80 bits: check the sum instead)
        clipped = [min(max(x, Fraction(0)), Fraction(1)) for x in ps]
        tot = sum(clipped)
        if ps:
            ftot = float(numpy.array([float(c) for c in clipped]).sum())
            exact = (
                Fraction(ftot) == tot
                and Fraction(abs(ftot - 1.0)) == abs(tot - 1)
                and all(Fraction(abs(float(c) - float(x))) == abs(c - x) for c, x in zip(clipped, ps))
            )
            if not exact:
                kinds["skipped-inexact-float"] = kinds.get("skipped-inexact-float", 0) + 1
                continue
        real = real_normalize(ps)
        model = model_normalize(d, ps)
        if real[0] == "ok" and model[0] == "ok":
            # IEEE division is correctly rounded and float(Fraction) is correctly rounded: compare exactly
            same = [float(x) for x in model[1]] == real[1] and model[2] == real[2]
            kinds["ok-warn" if real[2] else "ok-silent"] = kinds.get("ok-warn" if real[2] else "ok-silent", 0) + 1
            t.check("normalize/ok", same, (ps, real, model))
            if model[0] == "ok":
                t.check("normalize/model-sum-one", sum(model[1]) == 1 and all(x >= 0 for x in model[1]), ps)
        else:
            kinds[str(real)] = kinds.get(str(real), 0) + 1
            t.check("normalize/err", real == model, (ps, real, model))
    print("normalize case kinds:", kinds)
    # informational: the one-ulp window between the double 2e-6 and the decimal 2e-6
    f = Fraction(2e-6)
    print(
        "note: float(2e-6) - 2/10^6 = %.3g, float(1e-13) - 1/10^13 = %.3g (model cutoffs are the decimal values;"
        " an error strictly inside that window is classified differently)" % (float(f - Fraction(2, 10 ** 6)), float(Fraction(1e-13) - Fraction(1, 10 ** 13)))
    )


def main():
    ap = argparse.ArgumentParser()
    ap.add_argument("--driver", default="/verif/lean/.lake/build/bin/jaqal-model")
    ap.add_argument("--kmax", type=int, default=10)
    ap.add_argument("--seed", type=int, default=0)
    ap.add_argument("--n", type=int, default=3000)
    a = ap.parse_args()
    rng = random.Random(a.seed)
    d = Driver(a.driver)
    t = Tally()
    test_as_str(d, t, a.kmax, rng, a.n)
    test_of_str(d, t, a.kmax, rng, a.n)
    test_views(d, t, a.kmax, rng)
    have_accept = d.has("accept_all")
    if not have_accept:
        print("SKIP accept_all: op not registered in this driver")
    test_histogram(d, t, a.kmax, rng, a.n, have_accept)
    test_parser(d, t, rng, a.n)
    if d.has("normalize"):
        test_normalize(d, t, rng, a.n)
    else:
        print("SKIP normalize: op not registered in this driver")
    d.close()
    for k in sorted(t.count):
        print("%-28s %7d cases" % (k, t.count[k]))
    print("TOTAL %d checks, %d disagreements" % (sum(t.count.values()), len(t.bad)))
    sys.exit(1 if t.bad else 0)


if __name__ == "__main__":
    main()
