#!/venv/bin/python
"""Differential test for property C15 (result views): Lean model (JaqalModel/Model/Result.lean, ResultOps.lean)
vs the real classes in jaqalpaq.core.result, plus direct oracles of the property on the real code.

CLI:   /venv/bin/python /verif/harness/agents/res_diff.py [--driver PATH] [--seed 0] [--n 2000] [--thorough]
API:   run(seed, n, driver, thorough) -> dict ; replay(case, driver) -> dict     (diff-script protocol)

Driver ops used: as_str, of_str, view_keys, histogram (Main.lean) and normalize, accept_all (ResultOps.ops).
If the driver does not know an op, the corresponding corr entry has 0 cases and
distribution["driver_missing_op:<op>"] = 1.

Every case is a JSON object {"op": <kind>, ...}; kinds:
  as_str       {"k", "n"}                    Readout(n).as_str with k measured qubits
  of_str       {"s"}                         OutputParser.process_trace on the string output s -> as_int | "ValueError"
  view_keys    {"k", "len"}                  keys of relative_frequency_by_str (and simulated_probability_by_str when len = 2^k)
  histogram    {"k", "outs"}                 ReadoutSubcircuit.accept_readout of every outcome (all in range)
  accept_all   {"k", "outs"}                 same, outcomes may be out of range -> "IndexError"
  normalize    {"p": [[num, den], ...]}      ProbabilisticSubcircuit.__init__ (entries are exact doubles)
  parse        {"k", "reps", "outputs"}      parse_jaqal_output_list on a tiny program, outputs mixed str / int
"""
import argparse
import itertools
import json
import random
import subprocess
import sys
import warnings
from fractions import Fraction

DEFAULT_DRIVER = "/verif/lean/.lake/build/bin/jaqal-model"


# ----------------------------------------------------------------------------------------------- driver

def drive(driver, reqs):
    """One subprocess for the whole batch. Returns the list of decoded answers (dicts with "out" or "err")."""
    if not reqs:
        return []
    data = "".join(json.dumps(r) + "\n" for r in reqs)
    r = subprocess.run([driver], input=data, text=True, capture_output=True)
    lines = [l for l in r.stdout.split("\n") if l.strip()]
    if len(lines) != len(reqs):
        raise RuntimeError("driver answered %d lines for %d requests (rc=%s, stderr=%r)" % (len(lines), len(reqs), r.returncode, r.stderr[:300]))
    return [json.loads(l) for l in lines]


def driver_has(driver, op):
    (a,) = drive(driver, [{"op": op}])
    return not ("err" in a and "unknown op" in a["err"])


# ----------------------------------------------------------------------------------------------- real code

def _imports():
    import numpy
    from jaqalpaq.core.algorithm.walkers import Trace
    from jaqalpaq.core import result as R
    from jaqalpaq.parser import parse_jaqal_string

    return numpy, Trace, R, parse_jaqal_string


class _FakeSub:
    def __init__(self, k):
        self.measured_qubits = [None] * k
        self.index = 0


class _Sink:
    def __init__(self):
        self.got = []

    def accept_readout(self, r):
        self.got.append(r)


_circ_cache = {}


def _circuit(k, reps):
    numpy, Trace, R, parse_jaqal_string = _imports()
    key = (k, reps)
    if key not in _circ_cache:
        _circ_cache[key] = parse_jaqal_string(
            f"register q[{k}]\nloop {reps} {{ prepare_all\nmeasure_all }}\nprepare_all\nmeasure_all\n", autoload_pulses=False
        )
    return _circ_cache[key]


def impl(case):
    """Result of the real code on a case, as JSON-able data."""
    numpy, Trace, R, parse_jaqal_string = _imports()
    op = case["op"]
    if op == "as_str":
        r = R.Readout(int(case["n"]), 0)
        r._subcircuit = _FakeSub(case["k"])
        return r.as_str
    if op == "of_str":
        p = R.OutputParser.__new__(R.OutputParser)
        sink = _Sink()
        p.subcircuits, p.index, p.data, p.res, p.readout_index = [sink], 0, iter([case["s"]]), [], 0
        try:
            p.process_trace()
        except ValueError:
            return "ValueError"
        return str(sink.got[0].as_int)
    if op == "view_keys":
        k, ln = case["k"], case["len"]
        tr = Trace(used_qubits=list(range(k)))
        sc = R.RelativeFrequencySubcircuit(tr, 0, relative_frequencies=numpy.zeros(ln))
        keys = list(sc.relative_frequency_by_str.keys())
        if ln == 2 ** k:
            sc0 = R.RelativeFrequencySubcircuit(tr, 0)
            assert list(sc0.relative_frequency_by_str.keys()) == keys
            pc = R.ProbabilisticSubcircuit(tr, 0, probabilities=numpy.full(ln, 1.0 / ln))
            if list(pc.simulated_probability_by_str.keys()) != keys:
                return {"relfreq": keys, "prob": list(pc.simulated_probability_by_str.keys())}
        return keys
    if op in ("histogram", "accept_all"):
        k = case["k"]
        sc = R.ReadoutSubcircuit(Trace(used_qubits=list(range(k))), 0)
        try:
            for i, o in enumerate(case["outs"]):
                sc.accept_readout(R.Readout(o, i))
        except IndexError:
            return "IndexError"
        return [str(int(x)) for x in sc.relative_frequency_by_int]
    if op == "normalize":
        ps = [Fraction(int(a), int(b)) for a, b in case["p"]]
        arr = numpy.array([float(x) for x in ps], dtype=float)
        with warnings.catch_warnings(record=True) as w:
            warnings.simplefilter("always")
            try:
                sc = R.ProbabilisticSubcircuit(Trace(used_qubits=[0]), 0, probabilities=arr)
            except RuntimeError:
                return {"err": "runtime"}
            except ValueError:
                return {"err": "value"}
        warn = any(issubclass(x.category, RuntimeWarning) and str(x.message).startswith("Error in probabilities") for x in w)
        return {"ok": [float(x).hex() for x in sc.simulated_probability_by_int], "warn": warn}
    if op == "parse":
        k, reps = case["k"], case["reps"]
        res = R.parse_jaqal_output_list(_circuit(k, reps), case["outputs"])
        return {
            "as_int": [str(x.as_int) for x in res.readouts],
            "as_str": [x.as_str for x in res.readouts],
            "freq": [[str(int(v)) for v in s.relative_frequency_by_int] for s in res.subcircuits],
            "keys": [list(s.relative_frequency_by_str.keys()) for s in res.subcircuits],
        }
    raise ValueError(op)


# ----------------------------------------------------------------------------------------------- model

def requests(case):
    op = case["op"]
    if op == "as_str":
        return [{"op": "as_str", "k": case["k"], "n": str(case["n"])}]
    if op == "of_str":
        return [{"op": "of_str", "s": case["s"]}]
    if op == "view_keys":
        return [{"op": "view_keys", "k": case["k"], "len": case["len"]}]
    if op == "histogram":
        return [{"op": "histogram", "len": 2 ** case["k"], "outs": case["outs"]}]
    if op == "accept_all":
        return [{"op": "accept_all", "len": 2 ** case["k"], "outs": case["outs"]}]
    if op == "normalize":
        return [{"op": "normalize", "p": [[str(a), str(b)] for a, b in case["p"]]}]
    if op == "parse":
        # strings are decoded by of_str; every decoded value is re-encoded by as_str; histogram per subcircuit
        k, reps, outs = case["k"], case["reps"], case["outputs"]
        rq = [{"op": "of_str", "s": o} for o in outs if isinstance(o, str)]
        return rq  # second stage computed in model()
    raise ValueError(op)


def _out(a):
    if "out" not in a:
        raise RuntimeError("driver error: %r" % (a,))
    return a["out"]


def model(case, answers, driver):
    """Model result in the same shape as impl(case). `answers` are the driver answers to requests(case)."""
    op = case["op"]
    if op in ("as_str", "view_keys"):
        return _out(answers[0])
    if op == "of_str":
        o = _out(answers[0])
        return "ValueError" if o is None else str(o)
    if op == "histogram":
        return [str(x) for x in _out(answers[0])]
    if op == "accept_all":
        o = _out(answers[0])
        return "IndexError" if o is None else [str(x) for x in o]
    if op == "normalize":
        o = _out(answers[0])
        if "err" in o:
            return {"err": o["err"]}
        # float(Fraction) is correctly rounded, and so is the IEEE division numpy performs on exact inputs
        return {"ok": [float(Fraction(int(a), int(b))).hex() for a, b in o["ok"]], "warn": o["warn"]}
    if op == "parse":
        k, reps, outs = case["k"], case["reps"], case["outputs"]
        dec = iter(_out(a) for a in answers)
        ints = []
        for o in outs:
            if isinstance(o, str):
                v = next(dec)
                if v is None:
                    return "ValueError"
                ints.append(int(v))
            else:
                ints.append(o)
        groups = [ints[:reps], ints[reps:]]
        rq = [{"op": "as_str", "k": k, "n": str(v)} for v in ints]
        rq += [{"op": "accept_all", "len": 2 ** k, "outs": g} for g in groups]
        rq += [{"op": "view_keys", "k": k, "len": 2 ** k}]
        ans = [_out(a) for a in drive(driver, rq)]
        strs, hists, keys = ans[: len(ints)], ans[len(ints) : len(ints) + 2], ans[-1]
        if any(h is None for h in hists):
            return "IndexError"
        return {"as_int": [str(v) for v in ints], "as_str": strs, "freq": [[str(x) for x in h] for h in hists], "keys": [keys, keys]}
    raise ValueError(op)


# ----------------------------------------------------------------------------------------------- oracles (real code only)

def oracle(case):
    """The property C15 evaluated directly on the real code. Returns (name, ok, detail) or None."""
    numpy, Trace, R, parse_jaqal_string = _imports()
    op = case["op"]
    if op == "as_str":
        k, n = case["k"], int(case["n"])
        if not (k > 0 and n < 2 ** k):
            return None  # outside the documented domain (see C15_as_str_overflow)
        s = impl(case)
        ok = len(s) == k and all(s[i] == str((n >> i) & 1) for i in range(k)) and int(s[::-1], 2) == n
        return ("readout_str_int_correspondence", ok, s)
    if op == "view_keys":
        k, ln = case["k"], case["len"]
        if ln != 2 ** k or k == 0:
            return None
        tr = Trace(used_qubits=list(range(k)))
        rf = numpy.arange(ln, dtype=float)
        sc = R.RelativeFrequencySubcircuit(tr, 0, relative_frequencies=rf)
        items = list(sc.relative_frequency_by_str.items())
        ok = (
            len(items) == ln
            and len({a for a, _ in items}) == ln
            and all(len(a) == k and set(a) <= {"0", "1"} for a, _ in items)
            and all(int(a[::-1], 2) == i and v == sc.relative_frequency_by_int[i] for i, (a, v) in enumerate(items))
        )
        return ("views_same_distribution_integer_order", ok, items[:4])
    if op == "accept_all":
        r = impl(case)
        if r == "IndexError":
            return None
        outs = case["outs"]
        ok = [int(x) for x in r] == [outs.count(i) for i in range(2 ** case["k"])] and sum(int(x) for x in r) == len(outs)
        return ("frequencies_are_readout_counts", ok, r)
    if op == "parse":
        k, reps, outs = case["k"], case["reps"], case["outputs"]
        ints = [int(o[::-1], 2) if isinstance(o, str) else o for o in outs]
        strs = ["".join(str((v >> i) & 1) for i in range(k)) for v in ints]
        c = _circuit(k, reps)
        a, b, m = (R.parse_jaqal_output_list(c, x) for x in (ints, strs, outs))
        ok = True
        for r in (a, b, m):
            ok = ok and [x.as_int for x in r.readouts] == ints and [x.as_str for x in r.readouts] == strs
            ok = ok and all(len(x.as_str) == k for x in r.readouts)
            ok = ok and [list(s.relative_frequency_by_int) for s in r.subcircuits] == [list(s.relative_frequency_by_int) for s in a.subcircuits]
            ok = ok and all(
                s.relative_frequency_by_int[i] == sum(1 for x in s.readouts if x.as_int == i) for s in r.subcircuits for i in range(2 ** k)
            )
        return ("string_and_integer_outputs_identical", ok, {"ints": ints, "strs": strs})
    if op == "normalize":
        r = impl(case)
        if "err" in r:
            return None
        q = [float.fromhex(x) for x in r["ok"]]
        # exact over the rationals (C15_normalize); in doubles the sum is one up to rounding (labelled: float)
        ok = all(x >= 0 for x in q) and abs(sum(Fraction(x) for x in q) - 1) <= Fraction(len(q), 2 ** 52) and len(q) == len(case["p"])
        return ("probabilities_nonneg_sum_one_float", ok, r)
    return None


# ----------------------------------------------------------------------------------------------- generators

def _dyadic(rng, lo_exp, hi_exp, bits):
    return Fraction(rng.randrange(0, 2 ** bits), 2 ** rng.randrange(lo_exp, hi_exp))


def _gen_probs(rng):
    ln = rng.choice([1, 2, 2, 4, 4, 8, 16])
    mode = rng.randrange(8)
    cuts = sorted(rng.randrange(0, 2 ** 20 + 1) for _ in range(ln - 1))
    base = [Fraction(b - a, 2 ** 20) for a, b in zip([0] + cuts, cuts + [2 ** 20])]
    if mode == 0:
        return mode, base
    if mode == 1:  # perturbation of the sum: silent zone / warn zone
        i = rng.randrange(ln)
        d = Fraction(1, 2 ** rng.choice([52, 50, 45, 44, 43, 42, 40, 30, 25, 20]))
        base[i] += -d if (base[i] > d and rng.random() < 0.5) else d
        return mode, base
    if mode == 2:  # around the fail cutoff 2e-6 ~ 2^-18.9
        base[rng.randrange(ln)] += Fraction(rng.randrange(1, 2 ** 12), 2 ** 30)
        return mode, base
    if mode == 3:  # negative entries: clip error only
        return mode, base + [-_dyadic(rng, 20, 60, 8) for _ in range(rng.randrange(1, 3))]
    if mode == 4:  # entries above one
        return mode, [1 + _dyadic(rng, 20, 50, 6)] + [Fraction(0)] * (ln - 1)
    if mode == 5:  # wild
        return mode, [rng.choice([1, -1]) * _dyadic(rng, 0, 30, 10) for _ in range(ln)]
    if mode == 6:  # total = 0
        return mode, [-_dyadic(rng, 0, 30, 4) for _ in range(ln)]
    base[rng.randrange(ln)] += Fraction(rng.randrange(-8, 9), 2 ** rng.choice([25, 35, 45]))
    return mode, base + [-Fraction(1, 2 ** rng.choice([22, 30, 44, 50]))]


def _float_exact(ps):
    """All intermediates of the double computation (clip, differences, sum, total-1) are exact for this input."""
    import numpy

    if not ps:
        return True
    if any(Fraction(float(x)) != x for x in ps):
        return False
    clipped = [min(max(x, Fraction(0)), Fraction(1)) for x in ps]
    tot = sum(clipped)
    ftot = float(numpy.array([float(c) for c in clipped]).sum())
    return (
        Fraction(ftot) == tot
        and Fraction(abs(ftot - 1.0)) == abs(tot - 1)
        and all(Fraction(abs(float(c) - float(x))) == abs(c - x) for c, x in zip(clipped, ps))
    )


_FIXED_PROBS = [
    [],
    [Fraction(1)],
    [Fraction(0)],
    [Fraction(0), Fraction(0)],
    [Fraction(1, 2), Fraction(1, 2)],
    [Fraction(1, 2), Fraction(1, 4)],
    [Fraction(2)],
    [Fraction(-1), Fraction(1)],
    [Fraction(1, 2) + Fraction(1, 2 ** 44), Fraction(1, 2)],  # 5.7e-14 < warn cutoff
    [Fraction(1, 2) + Fraction(1, 2 ** 43), Fraction(1, 2)],  # 1.1e-13 > warn cutoff
    [Fraction(1, 2) + Fraction(1, 2 ** 19), Fraction(1, 2)],  # 1.9e-6 < fail cutoff
    [Fraction(1, 2) + Fraction(1, 2 ** 18), Fraction(1, 2)],  # 3.8e-6 > fail cutoff
]


def generate(seed, n, thorough):
    rng = random.Random(seed)
    dist = {}
    cases = []

    def bump(key):
        dist[key] = dist.get(key, 0) + 1

    kmax = 10 if thorough else 7
    # as_str: exhaustive in range, then random (overflow, k = 0, huge)
    for k in range(0, kmax + 1):
        for v in range(2 ** k):
            cases.append({"op": "as_str", "k": k, "n": v})
            bump("as_str:in_range")
    for _ in range(n):
        k = rng.randrange(0, 70)
        v = rng.randrange(0, 2 ** rng.randrange(1, 80))
        cases.append({"op": "as_str", "k": k, "n": v})
        bump("as_str:in_range" if (k > 0 and v < 2 ** k) else "as_str:overflow_or_k0")
    # of_str: exhaustive bit strings, foreign characters, long strings
    for k in range(0, kmax + 1):
        for bits in itertools.product("01", repeat=k):
            cases.append({"op": "of_str", "s": "".join(bits)})
            bump("of_str:bits")
    alphabet = "01012axZ9.,:;q"  # no '_', sign, whitespace, 'b'/'o': Python's int() accepts those in places, the model documents it does not
    for _ in range(n):
        s = "".join(rng.choice(alphabet) for _ in range(rng.randrange(0, 12)))
        cases.append({"op": "of_str", "s": s})
        bump("of_str:valid" if s and set(s) <= {"0", "1"} else "of_str:invalid")
    for _ in range(max(1, n // 10)):
        cases.append({"op": "of_str", "s": "".join(rng.choice("01") for _ in range(rng.randrange(60, 200)))})
        bump("of_str:long")
    # view_keys
    for k in range(0, kmax + 1):
        for ln in sorted({2 ** k, 0, 1, 3, 2 ** k + 1, 2 ** k + 5, max(0, 2 ** k - 1)}):
            cases.append({"op": "view_keys", "k": k, "len": ln})
            bump("view_keys:full" if ln == 2 ** k else "view_keys:other_len")
    # histogram / accept_all
    for _ in range(n):
        k = rng.randrange(0, 7)
        ln = 2 ** k
        outs = [rng.randrange(ln) for _ in range(rng.randrange(0, 60))]
        cases.append({"op": "histogram", "k": k, "outs": list(outs)})
        bump("histogram:k=%d" % k)
        if rng.random() < 0.3 and outs:
            outs[rng.randrange(len(outs))] = ln + rng.randrange(0, 4)
            bump("accept_all:out_of_range")
        else:
            bump("accept_all:in_range")
        cases.append({"op": "accept_all", "k": k, "outs": outs})
    # parse: string / int / mixed outputs through the real OutputParser
    for _ in range(max(6, n // 10)):
        k = rng.randrange(1, 7)
        reps = rng.randrange(1, 6)
        ints = [rng.randrange(2 ** k) for _ in range(reps + 1)]
        strs = ["".join(str((v >> i) & 1) for i in range(k)) for v in ints]
        mode = rng.randrange(3)
        outs = ints if mode == 0 else strs if mode == 1 else [s if rng.random() < 0.5 else v for s, v in zip(strs, ints)]
        cases.append({"op": "parse", "k": k, "reps": reps, "outputs": outs})
        bump("parse:" + ["ints", "strs", "mixed"][mode])
    # normalize
    probs = [(-1, p) for p in _FIXED_PROBS] + [_gen_probs(rng) for _ in range(n)]
    for mode, ps in probs:
        if not _float_exact(ps):
            bump("normalize:skipped_float_inexact")
            continue
        cases.append({"op": "normalize", "p": [[str(x.numerator), str(x.denominator)] for x in ps]})
        bump("normalize:mode=%d" % mode)
    return cases, dist


# ----------------------------------------------------------------------------------------------- protocol

def _trivial(case):
    op = case["op"]
    if op == "as_str":
        return case["k"] == 0 or int(case["n"]) == 0
    if op == "of_str":
        return len(case["s"]) == 0
    if op == "view_keys":
        return case["len"] == 0
    if op in ("histogram", "accept_all"):
        return not case["outs"]
    if op == "normalize":
        return len(case["p"]) <= 1
    return False


def run(seed: int, n: int, driver: str = DEFAULT_DRIVER, thorough: bool = False) -> dict:
    cases, dist = generate(seed, n, thorough)
    ops = ["as_str", "of_str", "view_keys", "histogram", "accept_all", "normalize", "parse"]
    corr = {op: {"cases": 0, "disagreements": []} for op in ops}
    orc = {}
    missing = {op for op in ("normalize", "accept_all") if not driver_has(driver, op)}
    for op in missing:
        dist["driver_missing_op:" + op] = 1
    for op in ops:
        sel = [c for c in cases if c["op"] == op]
        if op in missing or (op == "parse" and "accept_all" in missing):
            sel_model = []
        else:
            sel_model = sel
        reqs, spans = [], []
        for c in sel_model:
            r = requests(c)
            spans.append((len(reqs), len(reqs) + len(r)))
            reqs.extend(r)
        answers = drive(driver, reqs)
        for c, (a, b) in zip(sel_model, spans):
            m = model(c, answers[a:b], driver)
            i = impl(c)
            corr[op]["cases"] += 1
            if m != i:
                if len(corr[op]["disagreements"]) < 20:
                    corr[op]["disagreements"].append({"case": c, "model": m, "impl": i})
            if op == "normalize":
                key = "normalize:result=" + ("err_" + i["err"] if "err" in i else ("warn" if i["warn"] else "silent"))
                dist[key] = dist.get(key, 0) + 1
        for c in sel:
            o = oracle(c)
            if o is None:
                continue
            name, ok, detail = o
            e = orc.setdefault(name, {"cases": 0, "failures": []})
            e["cases"] += 1
            if not ok and len(e["failures"]) < 20:
                e["failures"].append({"case": c, "detail": json.dumps(detail, default=str)[:400]})
    distinct = {json.dumps(c, sort_keys=True) for c in cases if not _trivial(c)}
    rng = random.Random(seed)
    samples = [cases[rng.randrange(len(cases))] for _ in range(8)]
    return {"corr": corr, "oracle": orc, "distribution": dist, "samples": samples, "nontrivial": len(distinct)}


def replay(case: dict, driver: str = DEFAULT_DRIVER) -> dict:
    i = impl(case)
    try:
        m = model(case, drive(driver, requests(case)), driver)
        detail = ""
    except RuntimeError as e:
        m, detail = None, str(e)
    if case["op"] == "normalize" and not _float_exact([Fraction(int(a), int(b)) for a, b in case["p"]]):
        detail = "NOTE: input not exactly representable / intermediates round in doubles: model (exact rationals) and impl may differ by rounding. " + detail
    o = oracle(case)
    return {"model": m, "impl": i, "oracle_ok": None if o is None else bool(o[1]), "detail": detail or ("" if o is None else "%s: %s" % (o[0], json.dumps(o[2], default=str)[:300]))}


def main():
    ap = argparse.ArgumentParser()
    ap.add_argument("--driver", default=DEFAULT_DRIVER)
    ap.add_argument("--seed", type=int, default=0)
    ap.add_argument("--n", type=int, default=2000)
    ap.add_argument("--thorough", action="store_true")
    a = ap.parse_args()
    res = run(a.seed, a.n, a.driver, a.thorough)
    bad = 0
    for op, e in res["corr"].items():
        print("corr   %-45s %7d cases %4d disagreements" % (op, e["cases"], len(e["disagreements"])))
        for d in e["disagreements"][:5]:
            print("   DISAGREE", json.dumps(d)[:600])
        bad += len(e["disagreements"])
    for name, e in res["oracle"].items():
        print("oracle %-45s %7d cases %4d failures" % (name, e["cases"], len(e["failures"])))
        for d in e["failures"][:5]:
            print("   FAIL", json.dumps(d)[:600])
        bad += len(e["failures"])
    print("distribution:", json.dumps(res["distribution"], sort_keys=True))
    print("nontrivial distinct cases:", res["nontrivial"])
    f = Fraction(2e-6) - Fraction(2, 10 ** 6)
    print("note: double(2e-6) - 2/10^6 = %.3g: the model cutoffs are the decimal values; an error inside that one-ulp window" % float(f))
    print("      is classified differently by the doubles of the real code (never generated here).")
    sys.exit(1 if bad else 0)


if __name__ == "__main__":
    main()
