#!/venv/bin/python
"""C14 oracle stream (fourth round): SCALE, unusual IDENTIFIERS, DEFAULTS / optional parameters, ORDER of imports.

    PYTHONPATH=/verif /venv/bin/python /verif/harness/agents/c14_scale.py [--seed 0] [--n 250] [--thorough]

Importable: `run(seed, n, driver, thorough) -> dict`, `replay(case, driver) -> dict` (AGENT_CONVENTIONS.md, "Diff-script
protocol").  Oracles only (`"corr": {}`): the Lean driver is not used.

What C14 says: a program is never accepted with a qubit index outside 0..size-1 of the register or alias it indexes
(literal, let value, overriding value, macro substitution), an alias slice reaching outside its source, an alias or
index applied to something that is not a register, an undefined or doubly defined identifier, a call to a gate that is
neither native nor a previously defined macro when a native gate set is in force, or a call with the wrong number or
kind of arguments; such programs are rejected WITH JaqalError AT THE LATEST WHEN THE OFFENDING VALUE BECOMES KNOWN and
never run on a different qubit or gate.  Quantifier: all programs, all override dictionaries, all gate names and
argument lists against ANY injected or imported native gate set.

How it is stated here.  Programs are the JSON trees of c14_edge.py (header: lets / register / maps; top: macros and
statements; override dictionary) plus an optional injected gate set of the program's own (`gates`: specs with arbitrary
— dotted, dunder, 1000-character — names; unitaries are XOR masks).  The independent reference is c14_edge's evaluator
`Ref` (it shares no code with the library), parameterised here by the gate set, with larger unrolling limits: for each
knowledge level ({}, {let}, {macro}, {let, macro}) it says whether a reference that cannot be honoured is determined,
and with full knowledge the fundamental qubit of every executed native call and the final basis state (<= 14 qubits).
A case is a RECIPE (stream, kind, size N, a random seed, ...) from which the program is rebuilt deterministically, so a
failing case stays small although the program may have 1000 statements.

Pipelines = those of c14_edge (text, own S-expression, CircuitBuilder) PLUS the optional parameters of the public
functions: parse_jaqal_string(return_usepulses=True), override_dict={} instead of None, fill_in_let(c) / (c, {}) /
(c, override_dict=None), expand_macros(preserve_definitions=True), run_jaqal_circuit(backend=UnitarySerializedEmulator())
/ (emulator_backend=...) / (force_sim=True).  Every combination must give what the property states.

Streams
  scale   : ONE dimension crosses 8 / 16 / 32 / 64 / 128 / 256 (/ 1000) while everything else stays small:
            depth (alternating {} <> loop nesting, the reference at the bottom arriving by literal / let / override /
            macro parameter / in a macro body), macro_chain (N macros forwarding a register + index, or swapping two
            qubits at some links; defects: index, arity at link j, forward reference at link j, kind, unknown gate),
            alias_chain (N aliases: whole / reversed / full / shrinking slices; defects: index, slice outside at link j,
            alias of a let / qubit at link j, forward reference, duplicate), names (N lets / N qubit aliases / N macros /
            N macro parameters / an override dictionary with N entries; the defect at position j in {0, N-1, t-1, t}),
            statements (N statements in one block: top level, {}, loop body, macro body; the defect at position j),
            loops (count N by literal / let / override / macro parameter, nested N1 x N2; parity of X),
            qubits (registers of 9-14 qubits in the emulator; far indices, strided / tail aliases, shrinking override).
  ident   : pairs of names that differ by a dotted prefix / suffix / last component, leading or trailing underscores,
            case, one character, a digit, truncation, position 255 / 256 of a long name; bases: dotted names, dunder names
            (`__macro__`, `__c10`, `__r0`), prefixes / extensions of keywords and of prepare_all / measure_all, names of the
            builder's internal markers; in every role (let, register + alias, qubit alias, macro, macro parameter, INJECTED
            NATIVE GATE): both defined (each reference must reach its own object), only the first defined (the second is
            undefined / an unknown gate), the second called with the first's argument list, the first defined twice.
  values  : value kinds (S-expression only): numeric-looking strings as index / gate argument, numpy integers / floats
            as index, register size and gate argument.
  defaults: c14_edge's own generators (refs / nonreg / names / calls) sent through the optional-parameter pipelines.
  gateset : ORDER and REPETITION of imports: 2-3 real modules written on the fly define the same gate names with
            different signatures / masks; a sequence of 1 .. 65 `from M usepulses *` statements with repetitions (A;B;A,
            B;A;B, A;A;B, A^k;B;A, ...), interleaved with other header statements, with / without an injected set, with
            autoload on / off, through parse_jaqal_string / parse_jaqal_file / circuitbuilder.build / run_jaqal_string.
            Reference: later import overrides earlier, injected overrides imports.  One call per candidate definition.
  Every run of n >= 100 starts with a fixed GRID of ~80 recipes (each dimension x defect once, beyond the thresholds);
  the remaining recipes are drawn at random from the streams.
  qsyn    : qsyntax circuits with 9 .. 101 ANONYMOUS lets (named `__c<k>` by the library) among user lets that bear such
            names, used as indices.

Oracles
  invalid_reference_rejected        : a program the reference finds invalid is refused at some stage.
  rejected_when_known               : ... by the end of the first stage whose knowledge level determines the defect.
  rejection_is_jaqalerror           : ... and the refusing stage raises JaqalError.
  accepted_runs_on_reference_qubits : a valid program, IF accepted, executes exactly the reference's native calls on the
                                      reference's fundamental qubits, is bound to the gate definitions in force, and the
                                      emulator ends in the reference's basis state.  (A refusal of a valid program is
                                      tabulated, never reported: not a matter of C14.)
  terminates                        : every guarded call returns within `harness.timeouts.limit()` seconds.

Recommended: quick n=250 (6-16 s depending on the load of the machine; 3.5 s of it are imports), thorough n=800 (every applicable pipeline; a sample
of 3-6 pipelines for chains / nests > 40 and registers >= 13 qubits; 1-2.5 min).

FINDING on the unchanged library, kept out of the default stream (C14_SCALE_DEEP=1 adds two such recipes to the grid and
lets macro chains grow to 257): beyond a size the refusal is a RecursionError, not a JaqalError — expand_macros /
run_jaqal_circuit on a chain of >= ~200 macros (valid or not):
    c = parse_jaqal_string("register q[2]\nmacro m0 r i { X r[i] }\n" + "".join("macro m%d r i { m%d r i }\n" % (k, k - 1)
          for k in range(1, 200)) + "prepare_all\nm199 q 2\nmeasure_all\n", inject_pulses=GATES, autoload_pulses=False)
    expand_macros(c)   ->  RecursionError  (the index 2 is outside q[2]: JaqalError is what C14 asks for)
Seen by a direct probe only (not generated here, the harness itself recurses over the nesting): circuitbuilder.build — not
parse_jaqal_string, which converts it to JaqalError — raises RecursionError on blocks nested >= ~400 deep.
"""
import argparse
import collections
import importlib
import json
import os
import random
import re
import shutil
import sys
import tempfile

sys.path.insert(0, os.path.dirname(os.path.dirname(os.path.dirname(os.path.abspath(__file__)))))

from harness import timeouts as _T  # noqa: E402
from harness.agents import c14_edge as E  # noqa: E402
from harness.agents import c14_inject as I  # noqa: E402

DEFAULT_DRIVER = "/verif/lean/.lake/build/bin/jaqal-model"
DEEP = os.environ.get("C14_SCALE_DEEP", "") == "1"

LOOP_CAP = 4096      # loop counts the reference unrolls
FLAT_CAP = 30000     # native calls the reference lists
NQ_CAP = 14          # qubits the reference simulates

lit, ident, gate, item, aid, anum = E.lit, E.ident, E.gate, E.item, E.aid, E.anum
guarded = E.guarded

_LIB2 = None


def lib():
    return E.lib()


def lib2():
    global _LIB2
    if _LIB2 is None:
        E.lib()
        I.lib()
        from jaqalpaq.parser import parse_jaqal_file
        from jaqalpaq.emulator import UnitarySerializedEmulator
        from jaqalpaq.run import run_jaqal_string
        from jaqalpaq.qsyntax import circuit as qcircuit
        from jaqalpaq.core.macro import Macro

        _LIB2 = dict(locals())
    return _LIB2


# ---------------------------------------------------------------------------------------------------------------
# gate sets: the harness set (harness/gates.py) or the program's own specs
# spec = {"name", "params": [[pname, "qubit" | "int" | "float"]], "mask"} | {"name", "busy": True, "params": []}

DEFAULT_SEM = {"X": "X", "CX": "CX", "SWAP": "SWAP", "CCX": "CCX", "ROT3": "ROT3"}
PM = [{"name": "prepare_all", "busy": True, "params": []}, {"name": "measure_all", "busy": True, "params": []}]
_GATE_CACHE = {}


def gspec(name, kinds, mask):
    return {"name": name, "params": [[f"p{i}", k] for i, k in enumerate(kinds)], "mask": mask}


def gate_table(prog):
    """-> (sig: name -> letters q/i/f, sem: name -> how the reference simulates it)"""
    specs = prog.get("gates")
    if not specs:
        return E.SIG, DEFAULT_SEM
    sig, sem = {}, {}
    for s in specs:
        if s.get("busy"):
            sig[s["name"]] = ""
            continue
        sig[s["name"]] = "".join({"qubit": "q", "int": "i", "float": "f"}[k] for _p, k in s["params"])
        if I._has_unitary(s):
            sem[s["name"]] = ("mask", s["mask"])
    return sig, sem


def gate_objects(prog):
    specs = prog.get("gates")
    if not specs:
        return lib()["GATES"]
    key = json.dumps(specs, sort_keys=True)
    if key not in _GATE_CACHE:
        if len(_GATE_CACHE) > 200:
            _GATE_CACHE.clear()
        _GATE_CACHE[key] = {s["name"]: I.make_def(s) for s in specs}
    return _GATE_CACHE[key]


# ---------------------------------------------------------------------------------------------------------------
# the reference: c14_edge.Ref with the gate set as a parameter


class Ref2(E.Ref):
    def __init__(self, prog, klet, kmac, sig):
        super().__init__(prog, klet, kmac)
        self.sig = sig

    def run(self):
        ov = {name: E.dec(v) for name, v in self.prog["ov"]}
        for h in self.prog["header"]:
            if h["k"] == "let":
                v = ov.get(h["name"], E.dec(h["v"]))
                self.define(h["name"], ("num", v) if self.klet else E.NUMU)
            elif h["k"] == "reg":
                self.define(h["name"], self.register(h))
            else:
                self.define(h["name"], self.alias(h))
        gate_ns = set(self.sig)
        for t in self.prog["top"]:
            if t["k"] == "macro":
                if t["name"] in gate_ns:
                    self.defect(f"duplicate_gate:{t['name'][:40]}")
                    continue
                env = dict(self.env)
                for p in t["params"]:
                    env[p] = E.OPAQUE
                self._sink = self.macro_defects.setdefault(t["name"], [])
                visible = dict(self.macros)
                for s in t["body"]:
                    self.stmt(s, env, visible, [], False)
                self._sink = self.defects
                self.defects.extend(self.macro_defects[t["name"]])
                self.macros[t["name"]] = (t["params"], t["body"], dict(self.env), visible)
                gate_ns.add(t["name"])
            else:
                self.stmt(t, self.env, self.macros, self.trace, self.kmac)
        return self

    def stmt(self, s, env, macros, out, expand):
        k = s["k"]
        if k in ("seq", "par"):
            for x in s["body"]:
                self.stmt(x, env, macros, out, expand)
            return
        if k == "loop":
            c = self.ev(s["count"], env)
            if c is not E.BAD and c[0] == "num" and not (E.is_intval(c[1]) and c[1] >= 0):
                self.ambiguous.append("loop count not a natural number")
            if c is not E.BAD and c[0] not in ("num", "numu", "opaque"):
                self.ambiguous.append("loop count not a number")
            sub = []
            out.append(("loop", c, sub))
            for x in s["body"]:
                self.stmt(x, env, macros, sub, expand)
            return
        vals = [self.arg(a, env) for a in s["args"]]
        name = s["name"]
        if name in macros:
            params, body, denv, visible = macros[name]
            if len(params) != len(vals):
                self.defect(f"arity:{name[:40]}")
                return
            if expand:
                self.expanded.add(name)
                env2 = dict(denv)
                env2.update(zip(params, vals))
                for x in body:
                    self.stmt(x, env2, visible, out, True)
            return
        if name not in self.sig:
            self.defect(f"unknown_gate:{name[:40]}")
            return
        sig = self.sig[name]
        if len(sig) != len(vals):
            self.defect(f"arity:{name[:40]}")
            return
        for kind, v in zip(sig, vals):
            t = v[0]
            if t in ("bad", "opaque"):
                continue
            if kind == "q" and t not in ("qubit", "qubitu"):
                self.defect(f"kind:{name[:40]} wants a qubit")
            elif kind == "i" and (t not in ("num", "numu") or (t == "num" and not E.is_intval(v[1]))):
                self.defect(f"kind:{name[:40]} wants an integer")
            elif kind == "f" and t not in ("num", "numu"):
                self.defect(f"kind:{name[:40]} wants a number")
        out.append(("g", name, vals))


LEVELS = E.LEVELS


def _loop_n(c):
    if c[0] != "num" or not E.is_intval(c[1]) or not 0 <= c[1] <= LOOP_CAP:
        return None
    return int(c[1])


def judge(prog):
    sig, sem = gate_table(prog)
    refs = {lv: Ref2(prog, lv[0], lv[1], sig).run() for lv in LEVELS}
    full = refs[(True, True)]
    ambiguous = list(full.ambiguous)
    for lv in LEVELS:
        for a in refs[lv].ambiguous:
            if a not in ambiguous:
                ambiguous.append(a)
    for name, ds in full.macro_defects.items():
        if ds and name not in full.expanded and not refs[(False, False)].macro_defects.get(name):
            ambiguous.append(f"let-dependent defect in macro {name[:40]}, which is never called")
    out = {"invalid": {lv: bool(refs[lv].defects) for lv in LEVELS}, "defects": [d[:120] for d in full.defects[:6]],
           "ambiguous": ambiguous, "flat": None, "state": None, "nq": None}
    for lv in LEVELS:
        if refs[lv].defects and not full.defects:
            raise AssertionError(f"reference not monotone: {lv} {refs[lv].defects}")
    if full.defects or ambiguous:
        return out
    flat = []
    ok = [True]

    def walk(items):
        for it in items:
            if not ok[0]:
                return
            if it[0] == "g":
                flat.append([it[1], [E._flatval(v) for v in it[2]]])
                if len(flat) > FLAT_CAP:
                    ok[0] = False
            else:
                n = _loop_n(it[1])
                if n is None:
                    ok[0] = False
                    return
                for _ in range(n):
                    walk(it[2])

    walk(full.trace)
    out["flat"] = flat if ok[0] else None
    regs = [v for v in full.env.values() if v[0] == "reg" and v[2] == 0 and v[3] == 1]
    fund = {v[1]: v[4] for v in regs if v[1] in full.env and full.env[v[1]] == v}
    if len(fund) == 1:
        out["nq"] = list(fund.values())[0]
        if out["nq"] <= NQ_CAP and out["flat"] is not None:
            out["state"] = simulate(out["flat"], out["nq"], sig, sem)
    return out


def simulate(flat, nq, sig, sem):
    bits = [0] * nq
    for name, vals in flat:
        qs = [v[1] for v in vals if v[0] == "q"]
        if len(qs) != sig[name].count("q") or len(set(qs)) != len(qs):
            return None
        how = sem.get(name)
        if how is None:
            continue
        if how == "X":
            bits[qs[0]] ^= 1
        elif how == "CX":
            bits[qs[1]] ^= bits[qs[0]]
        elif how == "SWAP":
            bits[qs[0]], bits[qs[1]] = bits[qs[1]], bits[qs[0]]
        elif how == "CCX":
            bits[qs[2]] ^= bits[qs[0]] & bits[qs[1]]
        elif how == "ROT3":
            a, b, c = (bits[q] for q in qs)
            bits[qs[0]], bits[qs[1]], bits[qs[2]] = c, a, b
        else:
            for k, q in enumerate(qs):
                if (how[1] >> k) & 1:
                    bits[q] ^= 1
    return sum(b << q for q, b in enumerate(bits))


# ---------------------------------------------------------------------------------------------------------------
# pipelines: c14_edge's stages plus the optional parameters of the public functions

LET, MAC = "let", "macro"
STAGE_K = {
    "parse": (), "parse_ru": (), "build_sx": (), "cbuilder": (), "build_parsed_sx": (),
    "parse_all": (LET, MAC), "parse_all_e": (LET, MAC), "parse_letmap": (LET,), "parse_let": (LET,), "parse_let_e": (LET,),
    "parse_macro": (MAC,),
    "fill": (LET,), "fill_e": (LET,), "fill_kw": (LET,), "expand": (MAC,), "expand_keep": (MAC,),
    "run": (LET, MAC), "run_backend": (LET, MAC), "run_embackend": (LET, MAC), "run_force": (LET, MAC),
}
PIPES = {
    "A": ["parse", "fill", "expand", "run"],
    "B": ["parse", "expand", "fill", "run"],
    "C": ["parse_all", "run"],
    "D": ["parse_letmap", "expand", "run"],
    "E0": ["parse", "run"],                                   # only without an override dictionary
    "F": ["build_sx", "fill", "expand", "run"],
    "F2": ["build_sx", "expand", "fill", "run"],
    "G": ["cbuilder", "expand", "fill", "run"],
    "H1": ["parse_let", "expand", "run"],
    "H2": ["parse_macro", "fill", "run"],
    "I": ["build_parsed_sx", "fill", "expand", "run"],
    # optional parameters / defaults
    "Ak": ["parse", "fill_kw", "expand_keep", "run_backend"],
    "Bk": ["parse_ru", "expand_keep", "fill_e", "run_embackend"],
    "Ce": ["parse_all_e", "run_force"],
    "He": ["parse_let_e", "expand_keep", "run"],
    "Fk": ["build_sx", "expand_keep", "fill_kw", "run_force"],
    "Gk": ["cbuilder", "fill_e", "expand_keep", "run_backend"],
    "E0b": ["parse_ru", "run_embackend"],                     # only without an override dictionary
}
TEXT_PIPES = ["A", "B", "C", "D", "E0", "H1", "H2", "I", "Ak", "Bk", "Ce", "He", "E0b"]
OBJ_PIPES = ["F", "F2", "G", "Fk", "Gk"]
DEFAULT_PIPES = ["Ak", "Bk", "Ce", "He", "Fk", "Gk", "E0b"]


def applicable(prog, text):
    ps = list(OBJ_PIPES)
    if E.has_huge_int([prog["header"], prog["top"]]):
        ps = []
    if text is not None:
        ps += [p for p in TEXT_PIPES if not (p in ("E0", "E0b") and prog["ov"])]
    return ps


def build_with_circuitbuilder(prog, G):
    L = lib()
    cb = L["CircuitBuilder"](native_gates=G)
    _x_arg, _x_expr, dec = E._x_arg, E._x_expr, E.dec

    def fill(bb, stmts):
        for s in stmts:
            k = s["k"]
            if k == "gate":
                bb.gate(s["name"], *[_x_arg(a) for a in s["args"]])
            elif k == "loop":
                inner = (L["ParallelBlockBuilder"] if s.get("par") else L["SequentialBlockBuilder"])()
                fill(inner, s["body"])
                bb.loop(_x_expr(s["count"]), inner, unevaluated=True)
            else:
                fill(bb.block(parallel=(k == "par")), s["body"])

    for h in prog["header"]:
        if h["k"] == "let":
            cb.let(h["name"], dec(h["v"], real=True), unevaluated=True)
        elif h["k"] == "reg":
            cb.register(h["name"], _x_expr(h["size"]), unevaluated=True)
        elif h["form"] == "whole":
            cb.map(h["name"], h["src"], unevaluated=True)
        elif h["form"] == "index":
            cb.map(h["name"], h["src"], _x_expr(h["index"]), unevaluated=True)
        else:
            cb.map(h["name"], h["src"], slice(_x_expr(h["start"]), _x_expr(h["stop"]), _x_expr(h["step"])), unevaluated=True)
    for t in prog["top"]:
        if t["k"] == "macro":
            inner = (L["ParallelBlockBuilder"] if t.get("par") else L["SequentialBlockBuilder"])()
            fill(inner, t["body"])
            cb.macro(t["name"], list(t["params"]), inner, unevaluated=True)
        else:
            fill(cb, [t])
    return cb.build()


def do_stage(stage, prog, text, circ):
    L, L2 = lib(), lib2()
    G = gate_objects(prog)
    ov = {name: E.dec(v, real=True) for name, v in prog["ov"]} or None
    ov_e = ov if ov is not None else {}
    P = L["parse_jaqal_string"]
    if stage == "parse":
        return P(text, inject_pulses=G, autoload_pulses=False)
    if stage == "parse_ru":
        c, extra = P(text, inject_pulses=G, autoload_pulses=False, return_usepulses=True)
        if not isinstance(extra, dict):
            raise TypeError("return_usepulses=True: second value is not a dict")
        return c
    if stage == "parse_all":
        return P(text, override_dict=ov, expand_macro=True, expand_let=True, inject_pulses=G, autoload_pulses=False)
    if stage == "parse_all_e":
        return P(text, ov_e, True, True, False, False, G, False)   # all positional
    if stage == "parse_letmap":
        return P(text, override_dict=ov, expand_let_map=True, inject_pulses=G, autoload_pulses=False)
    if stage == "parse_let":
        return P(text, override_dict=ov, expand_let=True, inject_pulses=G, autoload_pulses=False)
    if stage == "parse_let_e":
        return P(text, override_dict=ov_e, expand_let=True, inject_pulses=G, autoload_pulses=False, import_path=None)
    if stage == "parse_macro":
        return P(text, expand_macro=True, inject_pulses=G, autoload_pulses=False)
    if stage == "build_sx":
        return L["core_build"](E.render_sx(prog), inject_pulses=G)
    if stage == "build_parsed_sx":
        return L["core_build"](L["parse_to_sexpression"](text), inject_pulses=G)
    if stage == "cbuilder":
        return build_with_circuitbuilder(prog, G)
    if stage == "fill":
        return L["fill_in_let"](circ, ov)
    if stage == "fill_e":
        return L["fill_in_let"](circ, ov_e)
    if stage == "fill_kw":
        return L["fill_in_let"](circ, override_dict=ov) if ov is not None else L["fill_in_let"](circ)
    if stage == "expand":
        return L["expand_macros"](circ)
    if stage == "expand_keep":
        return L["expand_macros"](circ, preserve_definitions=True)
    if stage == "run":
        return L["run_jaqal_circuit"](circ)
    if stage == "run_backend":
        return L["run_jaqal_circuit"](circ, backend=L2["UnitarySerializedEmulator"]())
    if stage == "run_embackend":
        return L["run_jaqal_circuit"](circ, emulator_backend=L2["UnitarySerializedEmulator"]())
    if stage == "run_force":
        return L["run_jaqal_circuit"](circ, force_sim=True)
    raise ValueError(stage)


def observe_flat(circ):
    """the native calls the circuit body EXECUTES, in order (loops unrolled), iteratively over an explicit stack of
    iterators so that deep nesting costs no Python recursion"""
    L = lib()
    out = []

    def val(v):
        if isinstance(v, L["NamedQubit"]):
            _reg, idx = v.resolve_qubit()
            return ["q", int(idx)]
        if isinstance(v, bool):
            return ["?", "bool"]
        if isinstance(v, (int, float)):
            return ["n", E.enc(v)]
        return ["?", type(v).__name__]

    def expand(s):
        """iterator over the statements inside s"""
        if isinstance(s, L["LoopStatement"]):
            n = s.iterations
            if isinstance(n, float) and n.is_integer():
                n = int(n)
            if not isinstance(n, int) or isinstance(n, bool) or not 0 <= n <= LOOP_CAP:
                raise ValueError(f"loop count {n!r} of the accepted circuit is not a natural number <= {LOOP_CAP}")
            return (s.statements for _ in range(n))
        return iter(s.statements)

    stack = [iter([circ.body])]
    while stack:
        try:
            s = next(stack[-1])
        except StopIteration:
            stack.pop()
            continue
        if isinstance(s, L["GateStatement"]):
            out.append([s.name, [val(v) for v in s.parameters.values()]])
            if len(out) > FLAT_CAP + 10:
                raise ValueError("more native calls than the reference lists")
        elif isinstance(s, (L["LoopStatement"], L["BlockStatement"])):
            stack.append(expand(s))
    return out


def check_bindings(circ, prog):
    """every native gate statement of the accepted circuit is bound to the definition in force (the injected one)"""
    G = gate_objects(prog)
    L, L2 = lib(), lib2()
    bad = []
    stack = [circ.body]
    while stack:
        s = stack.pop()
        if isinstance(s, L["GateStatement"]):
            gd = s.gate_def
            if isinstance(gd, L2["Macro"]):
                continue
            want = G.get(s.name)
            if want is None:
                bad.append(f"statement {s.name[:40]!r}: no such gate in force")
            elif gd is not want and I.fingerprint(gd) != I.fingerprint(want):
                bad.append(f"statement {s.name[:40]!r} is bound to {I.fingerprint(gd)}, in force is {I.fingerprint(want)}")
            if len(bad) > 3:
                break
        elif isinstance(s, L["LoopStatement"]):
            stack.append(s.statements)
        elif isinstance(s, L["BlockStatement"]):
            stack.extend(s.statements)
    return bad


def check(prog, pipe, verdict, text):
    """Run one pipeline.  -> (results: [(oracle, ok, detail)], facts: [str])"""
    stages = PIPES[pipe]
    known = set()
    results, facts = [], []
    circ = None
    required = None
    refused = None
    pre_run = None
    final = None
    for i, st in enumerate(stages):
        known |= set(STAGE_K[st])
        if required is None and verdict["invalid"][(LET in known, MAC in known)]:
            required = i
    known = set()
    for i, st in enumerate(stages):
        known |= set(STAGE_K[st])
        lv = (LET in known, MAC in known)
        r = guarded(lambda st=st, circ=circ: do_stage(st, prog, text, circ))
        if r[0] == "hang":
            results.append(("terminates", False, f"{st}: no answer within {_T.limit()} s"))
            return results, facts
        if r[0] != "ok":
            refused = (i, r)
            break
        if st.startswith("run"):
            final = r[1]
        else:
            circ = r[1]
            if lv == (True, True):
                pre_run = circ
    results.append(("terminates", True, ""))
    if verdict["ambiguous"]:
        facts.append("ambiguous: " + ("accepted" if refused is None else "refused"))
        return results, facts
    invalid = verdict["invalid"][(True, True)]
    if invalid:
        why = "; ".join(verdict["defects"][:3])
        if refused is None:
            results.append(("invalid_reference_rejected", False, f"accepted by every stage of {stages}; the reference says: {why}"))
            facts.append("invalid: ACCEPTED")
            return results, facts
        i, r = refused
        results.append(("invalid_reference_rejected", True, ""))
        results.append(("rejected_when_known", i <= required,
                        f"defect ({why}) is determined after stage {stages[required]!r} but the program passed it and was refused "
                        f"only by {stages[i]!r}: {r[1:]}"))
        results.append(("rejection_is_jaqalerror", r[0] == "jaqal",
                        f"stage {stages[i]!r} raised {r[1]}: {r[2] if len(r) > 2 else ''} instead of JaqalError; the reference says: {why}"))
        facts.append(f"invalid: refused at {stages[i]}" + ("" if i == required else " (earlier than required)"))
        return results, facts
    if refused is not None:
        i, r = refused
        facts.append(f"valid: refused at {stages[i]} ({'JaqalError' if r[0] == 'jaqal' else r[1]})")
        return results, facts
    facts.append("valid: accepted")
    bad = []
    if pre_run is not None and verdict["flat"] is not None:
        g = guarded(lambda: observe_flat(pre_run))
        if g[0] != "ok":
            bad.append(f"a qubit of the accepted circuit does not resolve: {g[1:]}")
        elif not E.same_flat(verdict["flat"], g[1]):
            k = next((j for j, (a, b) in enumerate(zip(verdict["flat"], g[1])) if not E.same_flat([a], [b])), min(len(g[1]), len(verdict["flat"])))
            bad.append(f"accepted circuit executes {len(g[1])} native calls, the reference {len(verdict['flat'])}; first difference at call {k}: "
                       f"circuit {json.dumps(g[1][k:k + 2])[:200]}, reference {json.dumps(verdict['flat'][k:k + 2])[:200]}")
        bad += check_bindings(pre_run, prog)
    if final is not None and verdict["state"] is not None:
        np = lib()["numpy"]
        g = guarded(lambda: final.subcircuits[0].state_vector)
        if g[0] != "ok":
            bad.append(f"no state vector: {g[1:]}")
        else:
            v = np.abs(np.asarray(g[1]))
            hit = int(np.argmax(v))
            if abs(v[hit] - 1) > 1e-9 or hit != verdict["state"]:
                bad.append(f"emulator ended in basis state {hit} (|amp|={v[hit]:.3f}), the reference in {verdict['state']}")
    results.append(("accepted_runs_on_reference_qubits", not bad, "; ".join(bad)))
    return results, facts


# ---------------------------------------------------------------------------------------------------------------
# recipes -> programs.  A builder is a pure function of its recipe (incidental choices come from Random(recipe["r"])).

THRESHOLDS = [8, 16, 32, 64, 128, 256, 1000]
SIZES = [7, 8, 9, 15, 16, 17, 20, 31, 32, 33, 34, 40, 49, 63, 64, 65, 100, 127, 128, 129, 130, 200, 255, 256, 257, 1000]


def positions(n, rng):
    """positions in 0..n-1 worth probing: the ends, the middle, both sides of every threshold"""
    ps = {0, n - 1, n // 2}
    for t in THRESHOLDS + [10, 11, 33, 49, 100]:
        for p in (t - 1, t):
            if 0 <= p < n:
                ps.add(p)
    ps = sorted(ps)
    return ps


def pick_pos(ps, j):
    """the j-th choice among the positions: two out of three choices fall into the upper half (beyond the thresholds)"""
    half = ps[len(ps) // 2:]
    return half[(j // 3) % len(half)] if j % 3 else ps[(j // 3) % len(ps)]


def bad_index(rng, C, S=None):
    c = [C, C, C + 1, -1, C + rng.choice([7, 64, 255, 256, 65536])]
    if S is not None and S > C:
        c += [rng.randrange(C, S)] * 3
    return rng.choice(c)


def wrap_n(core, n, pattern, rng, sibling=None):
    """n containers around `core`, respecting the grammar (no block directly inside a block of its own kind, no loop
    inside a parallel block).  -> (statement, kind of the outermost container)"""
    cur, kind = core, "gate"
    for _ in range(n):
        allowed = []
        if kind != "seq":
            allowed.append("seq")
        if kind not in ("par", "loop"):
            allowed.append("par")
        if pattern != "blocks":
            if kind != "seq":
                allowed += ["loopseq"] * (3 if pattern == "loops" else 1)
            if kind not in ("par", "loop"):
                allowed += ["looppar"] * (3 if pattern == "loops" else 1)
        c = rng.choice(allowed)
        if c == "seq":
            body = [cur]
            if sibling is not None and rng.random() < 0.15:
                body.insert(rng.randrange(2), sibling())
            cur, kind = {"k": "seq", "body": body}, "seq"
        elif c == "par":
            cur, kind = {"k": "par", "body": [cur]}, "par"
        elif c == "loopseq":
            cur, kind = {"k": "loop", "count": lit(1), "body": [cur]}, "loop"
        else:
            cur, kind = {"k": "loop", "count": lit(1), "par": True, "body": [cur]}, "loop"
    return cur, kind


def b_depth(rc, rng):
    pb = E.PB(rng)
    S = rng.choice([2, 3, 4])
    pb.reg("q", lit(S))
    v = rng.choice([0, S - 1]) if rc["mode"] == "valid" else bad_index(rng, S)
    src = rc["src"]
    pb.tags += [f"depth by {src}", f"depth pattern {rc['pattern']}"]
    if src in ("lit", "let", "ov"):
        core = gate("X", item("q", pb.expr(v, src, decl=0)))
    elif src == "macro_call":
        pb.macro("f", ["i"], [gate("X", item("q", ident("i")))])
        core = gate("f", anum(v))
    else:
        core = gate("X", item("q", ident("i")))

    def sibling():
        return gate("X", item("q", lit(rng.randrange(S))))

    nest, kind = wrap_n(core, rc["N"], rc["pattern"], rng, sibling)
    if src == "macro_body":
        if kind in ("seq", "par"):
            pb.macro("g", ["i"], nest["body"], par=(kind == "par"))
        else:
            pb.macro("g", ["i"], [nest])
        pb.top.append(gate("g", anum(v)))
    else:
        pb.top.append(nest)
    pb.top.append(gate("X", item("q", lit(0))))
    return E.finish(pb, "scale")


def b_macro_chain(rc, rng):
    pb = E.PB(rng)
    N, mode, variant, bad = rc["N"], rc["mode"], rc["variant"], rc.get("bad")
    S = rng.choice([2, 3, 4])
    pb.reg("q", lit(S))
    pb.let(1, name="n")
    j = rc.get("j", 0) % N
    pb.tags += [f"macro_chain {variant}"] + ([f"macro_chain defect {bad}"] if mode != "valid" else [])

    def body_wrap(call, k):
        if variant != "wrapbody":
            return [call]
        w = k % 4
        if w == 0:
            return [call]
        if w == 1:
            return [{"k": "par", "body": [call]}]
        if w == 2:
            return [{"k": "loop", "count": lit(1), "body": [call]}]
        return [{"k": "par", "body": [{"k": "seq", "body": [call]}]}]

    if variant == "swap":
        pb.macro("m0", ["a", "b"], [gate("CX", aid("a"), aid("b"))] if not (mode != "valid" and bad == "unknown") else [gate("Nope", aid("a"), aid("b"))])
        for k in range(1, N):
            swap = rng.random() < 0.5
            args = [aid("b"), aid("a")] if swap else [aid("a"), aid("b")]
            target = f"m{k - 1}"
            if mode != "valid" and k == max(j, 1):
                if bad == "arity":
                    args = args[:1] if rng.random() < 0.5 else args + [aid("a")]
                elif bad == "forward":
                    target = f"m{k + 1}"
            pb.macro(f"m{k}", ["a", "b"], [gate(target, *args)])
        x, y = rng.sample(range(S), 2)
        a0, a1 = item("q", lit(x)), item("q", lit(y))
        if mode != "valid":
            if bad == "index":
                a0 = item("q", lit(bad_index(rng, S)))
            elif bad == "kind":
                a1 = rng.choice([anum(1), aid("n"), aid("q")])
        pb.top.append(gate("X", item("q", lit(x))))
        pb.top.append(gate(f"m{N - 1}", a0, a1))
    else:
        bottom = gate("X", item("r", ident("i")))
        if mode != "valid" and bad == "unknown":
            bottom = gate(rng.choice(["Nope", "x", "m"]), item("r", ident("i")))
        pb.macro("m0", ["r", "i"], [bottom])
        for k in range(1, N):
            args = [aid("r"), aid("i")]
            target = f"m{k - 1}"
            if mode != "valid" and k == max(j, 1):
                if bad == "arity":
                    args = args[:1] if rng.random() < 0.5 else args + [aid("i")]
                elif bad == "forward":
                    target = f"m{k + 1}"
            pb.macro(f"m{k}", ["r", "i"], body_wrap(gate(target, *args), k))
        v = rng.choice([0, S - 1])
        rarg = aid("q")
        varg = rng.choice([anum(v), anum(v), aid("n") if S > 1 else anum(v)])
        if mode != "valid":
            if bad == "index":
                how = rng.choice(["lit", "let", "ov"])
                bv = bad_index(rng, S)
                varg = anum(bv) if how == "lit" else aid(pb.expr(bv, how, decl=0)["id"])
            elif bad == "kind":
                rarg = rng.choice([item("q", lit(0)), aid("n"), anum(0)])
        pb.top.append(gate(f"m{N - 1}", rarg, varg))
    return E.finish(pb, "scale")


def b_alias_chain(rc, rng):
    pb = E.PB(rng)
    N, mode, bad = rc["N"], rc["mode"], rc.get("bad")
    S = rng.choice([3, 4, 5, 6])
    pb.let(1, name="n")
    pb.reg("q", lit(S))
    pb.map_index("m", "q", lit(0))
    j = rc.get("j", 0) % N
    cur, C = "q", S
    shrink = rc.get("shrink", "any")
    pb.tags.append(f"alias_chain shrinks {shrink}")
    if mode != "valid":
        pb.tags.append(f"alias_chain defect {bad}")
    for k in range(N):
        name = f"a{k}"
        src = cur
        geo = E.geometry(pb, cur)
        C = geo[0] if geo else 1
        if mode != "valid" and k == j:
            if bad == "slice":
                how = rng.choice(["stop+1", "start-1", "rev", "start=size"])
                if how == "stop+1":
                    pb.map_slice(name, src, lit(0), lit(C + 1), None)
                elif how == "start-1":
                    pb.map_slice(name, src, lit(-1), lit(C), None)
                elif how == "rev":
                    pb.map_slice(name, src, lit(C), lit(-1), lit(-1))
                else:
                    pb.map_slice(name, src, lit(C), lit(C + 1), None)
                cur = name
                continue
            if bad == "nonreg":
                src = rng.choice(["n", "m"])
            elif bad == "forward":
                src = f"a{k + 1}"
            elif bad == "dup":
                name = f"a{k - 1}" if k > 0 else rng.choice(["q", "n", "m"])
        # where the chain SHRINKS: anywhere / only in the first links (next to the register) / only in the last links (the
        # register and the long lower part of the chain are bigger than the alias that is finally indexed)
        may_shrink = {"any": True, "early": k < 3, "late": k >= N - 3}[shrink]
        form = rng.choice(["whole"] * 5 + ["rev"] * 3 + ["full"] * 2 + (["tail", "head"] * (1 if shrink == "any" else 6) if C > 2 and may_shrink else [])
                          + (["stride"] if C >= 4 and may_shrink else []))
        if shrink == "late" and k == N - 1 and C > 2 and rng.random() < 0.6:
            form = "head"      # the alias finally indexed lacks the last qubit of its source: index C is one step outside it only
        if form == "whole":
            pb.map_whole(name, src)
        elif form == "rev":
            pb.map_slice(name, src, lit(C - 1), lit(-1), lit(-1))
        elif form == "full":
            pb.map_slice(name, src, rng.choice([None, lit(0)]), rng.choice([None, lit(C)]), rng.choice([None, lit(1)]))
        elif form == "tail":
            pb.map_slice(name, src, lit(1), rng.choice([None, lit(C)]), None)
        elif form == "head":
            pb.map_slice(name, src, None, lit(C - 1), None)
        else:
            pb.map_slice(name, src, lit(rng.randrange(2)), None, lit(2))
        if name == f"a{k}":
            cur = name
    geo = E.geometry(pb, cur)
    C = geo[0] if geo and geo[0] > 0 else 1
    v = rng.choice([0, C - 1])
    if mode != "valid" and bad == "index":
        # "near": the first index beyond the alias, which is still inside the register when the chain has shrunk
        v = rng.choice([C, C, rng.randrange(C, max(S, C + 1))]) if rc.get("near") else bad_index(rng, C, S)
    pb.top.append(gate("X", item(cur, pb.expr(v, rng.choice(["lit", "lit", "let"])))))
    if C >= 2 and rng.random() < 0.6:
        pb.top.append(gate("CX", item(cur, lit(0)), item(cur, lit(C - 1))))
    return E.finish(pb, "scale")


def b_names(rc, rng):
    pb = E.PB(rng)
    N, mode, sort, bad = rc["N"], rc["mode"], rc["sort"], rc.get("bad")
    S = rng.choice([2, 3, 4, 5])
    ps = positions(N, rng)
    j = pick_pos(ps, rc.get("j", 0))
    uses = sorted(set(rng.sample(ps, min(3, len(ps))) + [j]))
    pb.tags.append(f"names {sort}" + (f" defect {bad}" if mode != "valid" else ""))
    invalid = mode != "valid"
    if sort in ("lets", "ovdict"):
        for k in range(N):
            val = k % S
            if invalid and bad == "value" and k == j:
                val = bad_index(rng, S)
            pb.let(float(val) if (val >= 0 and rng.random() < 0.1) else val, name=f"v{k}")
        if invalid and bad == "dup":
            pb.header.insert(rng.choice([j + 1, N, N]), {"k": "let", "name": f"v{j}", "v": E.enc(j % S)})
        pb.reg("q", lit(S))
        if sort == "ovdict":
            for k in range(N):
                pb.ov.append([f"v{k}", (k + 1) % S])
            rng.shuffle(pb.ov)
        if invalid and bad == "ov":
            bv = bad_index(rng, S)
            if sort == "ovdict":
                for e in pb.ov:
                    if e[0] == f"v{j}":
                        e[1] = bv
            else:
                pb.ov.append([f"v{j}", bv])
        for u in uses:
            pb.top.append(gate("X", item("q", ident(f"v{u}"))))
        if invalid and bad == "undef":
            pb.top.append(gate("X", item("q", ident(f"v{N}"))))
        if invalid and bad == "asreg":
            pb.top.append(gate("X", item(f"v{j}", lit(0))))
    elif sort == "qaliases":
        pb.reg("q", lit(S))
        for k in range(N):
            i = k % S
            if invalid and bad == "value" and k == j:
                i = bad_index(rng, S)
            pb.map_index(f"a{k}", "q", lit(i))
        if invalid and bad == "dup":
            pb.header.insert(rng.choice([j + 2, N + 1, N + 1]), {"k": "map", "name": f"a{j}", "src": "q", "form": "index", "index": lit(j % S)})
        for u in uses:
            pb.top.append(gate("X", aid(f"a{u}")))
        if invalid and bad == "undef":
            pb.top.append(gate("X", aid(f"a{N}")))
        if invalid and bad == "asreg":
            pb.top.append(gate("X", item(f"a{j}", lit(0))))
    elif sort == "macros":
        pb.reg("q", lit(S))
        for k in range(N):
            i = k % S
            if invalid and bad == "value" and k == j:
                i = bad_index(rng, S)
            if k % 2:
                pb.macro(f"f{k}", ["p"], [gate("X", aid("p")), gate("X", item("q", lit(i)))])
            else:
                pb.macro(f"f{k}", [], [gate("X", item("q", lit(i)))])
            if invalid and bad == "dup" and k == j:
                pb.macro(f"f{k}", [], [gate("X", item("q", lit(0)))])
        for u in uses:
            extra = [anum(0)] if (invalid and bad == "asreg" and u == j) else []   # "asreg" = one argument too many
            if u % 2:
                pb.top.append(gate(f"f{u}", item("q", lit((u + 1) % S)), *extra))
            else:
                pb.top.append(gate(f"f{u}", *extra))
        if invalid and bad in ("undef", "ov"):
            pb.top.append(gate(f"f{N}"))
    else:  # params: one macro with N parameters
        pb.reg("q", lit(S))
        names = [f"p{k}" for k in range(N)]
        i = (j + 1) % N if N > 1 else 0
        body = [gate("X", aid(f"p{j}"))]
        if i != j:
            body.append(gate("X", item("q", ident(f"p{i}"))))
        pb.macro("g", names, body)
        args = [anum(k % 7) for k in range(N)]
        args[j] = item("q", lit(rng.randrange(S)))
        if i != j:
            args[i] = anum(rng.randrange(S))
        if invalid:
            if bad in ("value", "ov") and i != j:
                args[i] = anum(bad_index(rng, S))
            elif bad in ("undef", "dup"):
                args = args[:-1] if rng.random() < 0.5 else args + [anum(0)]
            else:
                args[j] = anum(0)
        pb.top.append(gate("g", *args))
    return E.finish(pb, "scale")


def b_statements(rc, rng):
    pb = E.PB(rng)
    N, mode, where, bad = rc["N"], rc["mode"], rc["where"], rc.get("bad")
    S = rng.choice([2, 3, 4])
    pb.reg("q", lit(S))
    pb.let(0, name="z")
    ps = positions(N, rng)
    j = pick_pos(ps, rc.get("j", 0))
    pb.tags.append(f"statements in {where}" + (f" defect {bad}" if mode != "valid" else ""))
    stmts = []
    for k in range(N):
        a = (k * 7 + 3) % S
        if S >= 2 and k % 5 == 4:
            st = gate("CX", item("q", lit(a)), item("q", lit((a + 1) % S)))
        else:
            st = gate("X", item("q", lit(a)))
        if mode != "valid" and k == j:
            st = {"index": gate("X", item("q", lit(bad_index(rng, S)))),
                  "unknown": gate("Nope", item("q", lit(a))),
                  "arity": gate("X", item("q", lit(a)), item("q", lit((a + 1) % S))),
                  "undef": gate("X", item("q", ident("zz"))),
                  "kind": gate("X", aid("z"))}[bad]
        stmts.append(st)
    if where == "top":
        pb.top.extend(stmts)
    elif where == "seq":
        pb.top.append({"k": "seq", "body": stmts})
    elif where == "loop":
        pb.top.append({"k": "loop", "count": lit(rng.choice([1, 2, 3])), "body": stmts})
    else:
        pb.macro("f", [], stmts)
        pb.top.append(gate("f"))
    return E.finish(pb, "scale")


def b_loops(rc, rng):
    pb = E.PB(rng)
    N, mode, src = rc["N"], rc["mode"], rc["src"]
    S = rng.choice([2, 3])
    pb.reg("q", lit(S))
    v = rng.randrange(S) if mode == "valid" else bad_index(rng, S)
    pb.tags.append(f"loop count by {src}")
    body = [gate("X", item("q", lit(v)))]
    if rng.random() < 0.4:
        body.append(gate("CX", item("q", lit(0)), item("q", lit(S - 1))) if S > 1 else gate("X", item("q", lit(0))))
    if src == "nested":
        n1 = rng.choice([d for d in (2, 3, 4, 5, 8, 16, 32) if d <= N])
        n2 = max(1, N // n1)
        pb.top.append({"k": "loop", "count": lit(n1), "body": [{"k": "loop", "count": lit(n2), "body": body}]})
    elif src == "macro":
        pb.macro("f", ["c"], [{"k": "loop", "count": ident("c"), "body": body}])
        pb.top.append(gate("f", anum(N)))
    else:
        ce = pb.expr(N, src, decl=rng.choice([1, 2]))
        pb.top.append({"k": "loop", "count": ce, "par": (len(body) == 1 and rng.random() < 0.3), "body": body})
    return E.finish(pb, "scale")


def b_qubits(rc, rng):
    pb = E.PB(rng)
    S, mode = rc["N"], rc["mode"]
    src = rc["src"]
    pb.tags.append(f"qubits size by {src}")
    if src == "shrink":
        pb.reg("q", pb.expr(S, "ov", decl=S + rng.choice([1, 2, 4])))
    elif src == "grow":
        pb.reg("q", pb.expr(S, "ov", decl=rng.choice([2, 8, S - 1])))
    else:
        pb.reg("q", pb.expr(S, src))
    pb.map_slice("hi", "q", lit(S - 3), rng.choice([None, lit(S)]), None)
    pb.map_slice("ev", "q", lit(0), None, lit(2))
    nev = (S + 1) // 2
    top = [gate("X", item("q", lit(S - 1))), gate("CX", item("q", lit(S - 1)), item("q", lit(0))),
           gate("CCX", item("q", lit(0)), item("q", lit(S - 1)), item("q", lit(S // 2))),
           gate("X", item("hi", lit(1))), gate("SWAP", item("ev", lit(nev - 1)), item("q", lit(1))),
           gate("X", item("q", lit(rng.randrange(8, S))))]
    if mode != "valid":
        how = rng.choice(["q", "q", "hi", "ev", "neg", "declared"] if src == "shrink" else ["q", "q", "hi", "ev", "neg"])
        badst = {"q": gate("X", item("q", lit(S + rng.choice([0, 0, 1])))), "hi": gate("X", item("hi", lit(3))),
                 "ev": gate("X", item("ev", lit(nev))), "neg": gate("X", item("q", lit(-1))),
                 "declared": gate("X", item("q", lit(S)))}[how]
        top.insert(rng.randrange(len(top) + 1), badst)
        pb.tags.append(f"qubits defect {how}")
    pb.top.extend(top)
    return E.finish(pb, "scale")


# ---------------------------------------------------------------------------------------------------------------
# identifiers

IDENT_RE = re.compile(r"[a-zA-Z_](\.?[a-zA-Z0-9_])*")
KEYWORDS = {"register", "map", "let", "macro", "loop", "import", "usepulses", "from", "as", "branch", "subcircuit"}

VALUE_BASES = ["x", "n", "i", "cal.x", "a.b.c", "q.q", "le", "lets", "loop_", "registers", "ma", "from.a", "as_", "usepulse",
               "__c10", "__c0", "__r0", "_", "__", "__x__", "prepare_al", "measure_all_", "prepare", "all", "pi", "self", "p0",
               "X", "CX", "True", "None", "e5", "x0", "__in_context__", "sequential", "parallel", "array_item", "gate", "circuit",
               "alias_from", "L255", "L256", "L1000"]
GATE_BASES = ["X", "CX", "F", "cal.Rx", "R", "Rx", "__macro__", "m.F", "a.b.X", "prepare", "measure", "prepare_all.x", "loop_",
              "macros", "le", "__c10", "_", "p0", "gate", "sequential_block", "L255", "L256", "L1000"]


def long_name(tag, rng):
    n = int(tag[1:])
    alphabet = "abcdefghijklmnopqrstuvwxyzABCDEFGHIJKLMNOPQRSTUVWXYZ_0123456789"
    return "L" + "".join(rng.choice(alphabet) for _ in range(n - 1))


def variants(n):
    out = ["ns." + n, n + "." + n, n + ".x", n + ".0", "a.b." + n, n + "_", "_" + n, "__" + n, n + "__", n + "0", n + n,
           "bogus." + n, n + ".bogus", "x." + n, n.swapcase(), n.upper(), n.lower()]
    if len(n) > 1:
        out += [n[:-1], n[1:] if IDENT_RE.fullmatch(n[1:] or "0") else n + "1"]
    if "." in n:
        out += [n.replace(".", "_"), n.rsplit(".", 1)[1], n.split(".", 1)[0], n.split(".", 1)[1], n.replace(".", "")]
    if "_" in n:
        out += [n.replace("_", "."), n.strip("_") or "u", n.replace("_", "")]
    if len(n) >= 250:
        last = "z" if n[-1] != "z" else "y"
        out = [n[:-1] + last, n + "x", n[:-1], n[:255], n[:256], n[:254] + last + n[255:], n[:255] + last + n[256:], "ns." + n, n + ".x",
               n[1:], n.swapcase()]
    seen, res = set(), []
    for v in out:
        if v and v != n and v not in seen and IDENT_RE.fullmatch(v) and v not in KEYWORDS:
            seen.add(v)
            res.append(v)
    return res


def scaffold(taken, *cands):
    for c in cands:
        if c not in taken:
            return c
    k = 0
    while f"{cands[0]}{k}" in taken:
        k += 1
    return f"{cands[0]}{k}"


def b_ident(rc, rng):
    role, mode = rc["role"], rc["mode"]
    base = rc["base"]
    n1 = long_name(base, rng) if re.fullmatch(r"L\d+", base) else base
    vs = variants(n1)
    n2 = vs[rc["v"] % len(vs)]
    if rc.get("flip"):
        n1, n2 = n2, n1
    taken = {n1, n2}
    pb = E.PB(rng)
    S = rng.choice([3, 4])
    Q = scaffold(taken, "q", "r", "reg")
    taken.add(Q)
    pb.tags += [f"ident role {role}", f"ident mode {mode}"]
    wrapk = rng.choice(["none", "none", "seq", "par", "loop", "macro"])
    prog_gates = None

    def place(stmts):
        for st in stmts:
            if wrapk == "none":
                pb.top.append(st)
            elif wrapk in ("seq", "par"):
                pb.top.append({"k": wrapk, "body": [st]})
            elif wrapk == "loop":
                pb.top.append({"k": "loop", "count": lit(rng.choice([1, 3])), "body": [st]})
            else:
                m = scaffold(taken, "w", "wr", "wrap")
                taken.add(m)
                pb.macro(m, [], [st])
                pb.top.append(gate(m))

    if role == "let":
        pb.let(1, name=n1)
        if mode in ("both", "dupother"):
            pb.let(2, name=n2)
        if mode == "dup":
            pb.let(rng.choice([1, 2]), name=n1)
        pb.reg(Q, lit(S))
        st = [gate("X", item(Q, ident(n1)))]
        if mode != "dup":
            st.append(gate("X", item(Q, ident(n2))))       # undefined when only n1 is defined
        place(st)
    elif role == "register":
        pb.reg(n1, lit(S))
        if mode == "both":
            pb.map_slice(n2, n1, lit(1), None, None)
        if mode == "dup":
            pb.map_whole(n1, n1)
        st = [gate("X", item(n1, lit(0)))]
        if mode != "dup":
            st.append(gate("X", item(n2, lit(1))))
        place(st)
    elif role == "qalias":
        pb.reg(Q, lit(S))
        pb.map_index(n1, Q, lit(0))
        if mode == "both":
            pb.map_index(n2, Q, lit(2))
        if mode == "dup":
            pb.map_index(n1, Q, lit(1))
        st = [gate("X", aid(n1))]
        if mode != "dup":
            st.append(gate("CX", aid(n1), aid(n2)))
        place(st)
    elif role == "param":
        pb.reg(Q, lit(S))
        f = scaffold(taken, "f", "fn", "mac")
        taken.add(f)
        if mode == "both":
            pb.macro(f, [n1, n2], [gate("CX", aid(n1), aid(n2))])
            place([gate("X", item(Q, lit(1))), gate(f, item(Q, lit(1)), item(Q, lit(2)))])
        elif mode == "dup":
            pb.macro(f, [n1], [gate("X", aid(n1))])
            pb.macro(f, [n1], [gate("X", aid(n1))])
            place([gate(f, item(Q, lit(0)))])
        else:
            pb.macro(f, [n1], [gate("X", aid(n1)), gate("X", aid(n2))])    # n2 is not a parameter
            place([gate(f, item(Q, lit(0)))])
    elif role == "macro":
        pb.reg(Q, lit(S))
        if mode == "wrongsig":
            pb.macro(n1, ["a"], [gate("X", aid("a"))])
            pb.macro(n2, ["a", "b"], [gate("CX", aid("a"), aid("b"))])
            place([gate(n1, item(Q, lit(0))), gate(n2, item(Q, lit(1)))])
        else:
            pb.macro(n1, ["a"], [gate("X", aid("a"))])
            if mode == "both":
                pb.macro(n2, ["a"], [gate("X", aid("a")), gate("X", item(Q, lit(S - 1)))])
            if mode == "dup":
                pb.macro(n1, ["a"], [gate("X", aid("a"))])
            st = [gate(n1, item(Q, lit(0)))]
            if mode != "dup":
                st.append(gate(n2, item(Q, lit(rng.choice([0, 1])))))     # sometimes word for word the first call's argument
            place(st)
    else:  # native gate: the program's own injected set
        pb.reg(Q, lit(S))
        specs = list(PM)
        std = {"X": gspec("X", ["qubit"], 1), "CX": gspec("CX", ["qubit", "qubit"], 3)}
        g1 = gspec(n1, ["qubit"], 1)
        g2 = gspec(n2, ["qubit", "qubit"], 2) if mode in ("both", "wrongsig") and rng.random() < 0.7 else gspec(n2, ["qubit"], 0)
        if mode == "wrongsig":
            g2 = gspec(n2, ["qubit", rng.choice(["qubit", "int", "float"])], 1)
        named = {g1["name"]: g1}
        if mode in ("both", "wrongsig"):
            named[g2["name"]] = g2
        for k, s in std.items():
            named.setdefault(k, s)
        specs += list(named.values())
        prog_gates = specs
        args2 = [item(Q, lit(rng.choice([0, 1])))]                         # sometimes word for word the first call's argument
        if mode == "both":
            for _p, kind in g2["params"][1:]:
                args2.append(item(Q, lit(2)) if kind == "qubit" else anum(1))
        if mode == "dup":
            f = n1
            pb.macro(f, ["a"], [gate(n1, aid("a"))])       # a macro named like a native gate
            place([gate(n1, item(Q, lit(0)))])
        else:
            place([gate(n1, item(Q, lit(0))), gate(n2, *args2)])
    prog = E.finish(pb, "ident")
    if prog_gates is not None:
        prog["gates"] = prog_gates
    prog["names"] = [n1[:60], n2[:60]]
    return prog


def b_values(rc, rng):
    """value kinds that only the S-expression / CircuitBuilder front ends can carry"""
    pb = E.PB(rng)
    S = rng.choice([2, 3])
    what = rc["what"]
    pb.tags.append(f"values {what}")
    notext = False
    if what == "npi size":
        pb.header.append({"k": "reg", "name": "q", "size": {"lit": {"npi": S}}})
    else:
        pb.reg("q", lit(S))
    v = rng.randrange(S) if rc["mode"] == "valid" else bad_index(rng, S)
    if what in ("npi index", "npi size"):
        pb.top.append(gate("X", item("q", {"lit": {"npi": v}})))
    elif what == "npf index":
        fv = float(v) if rc["mode"] == "valid" else rng.choice([float(S), v + 0.5 if v >= 0 else -0.5, 0.25])
        pb.top.append(gate("X", item("q", {"lit": {"npf": repr(fv)}})))
    elif what == "npi arg":
        pb.top.append(gate("P", item("q", {"lit": {"npi": v}}), {"t": "num", "v": {"npi": 3}}))
    elif what == "string index":
        notext = True
        if rc["mode"] == "valid":
            pb.let(v, name=str(v + 5))                       # a let NAMED "7": the string "7" is then a defined identifier
            pb.header.insert(0, pb.header.pop())
            pb.top.append(gate("X", item("q", ident(str(v + 5)))))
        else:
            pb.top.append(gate("X", item("q", ident(str(rng.randrange(S))))))   # "1" names nothing
    elif what == "string arg":
        notext = True
        s = rng.choice(["1", "0", "2.5", "-1", "1e3", "q[0]", "q[ 0 ]", " q", "0x1", ""])
        if rng.random() < 0.5:
            pb.top.append(gate("P", item("q", lit(0)), aid(s)))
        else:
            pb.top.append(gate("X", aid(s if "q" in s else "q[0]")))
    elif what == "string register":
        notext = True
        pb.top.append(gate("X", item(rng.choice(["q ", " q", "Q", "q[0]", "0"]), lit(0))))
    prog = E.finish(pb, "values")
    if notext:
        prog["notext"] = True
    return prog


def b_edge(rc, rng):
    prog = E.STREAMS[rc["gen"]](rng)
    prog["stream"] = "defaults"
    return prog


BUILDERS = {"depth": b_depth, "macro_chain": b_macro_chain, "alias_chain": b_alias_chain, "names": b_names,
            "statements": b_statements, "loops": b_loops, "qubits": b_qubits, "ident": b_ident, "values": b_values, "edge": b_edge}


def build_prog(rc):
    return BUILDERS[rc["kind"]](rc, random.Random(rc["r"]))


# ---------------------------------------------------------------------------------------------------------------
# gateset stream: ORDER and REPETITION of imports

G_POOL = [(["qubit"], 1), (["qubit"], 0), (["qubit", "qubit"], 1), (["qubit", "qubit"], 2), (["qubit", "qubit"], 3),
          (["qubit", "float"], 1), (["qubit", "int"], 1), (["float", "qubit"], 1), (["qubit", "float"], 0)]
PATTERNS = ["A", "AB", "BA", "ABA", "BAB", "AAB", "ABB", "ABAB", "ABCA", "ACB", "CAB", "ABCBA", "AkBA", "AkB", "ABk", "ABkA", "random"]
_MOD_COUNTER = [0]


def gs_scenario(rc):
    rng = random.Random(rc["r"])
    nq = rng.choice([2, 3])
    pool = list(G_POOL)
    rng.shuffle(pool)
    K = 3
    mods = []
    for m in range(K):
        gates = list(PM)
        kinds, mask = pool[m]
        gates.append({"name": "G", "params": [[f"a{i}", k] for i, k in enumerate(kinds)], "mask": mask})
        if rng.random() < 0.6:     # H is defined by some modules only
            kinds, mask = pool[K + m]
            gates.append({"name": "H", "params": [[f"b{i}", k] for i, k in enumerate(kinds)], "mask": mask})
        mods.append({"gates": gates, "style": rng.choice(["rel_file", "rel_file", "abs_file"])})
    pat = rc["pattern"]
    L = rc["L"]
    if pat == "random":
        seq = [rng.randrange(K) for _ in range(L)]
    elif "k" in pat:
        rep = max(1, L - (len(pat) - 2))
        seq = []
        i = 0
        while i < len(pat):
            c = "ABC".index(pat[i])
            if i + 1 < len(pat) and pat[i + 1] == "k":
                seq += [c] * rep
                i += 2
            else:
                seq.append(c)
                i += 1
    else:
        seq = ["ABC".index(c) for c in pat]
    inj = None
    if rc["inj"] == "G":
        kinds, mask = pool[2 * K]
        inj = list(PM) + [{"name": "G", "params": [[f"c{i}", k] for i, k in enumerate(kinds)], "mask": mask}]
    elif rc["inj"] == "other":
        inj = [gspec("X", ["qubit"], 1)]
    elif rc["inj"] == "empty":
        inj = []
    # where the other header statements sit among the imports
    slots = sorted(rng.randrange(len(seq) + 1) for _ in range(2))
    return {"nq": nq, "mods": mods, "seq": seq, "inj": inj, "slots": slots, "auto": rc["auto"], "entry": rc["entry"]}


def gs_in_force(scn):
    if scn["inj"] is None and not scn["auto"]:
        return None
    Eforce = {}
    if scn["auto"]:
        for m in scn["seq"]:                     # later usepulses override earlier imports
            for g in scn["mods"][m]["gates"]:
                Eforce[g["name"]] = g
    for g in scn["inj"] or []:                   # inject_pulses overrides usepulses
        Eforce[g["name"]] = g
    return Eforce


def gs_fitting_args(spec, nq, rng):
    free = list(range(nq))
    rng.shuffle(free)
    args = []
    for _pn, k in spec["params"]:
        if k == "qubit":
            args.append(("q", free.pop()))
        elif k == "int":
            args.append(("i", rng.randrange(4)))
        else:
            args.append(("f", rng.choice([0.25, 1.5, -0.5])))
    return args


def gs_calls(scn, rc):
    """one call per candidate definition of G / H (modules and injected), an unknown name, an index outside"""
    rng = random.Random(rc["r"] + 1)
    cands = []
    for src in [m["gates"] for m in scn["mods"]] + [scn["inj"] or []]:
        for g in src:
            if not g.get("busy") and g["name"] in ("G", "H"):
                cands.append(g)
    calls, seen = [], set()
    for g in cands:
        args = gs_fitting_args(g, scn["nq"], rng)
        key = json.dumps([g["name"], [a[0] for a in args]])
        if key in seen and rng.random() < 0.5:
            continue
        seen.add(key)
        calls.append({"name": g["name"], "args": args})
    calls.append({"name": "Nope", "args": [("q", 0)]})
    if cands:
        g = rng.choice(cands)
        args = gs_fitting_args(g, scn["nq"], rng)
        args = [(t, scn["nq"]) if t == "q" else (t, v) for t, v in args]
        calls.append({"name": g["name"], "args": args})
    return calls


def gs_expect(scn, call):
    """None (nothing in force) | {"accept": bool, "state": int | None, "why": str}"""
    F = gs_in_force(scn)
    if F is None:
        return None
    if not all(n in F and F[n].get("busy") for n in ("prepare_all", "measure_all")):
        return {"accept": False, "state": None, "why": "prepare_all / measure_all are not in force"}
    spec = F.get(call["name"])
    if spec is None:
        return {"accept": False, "state": None, "why": f"no gate {call['name']} in force"}
    if len(spec["params"]) != len(call["args"]):
        return {"accept": False, "state": None, "why": f"{call['name']} in force takes {len(spec['params'])} arguments"}
    for (_pn, kind), (t, v) in zip(spec["params"], call["args"]):
        if t == "q" and not 0 <= v < scn["nq"]:
            return {"accept": False, "state": None, "why": "index outside the register"}
        if (kind == "qubit") != (t == "q") or (kind == "int" and t != "i"):
            return {"accept": False, "state": None, "why": f"{call['name']} in force wants {[k for _p, k in spec['params']]}"}
    bits = [0] * scn["nq"]
    if I._has_unitary(spec):
        qs = [v for t, v in call["args"] if t == "q"]
        for k, q in enumerate(qs):
            if (spec["mask"] >> k) & 1:
                bits[q] ^= 1
    return {"accept": True, "state": sum(b << q for q, b in enumerate(bits)), "why": "", "spec": spec}


class GsFiles:
    """the scenario's gate modules on disk: fresh unique module names (nothing cached in sys.modules can shadow them)"""

    def __init__(self, scn, root):
        self.root = root
        self.names, self.prefixes = [], []
        for m in scn["mods"]:
            _MOD_COUNTER[0] += 1
            base = f"c14scale{os.getpid()}x{_MOD_COUNTER[0]}"
            self.prefixes.append(base)
            with open(os.path.join(root, base + ".py"), "w") as fd:
                fd.write(I.MODULE_TEMPLATE % (json.dumps(m["gates"]), I._TAIL_CLASS))
            self.names.append(("." if m["style"].startswith("rel") else "") + base)
        importlib.invalidate_caches()
        self._nfile = 0

    def text(self, scn, call):
        head = [f"from {self.names[m]} usepulses *" for m in scn["seq"]]
        other = ["let n 1", f"register q[{scn['nq']}]"]
        # `let` goes to the first slot and `register` to the second (positions refer to the import list)
        lines = []
        s0, s1 = scn["slots"]
        for k in range(len(head) + 1):
            if k == s0:
                lines.append(other[0])
            if k == s1:
                lines.append(other[1])
            if k < len(head):
                lines.append(head[k])
        args = " ".join(f"q[{v}]" if t == "q" else (str(v) if t == "i" else repr(float(v))) for t, v in call["args"])
        lines += ["prepare_all", (call["name"] + " " + args).strip(), "measure_all"]
        return "\n".join(lines) + "\n"

    def program_file(self, text):
        self._nfile += 1
        p = os.path.join(self.root, f"prog{os.getpid()}_{_MOD_COUNTER[0]}_{self._nfile}.jaqal")
        with open(p, "w") as fd:
            fd.write(text)
        return p

    def forget(self):
        for k in [k for k in sys.modules if any(k == p or k.startswith(p + ".") for p in self.prefixes)]:
            del sys.modules[k]


def gs_check(rc, root):
    """-> [(oracle, ok, detail, extra case fields)], facts"""
    L, L2 = lib(), lib2()
    scn = gs_scenario(rc)
    files = GsFiles(scn, root)
    inject = None if scn["inj"] is None else {s["name"]: I.make_def(s) for s in scn["inj"]}
    results, facts = [], []
    F = gs_in_force(scn)
    try:
        for ci, call in enumerate(gs_calls(scn, rc)):
            exp = gs_expect(scn, call)
            text = files.text(scn, call)
            entry = scn["entry"]
            extra = {"call": ci, "text": text}

            def enter():
                if entry == "parse_string":
                    return L["parse_jaqal_string"](text, inject_pulses=inject, autoload_pulses=scn["auto"], import_path=root)
                if entry == "parse_file":
                    return L2["parse_jaqal_file"](files.program_file(text), inject_pulses=inject, autoload_pulses=scn["auto"])
                if entry == "build_sexpr":
                    return L["core_build"](L["parse_to_sexpression"](text), inject_pulses=inject, autoload_pulses=scn["auto"], import_path=root)
                if entry == "parse_flags":
                    return L["parse_jaqal_string"](text, None, True, True, False, False, inject, scn["auto"], root)
                raise ValueError(entry)

            if entry == "run_string":
                r = guarded(lambda: L2["run_jaqal_string"](text, import_path=root))
                circ, res = None, r
            else:
                r = guarded(enter)
                circ, res = (r[1] if r[0] == "ok" else None), None
            if r[0] == "hang":
                results.append(("terminates", False, f"{entry}: no answer within {_T.limit()} s", extra))
                continue
            results.append(("terminates", True, "", extra))
            if exp is None:
                facts.append("gateset: no native gate set in force (not judged)")
                continue
            seqtxt = "".join("ABC"[m] for m in scn["seq"])
            ctx = (f"imports {seqtxt[:40]}{'...' if len(seqtxt) > 40 else ''} (autoload={scn['auto']}, injected="
                   f"{None if scn['inj'] is None else [s['name'] for s in scn['inj']]}), call {call['name']} {call['args']}")
            if not exp["accept"]:
                if r[0] == "ok" and entry != "run_string":
                    # literal call: the defect is known while parsing
                    r2 = guarded(lambda: L["run_jaqal_circuit"](circ))
                    results.append(("invalid_reference_rejected", r2[0] != "ok", f"accepted and run; {exp['why']}; {ctx}", extra))
                    results.append(("rejected_when_known", False, f"the entry point {entry} accepted a literal call that cannot be honoured "
                                    f"({exp['why']}); {ctx}", extra))
                    facts.append("gateset invalid: ACCEPTED by the entry point")
                elif r[0] == "ok":
                    results.append(("invalid_reference_rejected", False, f"run_jaqal_string ran it; {exp['why']}; {ctx}", extra))
                    facts.append("gateset invalid: ACCEPTED")
                else:
                    results.append(("invalid_reference_rejected", True, "", extra))
                    results.append(("rejected_when_known", True, "", extra))
                    results.append(("rejection_is_jaqalerror", r[0] == "jaqal", f"{entry} raised {r[1:]} instead of JaqalError; {exp['why']}; {ctx}", extra))
                    facts.append("gateset invalid: refused")
                continue
            if r[0] != "ok":
                facts.append(f"gateset valid: refused ({'JaqalError' if r[0] == 'jaqal' else r[1]})")
                continue
            facts.append("gateset valid: accepted")
            bad = []
            if circ is not None:
                want = I.expected_fp(exp["spec"])
                got_native = I.fingerprint(circ.native_gates[call["name"]]) if call["name"] in circ.native_gates else None
                if got_native != want:
                    bad.append(f"circuit.native_gates[{call['name']!r}] is {got_native}, in force is {want}")
                for nm, fp in I.native_bindings(circ):
                    if nm == call["name"] and fp != want:
                        bad.append(f"the statement is bound to {fp}, in force is {want}")
                r2 = guarded(lambda: L["run_jaqal_circuit"](circ))
                if r2[0] != "ok":
                    facts.append("gateset valid: refused by the emulator")
                    res = None
                else:
                    res = r2
            if res is not None and res[0] == "ok":
                np = L["numpy"]
                g = guarded(lambda: res[1].subcircuits[0].state_vector)
                if g[0] != "ok":
                    bad.append(f"no state vector: {g[1:]}")
                else:
                    v = np.abs(np.asarray(g[1]))
                    hit = int(np.argmax(v))
                    if abs(v[hit] - 1) > 1e-9 or hit != exp["state"]:
                        bad.append(f"emulator ended in basis state {hit}, the definition in force gives {exp['state']}")
            results.append(("accepted_runs_on_reference_qubits", not bad, "; ".join(bad) + "; " + ctx, extra))
    finally:
        files.forget()
    return results, facts, scn


# ---------------------------------------------------------------------------------------------------------------
# qsyn stream: many anonymous lets


def qs_plan(rc):
    rng = random.Random(rc["r"])
    N = rc["N"]
    S = rng.choice([3, 4, 5])
    vals = [k % S for k in range(N)]
    names = [None] * N
    # user lets that bear names of the library's template, placed anywhere (also AFTER the anonymous ones they collide with)
    for nm in rng.sample([f"__c{k}" for k in (0, 1, 2, 3, 9, 10, 11, N - 2, N - 1, N)], rng.choice([0, 1, 2, 4])):
        names[rng.randrange(N)] = nm
    used = {}
    for k, nm in enumerate(names):
        if nm is not None:
            if nm in used:
                names[k] = None
            used[nm] = k
    ps = positions(N, rng)
    uses = sorted(set(rng.sample(ps, min(4, len(ps))) + [k for k, nm in enumerate(names) if nm is not None]))
    if rc["mode"] != "valid":
        j = rng.choice(uses)
        vals[j] = bad_index(rng, S)
    regname = rng.choice([None, None, "__r0", "q", "__c1" if "__c1" not in used else None])
    userlet_r0 = rng.random() < 0.3 and regname is None
    return {"N": N, "S": S, "vals": vals, "names": names, "uses": uses, "regname": regname, "userlet_r0": userlet_r0}


def qs_check(rc):
    L, L2 = lib(), lib2()
    plan = qs_plan(rc)
    S = plan["S"]

    def body(Q):
        lets = [Q.let(v, nm) if nm is not None else Q.let(v) for v, nm in zip(plan["vals"], plan["names"])]
        if plan["userlet_r0"]:
            Q.let(0, "__r0")
        r = Q.register(S, plan["regname"]) if plan["regname"] is not None else Q.register(S)
        for u in plan["uses"]:
            Q.X(r[lets[u]])

    invalid = any(not 0 <= plan["vals"][u] < S for u in plan["uses"])
    bits = [0] * S
    flat = []
    if not invalid:
        for u in plan["uses"]:
            bits[plan["vals"][u]] ^= 1
            flat.append(["X", [["q", plan["vals"][u]]]])
    state = sum(b << q for q, b in enumerate(bits))
    results, facts = [], []
    stages = [("qsyntax", lambda c: L2["qcircuit"](inject_pulses=L["GATES"])(body)()),
              ("fill", lambda c: L["fill_in_let"](c)), ("expand", lambda c: L["expand_macros"](c))]
    circ, refused = None, None
    for name, f in stages:
        r = guarded(lambda f=f, circ=circ: f(circ))
        if r[0] == "hang":
            return [("terminates", False, f"{name}: no answer", {})], facts
        if r[0] != "ok":
            refused = (name, r)
            break
        circ = r[1]
    final = None
    if refused is None:
        r = guarded(lambda: L["run_jaqal_circuit"](circ))
        if r[0] == "hang":
            return [("terminates", False, "run: no answer", {})], facts
        if r[0] != "ok":
            refused = ("run", r)
        else:
            final = r[1]
    results.append(("terminates", True, "", {}))
    ctx = f"{plan['N']} lets, user names {[n for n in plan['names'] if n]}, register {plan['regname']!r}, indices by lets {plan['uses']}"
    if invalid:
        if refused is None:
            results.append(("invalid_reference_rejected", False, f"a let used as index has a value outside 0..{S - 1}: accepted and run; {ctx}", {}))
            facts.append("qsyn invalid: ACCEPTED")
        else:
            results.append(("invalid_reference_rejected", True, "", {}))
            results.append(("rejected_when_known", refused[0] in ("qsyntax", "fill"), f"refused only by {refused[0]}: {refused[1][1:]}; {ctx}", {}))
            results.append(("rejection_is_jaqalerror", refused[1][0] == "jaqal", f"{refused[0]} raised {refused[1][1:]}; {ctx}", {}))
            facts.append(f"qsyn invalid: refused at {refused[0]}")
        return results, facts
    if refused is not None:
        facts.append(f"qsyn valid: refused at {refused[0]} ({'JaqalError' if refused[1][0] == 'jaqal' else refused[1][1]})")
        return results, facts
    facts.append("qsyn valid: accepted")
    bad = []
    g = guarded(lambda: observe_flat(circ))
    if g[0] != "ok":
        bad.append(f"a qubit does not resolve: {g[1:]}")
    else:
        got = [c for c in g[1] if c[0] == "X"]
        if not E.same_flat(flat, got):
            bad.append(f"circuit applies X to {[c[1][0][1] for c in got]}, the lets say {[c[1][0][1] for c in flat]}")
    g = guarded(lambda: final.subcircuits[0].state_vector)
    if g[0] == "ok":
        np = L["numpy"]
        v = np.abs(np.asarray(g[1]))
        hit = int(np.argmax(v))
        if abs(v[hit] - 1) > 1e-9 or hit != state:
            bad.append(f"emulator ended in basis state {hit}, the reference in {state}")
    results.append(("accepted_runs_on_reference_qubits", not bad, "; ".join(bad) + "; " + ctx, {}))
    return results, facts


# ---------------------------------------------------------------------------------------------------------------
# recipes

ORACLES = ["invalid_reference_rejected", "rejected_when_known", "rejection_is_jaqalerror", "accepted_runs_on_reference_qubits",
           "terminates"]


def pick_size(rng, lo, hi, thorough, cheap=False):
    c = [s for s in SIZES if lo <= s <= hi]
    if not thorough and not cheap:
        # quick: mostly the smaller thresholds, each big one now and then
        small = [s for s in c if s <= 70]
        if small and rng.random() < 0.6:
            return rng.choice(small)
    return rng.choice(c)


def gen_recipe(stream, rng, thorough):
    r = rng.getrandbits(48)
    mode = rng.choice(["valid", "valid", "bad", "bad", "bad"])
    if stream == "scale":
        kind = rng.choice(["depth", "depth", "macro_chain", "macro_chain", "alias_chain", "alias_chain", "names", "names", "names",
                           "statements", "statements", "loops", "qubits"])
        rc = {"stream": stream, "kind": kind, "r": r, "mode": mode}
        if kind == "depth":
            rc["pattern"] = rng.choice(["blocks", "mixed", "loops"])
            rc["src"] = rng.choice(["lit", "let", "ov", "macro_call", "macro_body"])
            hi = 200 if rc["pattern"] == "blocks" else 100
            rc["N"] = pick_size(rng, 7, hi, thorough)
        elif kind == "macro_chain":
            rc["variant"] = rng.choice(["fwd", "swap", "wrapbody"])
            rc["bad"] = rng.choice(["index", "index", "arity", "forward", "kind", "unknown"])
            rc["N"] = pick_size(rng, 7, 257 if DEEP else (130 if rc["variant"] != "wrapbody" else 65), thorough)
            rc["j"] = rng.choice([1, rc["N"] - 1, rc["N"] // 2, 8, 16, 32, 33, 64, 65, 100])
        elif kind == "alias_chain":
            rc["bad"] = rng.choice(["index", "index", "slice", "nonreg", "forward", "dup"])
            # fill_in_let takes ~1.3 s on a chain of 100 slices, ~4 s on 130: big chains are rare in the quick tier
            rc["N"] = pick_size(rng, 7, (130 if rng.random() < 0.15 else 65) if thorough else rng.choice([100] + [65] * 6 + [49] * 25), thorough)
            rc["j"] = rng.choice([0, rc["N"] - 1, rc["N"] - 1, rc["N"] // 2, 8, 16, 32, 33, 64, 65, 100])
            rc["shrink"] = rng.choice(["any", "early", "late", "late"])
            rc["near"] = rng.random() < 0.5
        elif kind == "names":
            rc["sort"] = rng.choice(["lets", "lets", "ovdict", "qaliases", "macros", "params"])
            rc["bad"] = rng.choice(["value", "ov", "dup", "undef", "asreg"])
            rc["N"] = pick_size(rng, 7, 257 if rc["sort"] in ("params", "macros") else 1000, thorough, cheap=True)
            rc["j"] = rng.randrange(64)
        elif kind == "statements":
            rc["where"] = rng.choice(["top", "seq", "loop", "macro"])
            rc["bad"] = rng.choice(["index", "index", "unknown", "arity", "undef", "kind"])
            rc["N"] = pick_size(rng, 7, 1000, thorough, cheap=True)
            rc["j"] = rng.randrange(64)
        elif kind == "loops":
            rc["src"] = rng.choice(["lit", "let", "ov", "macro", "nested"])
            rc["N"] = pick_size(rng, 7, 1000, thorough, cheap=True)
        else:
            rc["src"] = rng.choice(["lit", "lit", "let", "shrink", "grow"])
            rc["N"] = rng.choice([9, 10, 11, 12, 13, 14] if thorough else [9, 10, 10, 11, 12, 12, 13, 14])
        return rc
    if stream == "ident":
        role = rng.choice(["let", "register", "qalias", "param", "macro", "macro", "gate", "gate", "gate"])
        base = rng.choice(GATE_BASES if role in ("macro", "gate") else VALUE_BASES)
        if rng.random() < 0.15:
            base = rng.choice(["L255", "L256", "L257", "L300", "L1000", "L5000"])
        modes = {"let": ["both", "both", "undef", "undef", "dup"], "register": ["both", "both", "undef", "undef", "dup"],
                 "qalias": ["both", "both", "undef", "undef", "dup"], "param": ["both", "both", "undef", "undef", "dup"],
                 "macro": ["both", "both", "undef", "undef", "wrongsig", "dup"],
                 "gate": ["both", "both", "both", "undef", "undef", "undef", "wrongsig", "wrongsig", "dup"]}[role]
        return {"stream": stream, "kind": "ident", "r": r, "role": role, "base": base, "v": rng.randrange(64), "mode": rng.choice(modes),
                "flip": rng.random() < 0.3}
    if stream == "values":
        return {"stream": stream, "kind": "values", "r": r, "mode": mode,
                "what": rng.choice(["npi index", "npi size", "npf index", "npi arg", "string index", "string arg", "string register"])}
    if stream == "defaults":
        return {"stream": stream, "kind": "edge", "r": r, "gen": rng.choice(["refs", "refs", "refs", "nonreg", "names", "calls"])}
    if stream == "gateset":
        auto = rng.random() < 0.8
        inj = rng.choice([None, None, None, "G", "other", "empty"]) if auto else rng.choice(["G", "G", "other"])
        entry = rng.choice(["parse_string", "parse_string", "parse_file", "build_sexpr", "parse_flags", "run_string"])
        if entry == "run_string" and (not auto or inj is not None):
            entry = "parse_string"
        pat = rng.choice(PATTERNS)
        L = rng.choice([4, 5, 8, 9, 16, 17, 33] + ([64, 65] if thorough else []))
        return {"stream": stream, "kind": "gateset", "r": r, "pattern": pat, "L": L, "auto": auto, "inj": inj, "entry": entry}
    if stream == "qsyn":
        return {"stream": stream, "kind": "qsyn", "r": r, "mode": rng.choice(["valid", "bad"]), "N": rng.choice([9, 10, 11, 12, 13, 14, 33, 100, 101])}
    raise ValueError(stream)


def grid_recipes(rng, thorough):
    """The part of every run that does not depend on luck: each (dimension x defect) once with a size beyond the
    thresholds (incidental choices from the seed); thorough adds the valid twin of every recipe."""
    def R():
        return rng.getrandbits(48)

    out = []
    for bad in ["index", "slice", "nonreg", "forward", "dup"]:
        n = rng.choice([33, 34, 40])
        out.append({"stream": "scale", "kind": "alias_chain", "r": R(), "mode": "bad", "bad": bad, "N": n, "j": rng.choice([n - 1, n - 2, 33]),
                    "shrink": "late", "near": True})
    out.append({"stream": "scale", "kind": "alias_chain", "r": R(), "mode": "bad", "bad": "index", "N": 65, "j": 64, "shrink": "late", "near": True})
    for bad in ["index", "arity", "forward", "kind", "unknown"]:
        # a wrong kind is what the call of the definition during substitution checks: the two-qubit (swap) variant
        variant = "swap" if bad == "kind" else rng.choice(["fwd", "swap", "wrapbody"])
        n = 65 if variant == "wrapbody" else rng.choice([65, 100, 129])
        out.append({"stream": "scale", "kind": "macro_chain", "r": R(), "mode": "bad", "variant": variant, "bad": bad, "N": n,
                    "j": rng.choice([n - 1, 33, 64])})
    for sort in ["lets", "ovdict", "qaliases", "macros", "params"]:
        for bad in ["value", "ov", "dup", "undef", "asreg"]:
            out.append({"stream": "scale", "kind": "names", "r": R(), "mode": "bad", "sort": sort, "bad": bad,
                        "N": rng.choice([65, 100, 129, 257]), "j": 1 + 3 * rng.randrange(20)})
    for bad in ["index", "unknown", "arity", "undef", "kind"]:
        out.append({"stream": "scale", "kind": "statements", "r": R(), "mode": "bad", "where": rng.choice(["top", "seq", "loop", "macro"]),
                    "bad": bad, "N": rng.choice([129, 257, 300]), "j": 1 + 3 * rng.randrange(20)})
    for src in ["lit", "let", "ov", "macro_call", "macro_body"]:
        out.append({"stream": "scale", "kind": "depth", "r": R(), "mode": "bad", "pattern": rng.choice(["blocks", "mixed", "loops"]),
                    "src": src, "N": rng.choice([33, 40, 65])})
    for src in ["lit", "let", "ov", "macro", "nested"]:
        out.append({"stream": "scale", "kind": "loops", "r": R(), "mode": rng.choice(["valid", "bad"]), "src": src, "N": rng.choice([65, 129, 257])})
    out.append({"stream": "scale", "kind": "qubits", "r": R(), "mode": "bad", "src": rng.choice(["lit", "let", "shrink"]), "N": rng.choice([11, 12])})
    out.append({"stream": "scale", "kind": "qubits", "r": R(), "mode": "valid", "src": "lit", "N": rng.choice([13, 14])})
    for role in ["let", "register", "qalias", "param", "macro", "gate"]:
        out.append({"stream": "ident", "kind": "ident", "r": R(), "role": role, "base": rng.choice(["L256", "L300", "L1000"]), "v": rng.randrange(64),
                    "mode": "undef", "flip": rng.random() < 0.5})
    for role in ["macro", "gate"]:
        out.append({"stream": "ident", "kind": "ident", "r": R(), "role": role, "base": rng.choice(["L256", "L300", "X", "cal.Rx"]),
                    "v": rng.randrange(64), "mode": "wrongsig", "flip": False})
    for role, base in [("gate", "X"), ("gate", "cal.Rx"), ("macro", "F"), ("macro", "m.F"), ("let", "x"), ("qalias", "cal.x")]:
        # a dotted prefix / suffix / repetition in front of a defined name (variants 0-4, 11-13 of `variants`)
        out.append({"stream": "ident", "kind": "ident", "r": R(), "role": role, "base": base, "v": rng.choice([0, 1, 2, 4, 11, 12, 13]),
                    "mode": "undef", "flip": False})
    for pat in ["ABA", "BAB", "AkBA", "ABAB"]:
        for inj in [None, "G"]:
            out.append({"stream": "gateset", "kind": "gateset", "r": R(), "pattern": pat, "L": rng.choice([4, 9, 17]), "auto": True, "inj": inj,
                        "entry": rng.choice(["parse_string", "parse_file", "build_sexpr"])})
    if DEEP:    # the finding of the module docstring
        out.append({"stream": "scale", "kind": "macro_chain", "r": R(), "mode": "bad", "variant": "fwd", "bad": "index", "N": 200, "j": 3})
        out.append({"stream": "scale", "kind": "macro_chain", "r": R(), "mode": "bad", "variant": "swap", "bad": "kind", "N": 257, "j": 3})
    if thorough:
        twins = []
        for rc in out:
            if rc.get("mode") == "bad":
                twins.append({**rc, "mode": "valid", "r": R()})
            elif rc["kind"] == "ident":
                twins.append({**rc, "mode": "both", "r": R()})
        out += twins
    return out


WEIGHTS = [("scale", 10), ("ident", 8), ("gateset", 3), ("defaults", 3), ("values", 1), ("qsyn", 1)]


def plan_streams(rng, n):
    tot = sum(w for _s, w in WEIGHTS)
    names = []
    for s, w in WEIGHTS:
        names += [s] * max(1, (n * w) // tot)
    while len(names) < n:
        names.append("scale")
    rng.shuffle(names)
    return names


def choose_pipes(rng, prog, text, thorough, stream, rc=None):
    ps = applicable(prog, text)
    if not ps:
        return ps
    if thorough:
        # long chains / deep nests are slow in the library (fill_in_let: ~1.3 s on 100 sliced aliases): a sample of pipelines
        heavy = rc is not None and ((rc["kind"] in ("alias_chain", "depth", "macro_chain") and rc.get("N", 0) > 40)
                                    or (rc["kind"] == "qubits" and rc["N"] >= 13))
        if heavy:
            k = 3 if (rc["kind"] == "alias_chain" and rc["N"] > 64) else 6
            groups = [[p for p in ("A", "B", "C") if p in ps], [p for p in DEFAULT_PIPES if p in ps], [p for p in OBJ_PIPES if p in ps]]
            chosen = [rng.choice(g) for g in groups if g]
            rest = [p for p in ps if p not in chosen]
            rng.shuffle(rest)
            return (chosen + rest)[:k]
        return ps
    if stream == "defaults":
        first = [p for p in DEFAULT_PIPES if p in ps]
        rng.shuffle(first)
        return first[:3]
    first = [p for p in ("A", "B", "C") if p in ps]
    chosen = [rng.choice(first)] if first else []
    dflt = [p for p in DEFAULT_PIPES if p in ps]
    if dflt:
        chosen.append(rng.choice(dflt))
    rest = [p for p in ps if p not in chosen]
    rng.shuffle(rest)
    return chosen + rest[: 3 - len(chosen)]


def prog_text(prog):
    if prog.get("notext"):
        return None
    try:
        return E.render_text(prog)
    except E.NoText:
        return None


def short(text, n=1500):
    if text is None:
        return None
    return text if len(text) <= n else text[: n // 2] + f"\n... ({len(text)} characters) ...\n" + text[-n // 2:]


def run_recipe(rc, pipes, root, report, count):
    """-> summary for samples"""
    if rc["kind"] == "gateset":
        results, facts, scn = gs_check(rc, root)
        for name, ok, detail, extra in results:
            report(name, ok, {"recipe": rc, **extra}, detail)
        for f in facts:
            count(f)
        count(f"gateset pattern {rc['pattern']}")
        count(f"gateset entry {rc['entry']}")
        count(f"gateset imports {len(scn['seq'])}")
        count(f"gateset autoload={rc['auto']} injected={rc['inj']}")
        return {"recipe": rc}
    if rc["kind"] == "qsyn":
        results, facts = qs_check(rc)
        for name, ok, detail, _extra in results:
            report(name, ok, {"recipe": rc}, detail)
        for f in facts:
            count(f)
        count(f"qsyn lets {rc['N']}")
        return {"recipe": rc}
    prog = build_prog(rc)
    verdict = judge(prog)
    text = prog_text(prog)
    if text is None:
        count("no text form (S-expression / CircuitBuilder only)")
    ps = applicable(prog, text)
    todo = [p for p in pipes(prog, text) if p in ps] if callable(pipes) else [p for p in pipes if p in ps] or ps
    for pipe in todo:
        results, facts = check(prog, pipe, verdict, text)
        case = {"recipe": rc, "pipe": pipe, "override": prog["ov"][:8], "text": short(text)}
        for name, ok, detail in results:
            report(name, ok, case, detail)
        for f in facts:
            count(f)
            count(f"{rc['stream']}: {f.split(' at ')[0].split(' (')[0]}")
        count(f"pipeline {pipe}")
    for t in prog["tags"]:
        count(t)
    if "N" in rc:
        n = rc["N"]
        count(f"{rc['kind']} size " + ("< 8" if n < 8 else next(f">= {t}" for t in reversed(THRESHOLDS) if n >= t)))
    count("reference: " + ("ambiguous" if verdict["ambiguous"] else "invalid" if verdict["invalid"][(True, True)] else "valid"))
    if verdict["invalid"][(True, True)] and not verdict["ambiguous"]:
        for d in verdict["defects"][:1]:
            count("defect " + d.split(":")[0])
    if verdict["state"] is not None:
        count("final state checked in the emulator")
    return {"recipe": rc, "text": short(text, 400), "override": prog["ov"][:4], "names": prog.get("names"),
            "reference": {"invalid": verdict["invalid"][(True, True)], "defects": verdict["defects"], "ambiguous": verdict["ambiguous"],
                          "state": verdict["state"]}, "pipelines": todo}


def run(seed: int, n: int, driver: str = DEFAULT_DRIVER, thorough: bool = False) -> dict:
    lib2()
    rng = random.Random(f"c14_scale/{seed}/{int(bool(thorough))}")
    oracle = {o: {"cases": 0, "failures": []} for o in ORACLES}
    dist = collections.Counter()
    samples = []
    distinct = set()

    def report(name, ok, case, detail):
        o = oracle[name]
        o["cases"] += 1
        if not ok:
            if len(o["failures"]) < 20:
                o["failures"].append({"case": case, "detail": detail[:1500]})
            else:
                o["failures_not_listed"] = o.get("failures_not_listed", 0) + 1

    def count(f):
        dist[f] += 1

    root = tempfile.mkdtemp(prefix="c14scale")
    sys.path.insert(0, root)
    try:
        grid = grid_recipes(random.Random(rng.getrandbits(64)), thorough) if n >= 100 else []
        todo = [(rc["stream"], rc) for rc in grid] + [(st, None) for st in plan_streams(rng, max(1, n - len(grid)))]
        for stream, rc in todo:
            sub = random.Random(rng.getrandbits(64))
            if rc is None:
                rc = gen_recipe(stream, sub, thorough)
            else:
                count("grid recipe")
            summary = run_recipe(rc, lambda prog, text, sub=sub, stream=stream, rc=rc: choose_pipes(sub, prog, text, thorough, stream, rc), root, report, count)
            count(f"stream {stream}")
            count(f"kind {rc['kind']}")
            distinct.add(json.dumps(rc, sort_keys=True))
            if len(samples) < 6 and stream not in [s["recipe"]["stream"] for s in samples]:
                samples.append(summary)
    finally:
        if root in sys.path:
            sys.path.remove(root)
        shutil.rmtree(root, ignore_errors=True)
    return {"corr": {}, "oracle": oracle, "distribution": dict(dist), "samples": samples, "nontrivial": len(distinct)}


def replay(case: dict, driver: str = DEFAULT_DRIVER) -> dict:
    lib2()
    rc = case["recipe"]
    fails = []

    def report(name, ok, c, detail):
        if not ok:
            fails.append((name, c, detail))

    root = tempfile.mkdtemp(prefix="c14scale")
    sys.path.insert(0, root)
    try:
        pipes = [case["pipe"]] if case.get("pipe") else sorted(PIPES)
        run_recipe(rc, pipes, root, report, lambda f: None)
    finally:
        if root in sys.path:
            sys.path.remove(root)
        shutil.rmtree(root, ignore_errors=True)
    if "call" in case:
        fails = [f for f in fails if f[1].get("call") == case["call"]] or fails
    if not fails:
        return {"oracle_ok": True, "detail": "no oracle fails on this case"}
    name, c, detail = fails[0]
    where = f" [pipeline {c['pipe']}: {' -> '.join(PIPES[c['pipe']])}]" if c.get("pipe") else ""
    return {"oracle_ok": False, "detail": f"{name}{where}: {detail}\n--- recipe {json.dumps(rc)}\n--- override {c.get('override')}\n{c.get('text')}",
            "impl": {"oracle": name, "pipeline": c.get("pipe"), "text": c.get("text"), "override": c.get("override")},
            "model": {"recipe": rc}}


def main():
    ap = argparse.ArgumentParser()
    ap.add_argument("--seed", type=int, default=0)
    ap.add_argument("--n", type=int, default=250)
    ap.add_argument("--thorough", action="store_true")
    ap.add_argument("--driver", default=DEFAULT_DRIVER)
    a = ap.parse_args()
    r = run(a.seed, a.n, a.driver, a.thorough)
    bad = 0
    for name, o in r["oracle"].items():
        print(f"{name:36s} cases {o['cases']:7d}  failures {len(o['failures'])}")
        bad += len(o["failures"])
        for f in o["failures"][:3]:
            c = f["case"]
            print(f"   [pipeline {c.get('pipe')}] {f['detail']}")
            print("   recipe", json.dumps(c["recipe"]))
            print("   " + (c.get("text") or "")[:1200].replace("\n", "\n   "))
    print("distribution:", json.dumps(r["distribution"], indent=1, sort_keys=True))
    print("nontrivial:", r["nontrivial"])
    sys.exit(1 if bad else 0)


if __name__ == "__main__":
    main()
