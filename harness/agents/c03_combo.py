#!/venv/bin/python
"""C03 - COMBINATIONS and POSITIONS: the emulator state is the ordered product of the gate matrices on |0..0>.

The other C03 streams (emu_diff, walk_diff, c03_gatesets, c03_edge, c03_scale) vary ONE thing at a time around programs
whose subcircuits all stand at top level, whose names are all different and which go through one fixed pipeline.  A
regression that needs THREE ordinary features together (every pair being fine), or that only touches the first / last
element of something, or that depends on what ran BEFORE in the same process, is invisible to them.  This stream
generates exactly those programs (registers of 2 .. 4 qubits, at most ~60 executed gates each):

  combo_nested     WHERE a subcircuit stands: at top level, in a top-level `{ }`, in a loop, in a loop in a loop, in a
                   macro body, in a macro called in a loop / in a block / by another macro, in a loop inside a macro -
                   as a `subcircuit` block (without / with an iteration count: literal, let, macro parameter) or as an
                   explicit prepare_all ... measure_all pair - ALONE (every subcircuit of the program nested, none at
                   top level), next to a top-level subcircuit of either style, first or last; every pipeline below.
  combo_shadow     NAME SHADOWING: a macro parameter called like a let constant (used as angle, index, loop count,
                   alias bound, register size, subcircuit count), like the register, like a register alias or a qubit
                   alias - of the same or of ANOTHER kind (a qubit parameter called like a let ...) - while the macro
                   body also uses the shadowed global INDIRECTLY (an alias whose bound is the let, an alias of the
                   register, a nested macro that uses the global itself), the caller uses the global after the call,
                   with / without an override_dict entry for the shadowed let or for another let, and the passes
                   expand_subcircuits / fill_in_let / expand_macros applied beforehand in every order.
  combo_position   FIRST / LAST only: the decisive (non-commuting) gate as first / last statement of the program, of a
                   block, of a loop body, of a macro body, of a parallel branch, of a subcircuit; EMPTY things before
                   what follows: `{ }`, `< >`, `loop k { }`, `loop k < >`, a call of an empty macro, `subcircuit { }`,
                   at top level, between subcircuits, first / last in a subcircuit, in a loop body, in a macro body;
                   macros defined AFTER the first body statements; a dangling tail (prepare_all + gates without
                   measure_all at the very end: judged leniently, see below).
  combo_shape      ONE LEVEL OFF: `loop k < a | b >` versus `loop k { < a | b > }`, a macro whose body is directly a
                   parallel block, a macro call as the only statement of the program / subcircuit / loop body /
                   branch, one-branch parallel blocks, one-statement blocks, loop 1, parallel blocks of `{ }` branches.
  combo_session    STATE LEFT BEHIND: 3 .. 8 programs run one after the other in one process through ONE shared
                   backend object and one shared gate set: twins (the same text with other let values / another
                   override / other literals / another register size, so that anything cached by id(), hash, name or
                   text of an earlier circuit is wrong for the later one), earlier circuits dropped (collected) or kept
                   alive, programs that FAIL on purpose in between (gate outside a subcircuit, nested subcircuit,
                   index out of range deep in a macro, unknown gate, measure_all -> prepare_all in a loop: the early
                   exits), every program judged against the reference, and the results of the kept programs judged
                   AGAIN after the whole session.
  combo_mixed      random programs with all of the above.

A program is an abstract description (JSON, see `interpret`) rendered as Jaqal text or as an S-expression for
`circuitbuilder.build`; a PIPELINE says how it reaches the emulator: parse options (expand_macro, expand_let,
override_dict), passes applied by hand in any order and any number of times (S = expand_subcircuits, L = fill_in_let,
M = expand_macros, Mk = expand_macros(preserve_definitions=True)), then run_jaqal_circuit with the default backend /
a fresh / the shared UnitarySerializedEmulator object - or run_jaqal_string on the text with a `usepulses` line.  An
override dictionary is applied exactly once, by the parser or by the first fill_in_let of the pipeline.

The REFERENCE is this script's own interpreter (own alias resolution, lexical macro binding by name - a parameter hides
the global of the same name inside its own macro body only -, loop unrolling, static subcircuit discovery: every
subcircuit written is reported once, in program order, however many loops surround it) followed by an index-arithmetic
application of each gate matrix with numpy.  A description is only used if the interpreter finds it valid under the
declared AND the overriding let values, so no rejection is legitimate.

Oracles (one per theme, all stating the equation of C03 on the real code; `corr` is empty):
  for every subcircuit of the result: `state_vector` == U_k ... U_1 e0 (1e-9), U_j the matrix of the j-th executed gate
  at its resolved numeric arguments on its resolved qubits (bit j of the matrix index = j-th qubit argument, bit i of
  the state index = register qubit i); `simulated_probability_by_int` == |amplitude|^2; as many subcircuits as written;
  idle gates / gates without unitary are skipped.  A valid program that raises or hangs is a failure.

Deliberately NOT demanded: anything about programs that are not valid (the failing steps of a session are run, never
judged); whether a dangling tail is reported (a program that ends in `prepare_all + gates` without measure_all: a
JaqalError is accepted, and so is one extra reported subcircuit provided its state is the product of the tail's gates;
the complete subcircuits must be right); loops of 0 iterations AROUND a subcircuit (whether a subcircuit that never
runs is reported is not C03's business: loop counts outside subcircuits are >= 1, inside they may be 0); fill_in_map /
expand_let_map (it documents that it refuses register arguments and register-named parameters); an alias OF AN ALIAS
with an omitted slice stop (the open finding "C05 defaulted-stop-frozen": an override that resizes the source alias
raises "Index out of range" - met again by this stream, e.g. `let v 0; register q[2]; map b q[v:-1:-1]; map c b[:]`
with {v: 1}; omitted stops are generated on the fundamental register only).

    PYTHONPATH=/verif /venv/bin/python -m harness.agents.c03_combo [--seed S] [--count N] [--thorough]
    recommended: quick n=250 (about 600 cases / 1000 programs, 4 s), thorough n=8000 (about 9700 cases, 60 - 70 s).
"""
import argparse
import gc
import hashlib
import itertools
import json
import math
import os
import random
import signal
import sys
import time
import warnings

import numpy as np

try:
    from harness import timeouts as T
except ImportError:  # run as a plain script
    sys.path.insert(0, os.path.dirname(os.path.dirname(os.path.dirname(os.path.abspath(__file__)))))
    from harness import timeouts as T
from harness.agents import c03_scale as S  # gate kinds, gate sets, index arithmetic, usepulses modules (not edited)

DEFAULT_DRIVER = "/verif/lean/.lake/build/bin/jaqal-model"
TOL = 1e-9
THEMES = ("nested", "shadow", "position", "shape", "session", "mixed")
ORACLES = tuple("combo_" + t for t in THEMES)
BOUNDS = ("prepare_all", "measure_all")
GSET = {k: v for k, v in S.BASE.items() if k != "MP"}
MAX_EXEC = 400

Invalid = S.Invalid
is_num, integral, num_text = S.is_num, S.integral, S.num_text


# ------------------------------------------------------------------ the reference interpreter
# program description `prog`:
#   {"gset": {gate name: kind}, "idle": bool, "lets": [[name, number]], "reg": [name, int | let name],
#    "maps": [[name, "whole", src] | [name, "item", src, index] | [name, "slice", src, lo, hi, step]],
#    "macros": [[name, [parameter names], block]], "body": [item], "override": {let name: number} | null}
#   item : ["g", name, [arg]]            native gate, macro call, prepare_all / measure_all
#        | ["loop", count, block] | block
#        | ["sub", count | null, [item]]  a `subcircuit` block
#        | ["def", macro name]            (top level only) the macro is defined HERE instead of in the header
#   block: ["seq", [item]] | ["par", [item]]
#   arg  : number | name (let, alias, macro parameter) | ["idx", register name or macro parameter, int | name]
def interpret(prog, use_override=True):
    """-> {"n": register size, "subs": [[(gate, [qubit], [classical value])]], "tail": [...] | None}; raises Invalid."""
    lets = {name: v for name, v in prog["lets"]}
    if len(lets) != len(prog["lets"]):
        raise Invalid("let defined twice")
    if use_override and prog.get("override"):
        for name, v in prog["override"].items():
            if name not in lets:
                raise Invalid("override of an unknown let")
            lets[name] = v
    gset = prog["gset"]
    idle = bool(prog.get("idle"))

    def small(v, what):
        if isinstance(v, str):
            if v not in lets:
                raise Invalid(f"{what}: unknown name {v}")
            v = lets[v]
        if not integral(v):
            raise Invalid(f"{what} {v!r} is not integral")
        return int(v)

    rname, rsize = prog["reg"]
    n = small(rsize, "register size")
    if not 1 <= n <= 6:
        raise Invalid("register size")
    if rname in lets:
        raise Invalid("register name is a let")
    regs = {rname: list(range(n))}
    qubits = {}
    for m in prog["maps"]:
        name, kind, src = m[0], m[1], m[2]
        if name in regs or name in qubits or name in lets or src not in regs:
            raise Invalid(f"map {name}")
        base = regs[src]
        if kind == "whole":
            regs[name] = list(base)
        elif kind == "item":
            k = small(m[3], "index")
            if not 0 <= k < len(base):
                raise Invalid("alias index out of range")
            qubits[name] = base[k]
        else:
            lo = 0 if m[3] is None else small(m[3], "slice start")
            hi = len(base) if m[4] is None else small(m[4], "slice stop")
            st = 1 if m[5] is None else small(m[5], "slice step")
            if st == 0 or lo < 0 or hi > len(base) or hi < -1:
                raise Invalid("slice")
            idx = list(range(lo, hi, st))
            if not idx or any(not 0 <= k < len(base) for k in idx):
                raise Invalid("slice empty or out of range")
            regs[name] = [base[k] for k in idx]
    macros, order = {}, {}
    for k, (name, params, body) in enumerate(prog["macros"]):
        if name in macros or name in gset or name in BOUNDS or (idle and name.startswith("I_")):
            raise Invalid(f"macro {name} redefines a gate or macro")
        if name in lets or name in regs or name in qubits:
            raise Invalid(f"macro {name} is called like a let / register")
        if len(set(params)) != len(params):
            raise Invalid("macro parameter twice")
        if any(p in gset or p in BOUNDS or p in macros or p == name for p in params):
            raise Invalid("macro parameter called like a gate or macro")
        macros[name] = (params, body)
        order[name] = k
    late = [it[1] for it in prog["body"] if it[0] == "def"]
    if len(set(late)) != len(late) or any(x not in macros for x in late):
        raise Invalid("bad macro definition marker")
    emitted = [name for name, _p, _b in prog["macros"] if name not in late] + late
    if emitted != [name for name, _p, _b in prog["macros"]]:
        raise Invalid("macros are not defined in the order of their list")
    defined = {name for name in macros if name not in late}

    def spec(name):
        if name in gset:
            return S.kind_spec(gset[name])
        if idle and name.startswith("I_") and name[2:] in gset:
            return S.kind_spec(gset[name[2:]])[0], None
        raise Invalid(f"unknown gate {name}")

    def value(a, env, what):
        if isinstance(a, str):
            if a in env:
                if env[a][0] != "num":
                    raise Invalid(f"{what}: {a} is not a number")
                return env[a][1]
            if a in lets:
                return lets[a]
            raise Invalid(f"{what}: unknown name {a}")
        if is_num(a):
            return a
        raise Invalid(f"{what}: not a number")

    def count(a, env, what):
        v = value(a, env, what)
        if not integral(v):
            raise Invalid(f"{what} {v!r} is not integral")
        return int(v)

    def register(a, env):
        if isinstance(a, str):
            if a in env:
                if env[a][0] != "reg":
                    raise Invalid(f"{a} is not a register")
                return env[a][1]
            if a in regs:
                return regs[a]
        raise Invalid(f"{a} is not a register")

    def qubit(a, env):
        if isinstance(a, str):
            if a in env:
                if env[a][0] != "q":
                    raise Invalid(f"{a} is not a qubit")
                return env[a][1]
            if a in qubits:
                return qubits[a]
            raise Invalid(f"{a} is not a qubit")
        if isinstance(a, list) and len(a) == 3 and a[0] == "idx":
            r = register(a[1], env)
            k = count(a[2], env, "index")
            if not 0 <= k < len(r):
                raise Invalid("index out of range")
            return r[k]
        raise Invalid("not a qubit")

    def anyarg(a, env):
        if isinstance(a, list):
            return ("q", qubit(a, env))
        if is_num(a):
            return ("num", a)
        if a in env:
            return env[a]
        if a in lets:
            return ("num", lets[a])
        if a in regs:
            return ("reg", regs[a])
        if a in qubits:
            return ("q", qubits[a])
        raise Invalid(f"unknown name {a}")

    def static(it, hidden):
        """what the builder checks in EVERY macro body, called or not: constant indices into global registers"""
        if it[0] == "g":
            for a in it[2]:
                if isinstance(a, list) and a[1] not in hidden and a[1] in regs and not (isinstance(a[2], str) and a[2] in hidden):
                    k = small(a[2], "index")
                    if not 0 <= k < len(regs[a[1]]):
                        raise Invalid("index out of range in a macro body")
        elif it[0] == "loop":
            static(it[2], hidden)
        elif it[0] == "sub":
            for x in it[2]:
                static(x, hidden)
        elif it[0] in ("seq", "par"):
            for x in it[1]:
                static(x, hidden)

    for _name, (params, body) in macros.items():
        static(body, set(params))

    st = {"open": None, "subs": [], "depth": 0, "budget": MAX_EXEC}

    def walk(it, env, touched, cur, top=False):
        t = it[0]
        if t == "def":
            if not top:
                raise Invalid("macro definition inside a block")
            defined.add(it[1])
        elif t == "g":
            name, args = it[1], it[2]
            if name in macros and name not in env and (cur is None or order[name] < cur):
                if cur is None and name not in defined:
                    raise Invalid("macro called before its definition")
                params, body = macros[name]
                if len(params) != len(args):
                    raise Invalid("macro argument count")
                walk(body, {p: anyarg(a, env) for p, a in zip(params, args)}, touched, order[name])
                return
            if name in BOUNDS:
                if args:
                    raise Invalid("arguments to prepare_all / measure_all")
                if st["depth"]:
                    raise Invalid("prepare_all / measure_all inside a parallel block or a loop of a subcircuit")
                if name == BOUNDS[0]:
                    if st["open"] is not None:
                        raise Invalid("prepare_all inside a subcircuit")
                    st["open"] = []
                else:
                    if st["open"] is None:
                        raise Invalid("measure_all without prepare_all")
                    st["subs"].append(st["open"])
                    st["open"] = None
                return
            params, _fn = spec(name)
            if len(params) != len(args):
                raise Invalid(f"argument count of {name}")
            if st["open"] is None:
                raise Invalid("gate outside a subcircuit")
            qs, cs = [], []
            for (_pn, kind), a in zip(params, args):
                if kind == "q":
                    qs.append(qubit(a, env))
                elif kind == "i":
                    v = value(a, env, "argument")
                    if not integral(v):
                        raise Invalid("INT argument is not integral")
                    cs.append(v)
                else:
                    v = value(a, env, "argument")
                    if not math.isfinite(float(v)):
                        raise Invalid("FLOAT argument")
                    cs.append(v)
            if len(set(qs)) != len(qs):
                raise Invalid("gate acts on a qubit twice")
            touched.update(qs)
            st["open"].append((name, qs, cs))
            st["budget"] -= 1
            if st["budget"] < 0:
                raise Invalid("too long")
        elif t == "sub":
            if st["depth"] or st["open"] is not None:
                raise Invalid("subcircuit block inside a subcircuit / parallel block")
            if it[1] is not None and count(it[1], env, "subcircuit count") < 1:
                raise Invalid("subcircuit count")
            mine = st["open"] = []
            for x in it[2]:
                walk(x, env, touched, cur)
            if st["open"] is not mine:
                raise Invalid("subcircuit block closed inside")
            st["subs"].append(mine)
            st["open"] = None
        elif t == "loop":
            c = count(it[1], env, "loop count")
            if c < 0:
                raise Invalid("negative loop count")
            if st["open"] is not None:
                outer, once = st["open"], []
                st["open"] = once
                st["depth"] += 1
                walk(it[2], env, touched, cur)
                st["depth"] -= 1
                st["open"] = outer
                st["budget"] -= max(0, c - 1) * len(once)
                if st["budget"] < 0:
                    raise Invalid("too long")
                outer.extend(once * c)
            else:
                if c < 1:
                    raise Invalid("loop of 0 iterations outside a subcircuit")
                walk(it[2], env, touched, cur)
                if st["open"] is not None:
                    raise Invalid("subcircuit left open by a loop body")
        elif t == "seq":
            for x in it[1]:
                walk(x, env, touched, cur)
        elif t == "par":
            seen = set()
            st["depth"] += 1
            for br in it[1]:
                used = set()
                walk(br, env, used, cur)
                if used & seen:
                    raise Invalid("parallel branches share a qubit")
                seen |= used
            st["depth"] -= 1
            touched |= seen
        else:
            raise Invalid(f"bad item {t}")

    for it in prog["body"]:
        walk(it, {}, set(), None, top=True)
    return {"n": n, "subs": st["subs"], "tail": st["open"]}


def reference_states(prog, sem, subs=None):
    n, gset, states = sem["n"], prog["gset"], []
    for sub in (sem["subs"] if subs is None else subs):
        v = np.zeros(1 << n, dtype=complex)
        v[0] = 1
        for name, qs, cs in sub:
            fn = S.kind_spec(gset[name])[1] if name in gset else None
            if fn is None:
                continue
            v = S.apply_gate(v, np.asarray(fn(*cs), dtype=complex), qs, n)
        states.append(v)
    return states


# ------------------------------------------------------------------ surface forms
def _targ(a):
    if isinstance(a, str):
        return a
    if is_num(a):
        return num_text(a)
    return f"{a[1]}[{_targ(a[2])}]"


def _titem(it):
    t = it[0]
    if t == "g":
        return " ".join([it[1]] + [_targ(a) for a in it[2]])
    if t == "loop":
        return f"loop {_targ(it[1])} " + _titem(it[2])
    if t == "seq":
        return "{ " + " ; ".join(_titem(x) for x in it[1]) + " }"
    if t == "par":
        return "< " + " | ".join(_titem(x) for x in it[1]) + " >"
    if t == "sub":
        return "subcircuit " + ("" if it[1] is None else _targ(it[1]) + " ") + "{ " + " ; ".join(_titem(x) for x in it[2]) + " }"
    raise ValueError(t)


def _tmacro(m):
    return " ".join(["macro", m[0]] + list(m[1])) + " " + _titem(m[2])


def to_text(prog, sep="\n", prefix=(), final_newline=True):
    out = list(prefix) + [f"let {name} {num_text(v)}" for name, v in prog["lets"]]
    out.append(f"register {prog['reg'][0]}[{_targ(prog['reg'][1])}]")
    for m in prog["maps"]:
        if m[1] == "whole":
            out.append(f"map {m[0]} {m[2]}")
        elif m[1] == "item":
            out.append(f"map {m[0]} {m[2]}[{_targ(m[3])}]")
        else:
            b = ["" if x is None else _targ(x) for x in m[3:6]]
            out.append(f"map {m[0]} {m[2]}[{b[0]}:{b[1]}" + (f":{b[2]}]" if m[5] is not None else "]"))
    late = {it[1] for it in prog["body"] if it[0] == "def"}
    by = {m[0]: m for m in prog["macros"]}
    out += [_tmacro(m) for m in prog["macros"] if m[0] not in late]
    stm = [_tmacro(by[it[1]]) if it[0] == "def" else _titem(it) for it in prog["body"]]
    text = "\n".join(out) + "\n" + sep.join(stm)
    return text + "\n" if final_newline else text


def _sarg(a):
    if isinstance(a, str) or is_num(a):
        return a
    return ["array_item", a[1], a[2]]


def _sitem(it):
    t = it[0]
    if t == "g":
        return ["gate", it[1]] + [_sarg(a) for a in it[2]]
    if t == "loop":
        return ["loop", it[1], _sitem(it[2])]
    if t == "sub":
        return ["subcircuit_block", "" if it[1] is None else it[1]] + [_sitem(x) for x in it[2]]
    return ["sequential_block" if t == "seq" else "parallel_block"] + [_sitem(x) for x in it[1]]


def to_sexpr(prog):
    out = ["circuit"] + [["let", name, v] for name, v in prog["lets"]]
    out.append(["register", prog["reg"][0], prog["reg"][1]])
    for m in prog["maps"]:
        if m[1] == "whole":
            out.append(["map", m[0], m[2]])
        elif m[1] == "item":
            out.append(["map", m[0], m[2], m[3]])
        else:
            out.append(["map", m[0], m[2]] + list(m[3:6]))
    late = {it[1] for it in prog["body"] if it[0] == "def"}
    by = {m[0]: m for m in prog["macros"]}
    sm = lambda m: ["macro", m[0]] + list(m[1]) + [_sitem(m[2])]
    out += [sm(m) for m in prog["macros"] if m[0] not in late]
    out += [sm(by[it[1]]) if it[0] == "def" else _sitem(it) for it in prog["body"]]
    return out


# ------------------------------------------------------------------ executing on the real code
class Hang(Exception):
    pass


def _alarm(*_a):
    raise Hang()


API_DEFAULT = {"form": "text", "entry": "circuit", "parse_kw": [], "ov_via": "fill", "pre": [], "backend": "default",
               "sep": "\n", "final_newline": True}


def norm_api(api, prog):
    api = dict(API_DEFAULT, **(api or {}))
    api["pre"] = list(api["pre"])
    api["parse_kw"] = list(api["parse_kw"])
    if prog.get("override"):
        if api["entry"] == "string" or api["form"] != "text" and api["ov_via"] == "parse":
            api["entry"], api["ov_via"] = "circuit", "fill"
        if api["ov_via"] == "parse":
            if "expand_let" not in api["parse_kw"]:
                api["parse_kw"].append("expand_let")
        else:
            api["parse_kw"] = [k for k in api["parse_kw"] if k != "expand_let"]  # the lets must still be there
            if "L" not in api["pre"]:
                api["pre"].insert(0, "L")
    if api["entry"] == "string":
        api["form"], api["pre"], api["parse_kw"] = "text", [], []
    return api


def run_prog(prog, api, shared=None):
    """-> ExecutionResult (real code only)"""
    L = S._lib()
    api = norm_api(api, prog)
    idle = bool(prog.get("idle"))
    G = S.gate_set(prog["gset"], idle)
    ov = prog.get("override") or None
    kw = {}
    if api["backend"] == "fresh":
        kw["backend"] = L["UnitarySerializedEmulator"]()
    elif api["backend"] == "shared" and shared is not None:
        kw["backend"] = shared
    if api["entry"] == "string":
        prefix = [f"from .{S.pulse_module(prog['gset'], idle)} usepulses *"]
        return L["run_jaqal_string"](to_text(prog, api["sep"], prefix, api["final_newline"]), import_path=S._tmpdir(), **kw)
    if api["form"] == "text":
        pkw = {"inject_pulses": G, "autoload_pulses": False}
        for k in api["parse_kw"]:
            pkw[k] = True
        if ov is not None and api["ov_via"] == "parse":
            pkw["override_dict"] = ov
        c = L["parse_jaqal_string"](to_text(prog, api["sep"], (), api["final_newline"]), **pkw)
    else:
        c = L["build"](to_sexpr(prog), inject_pulses=G)
    pending = ov if api["ov_via"] != "parse" else None
    for p in api["pre"]:
        if p == "S":
            c = L["expand_subcircuits"](c)
        elif p == "L":
            c = L["fill_in_let"](c, pending) if pending is not None else L["fill_in_let"](c)
            pending = None
        elif p == "M":
            c = L["expand_macros"](c)
        elif p == "Mk":
            c = L["expand_macros"](c, preserve_definitions=True)
        else:
            raise ValueError(p)
    return L["run_jaqal_circuit"](c, **kw)


def _extract(res):
    return [(np.array(sc.state_vector), np.array(sc.simulated_probability_by_int)) for sc in res.subcircuits]


def execute(prog, api, shared=None, keep=None):
    """-> ("ok", [(state, probabilities)]) | ("rejected", msg) | ("err", "Type: message") | ("hang", "")"""
    L = S._lib()
    old = signal.signal(signal.SIGALRM, _alarm)
    signal.alarm(int(T.limit()))
    try:
        with warnings.catch_warnings():
            warnings.simplefilter("ignore")
            res = run_prog(prog, api, shared)
            if keep is not None:
                keep.append(res)
            return ("ok", _extract(res))
    except Hang:
        T.saw_hang()
        return ("hang", "")
    except L["JaqalError"] as e:
        return ("rejected", f"{type(e).__name__}: {str(e)[:300]}")
    except Exception as e:
        return ("err", f"{type(e).__name__}: {str(e)[:300]}")
    finally:
        signal.alarm(0)
        signal.signal(signal.SIGALRM, old)


_fmt = S._fmt


def _gates_text(sub):
    parts = [f"{g} on {qs}" + (f" at {[round(c, 6) if isinstance(c, float) else c for c in cs[:3]]}" if cs else "") for g, qs, cs in sub[:14]]
    return "; ".join(parts) + (f"; ... ({len(sub)} gates)" if len(sub) > 14 else "")


def excerpt(prog, limit=900):
    t = to_text(prog).replace("\n", " / ")
    if prog.get("override"):
        t += f"  override_dict={prog['override']}"
    return t if len(t) <= limit else t[: limit * 2 // 3] + f" ...({len(t)} chars)... " + t[-limit // 3:]


def how_text(api, prog):
    api = norm_api(api, prog)
    d = {k: v for k, v in api.items() if v != API_DEFAULT.get(k)}
    return f"[pipeline {d}]" if d else "[pipeline: parse_jaqal_string + run_jaqal_circuit]"


def compare(prog, api, sem, want, tail_want, got):
    """the equation of C03 on one result -> (ok, detail)"""
    how = how_text(api, prog)
    if len(got) != len(want) and not (tail_want is not None and len(got) == len(want) + 1):
        return False, f"{how} {len(got)} subcircuits reported, {len(want)} written; program: " + excerpt(prog)
    full = list(want) + ([tail_want] if len(got) == len(want) + 1 else [])
    gates = list(sem["subs"]) + [sem["tail"]]
    for k, ((v, p), w) in enumerate(zip(got, full)):
        if v.shape != w.shape:
            return False, f"{how} subcircuit {k}: state_vector of shape {v.shape}, expected {w.shape}; program: " + excerpt(prog)
        dv = float(np.max(np.abs(v - w))) if np.all(np.isfinite(v)) else float("inf")
        if not dv <= TOL:
            i = int(np.argmax(np.abs(v - w))) if math.isfinite(dv) else 0
            return False, (f"{how} subcircuit {k} ({sem['n']} qubits): state_vector {_fmt(v)} is not the product of the gate matrices "
                           f"on |0..0> {_fmt(w)} (largest deviation {dv:.3g} at index {i}: got {v[i]:.6g}, expected {w[i]:.6g}); "
                           f"executed gates: {_gates_text(gates[k])}; program: " + excerpt(prog))
        pw = np.abs(w) ** 2
        if p.shape != pw.shape or not float(np.max(np.abs(p - pw))) <= TOL:
            return False, f"{how} subcircuit {k}: probabilities {_fmt(p)} but |amplitude|^2 is {_fmt(pw)}; program: " + excerpt(prog)
    return True, f"{len(want)} subcircuits, {sum(len(s) for s in sem['subs'])} executed gates agree with the reference"


def semantics(prog):
    """(sem, reference states, reference state of a dangling tail | None); raises Invalid"""
    if prog.get("override"):
        interpret(prog, use_override=False)  # the program itself must be valid too
    sem = interpret(prog, use_override=True)
    want = reference_states(prog, sem)
    tail = reference_states(prog, sem, [sem["tail"]])[0] if sem["tail"] is not None else None
    return sem, want, tail


def judge_steps(steps):
    """Run the steps of one session in order (one shared backend object).  step = {"prog", "api", "judge": bool,
    "keep": bool}.  -> (ok, detail, index of the failing step | None).  Raises Invalid for a bad description."""
    L = S._lib()
    refs = []
    for stp in steps:
        refs.append(semantics(stp["prog"]) if stp.get("judge", True) else None)
    shared = L["UnitarySerializedEmulator"]()
    kept = []
    total = 0
    for k, stp in enumerate(steps):
        prog, api = stp["prog"], stp.get("api")
        holder = [] if stp.get("keep") else None
        r = execute(prog, api, shared, holder)
        where = f"(step {k + 1} of {len(steps)}) " if len(steps) > 1 else ""
        if not stp.get("judge", True):
            if r[0] == "hang":
                return False, f"{where}the emulator does not terminate on: " + excerpt(prog), k
            continue
        sem, want, tail = refs[k]
        if r[0] == "rejected" and tail is not None:
            continue
        if r[0] != "ok":
            return False, (f"{where}{how_text(api, prog)} a valid program " + ("does not terminate" if r[0] == "hang" else f"raises {r[1]}")
                           + "; program: " + excerpt(prog)), k
        ok, detail = compare(prog, api, sem, want, tail, r[1])
        if not ok:
            return False, where + detail, k
        total += len(want)
        if holder:
            kept.append((k, holder[0]))
        elif stp.get("collect") or len(steps) > 1:
            del r
            gc.collect()  # the circuit is gone: whatever is built next may get its addresses
    for k, res in kept:  # what was handed out earlier must still be right after everything that ran later
        sem, want, tail = refs[k]
        ok, detail = compare(steps[k]["prog"], steps[k].get("api"), sem, want, tail, _extract(res))
        if not ok:
            return False, f"(step {k + 1} of {len(steps)}, read AGAIN after the later programs ran) " + detail, k
    return True, f"{len(steps)} programs, {total} subcircuits agree with the reference", None


# ------------------------------------------------------------------ generator
NAMEPOOL = ["t", "k", "c", "n", "a", "b", "r", "w", "s", "u", "v", "e"]
FRESH = ["x", "y", "z", "p", "g", "h"]
_SINGLE = ["H1", "H2", "R", "U", "P", "PF", "SX", "S", "H1", "R", "N", "X", "H2"]
_DOUBLE = ["NS", "CX", "CR", "NS", "CZ", "NS"]
_TRIPLE = ["T3", "CCX"]
KNOBS = {"shadow": 0.5, "empties": 0.15, "shape": 0.3, "macros": (0, 3), "lets": (1, 4), "maps": (0, 3), "idle": 0.12,
         "stmts": (1, 5), "late_def": 0.15, "tail": 0.04, "subcount": 0.25}


def ang(rng):
    v = round(rng.uniform(-3.0, 3.0), rng.choice([1, 2, 3]))
    return v if abs(v) > 0.05 else 0.7


def Qx(reg, i):
    return ["idx", reg, i]


def _params_of(name):
    return S.kind_spec(GSET[name[2:] if name.startswith("I_") else name])[0]


def _arity(name):
    return sum(1 for _p, k in _params_of(name) if k == "q")


class Gen:
    """One random program.  Contexts (`ctx`) list what a statement may refer to:
         q: {ident: [argument forms]} (ident = fundamental qubit index, or a symbolic name inside a macro),
         regs: [(name, [ident])], f: [angle forms], idx: [(form, value | None)], cnt: [(form, value | None)]"""

    def __init__(self, rng, n=None, knobs=None):
        self.rng = rng
        self.k = dict(KNOBS, **(knobs or {}))
        self.n = n or rng.choice([2, 2, 3, 3, 3, 4])
        self.idle = rng.random() < self.k["idle"]
        self.lets, self.role, self.maps, self.macros = [], {}, [], []
        self.info = {}  # macro name -> {"params": [(name, kind)], "type": inner | outer | empty, "pure": bool, "nsubs": int}
        self.feat = {}
        self.pool = [x for x in NAMEPOOL]
        rng.shuffle(self.pool)
        self.header()

    def bump(self, k):
        self.feat[k] = self.feat.get(k, 0) + 1

    # ---- header
    def header(self):
        rng, n = self.rng, self.n
        self.regname = rng.choice(["q", "q", "q", "r"])
        if self.regname in self.pool:
            self.pool.remove(self.regname)
        lo, hi = self.k["lets"]
        roles = [rng.choice(["f", "f", "idx", "cnt", "size"]) for _ in range(rng.randint(lo, hi))]
        for role in roles:
            name = self.pool.pop()
            v = ang(rng) if role == "f" else rng.randrange(n) if role == "idx" else rng.choice([1, 2, 2, 3]) if role == "cnt" else n
            self.lets.append([name, v])
            self.role[name] = role
        sizes = [nm for nm, r in self.role.items() if r == "size"]
        self.reg = [self.regname, rng.choice(sizes) if sizes and rng.random() < 0.7 else n]
        self.regs = {self.regname: list(range(n))}
        self.named = {}
        lo, hi = self.k["maps"]
        for _ in range(rng.randint(lo, hi)):
            name = self.pool.pop()
            src = rng.choice(list(self.regs))
            base = self.regs[src]
            kind = rng.choice(["whole", "slice", "slice", "item", "item"])
            if kind == "whole":
                self.maps.append([name, "whole", src])
                self.regs[name] = list(base)
            elif kind == "item":
                k = rng.randrange(len(base))
                self.maps.append([name, "item", src, self.as_let(k, ("idx", "cnt", "size"))])
                self.named[name] = base[k]
            else:
                m = len(base)
                st = rng.choice([1, 1, 1, -1, 2]) if m > 1 else 1
                if st > 0:
                    a = rng.randrange(m)
                    b = rng.randint(a + 1, m)
                else:
                    a = rng.randrange(m)
                    b = rng.randint(-1, a - 1)
                idx = list(range(a, b, st))
                if not idx:
                    continue
                fa = None if (st > 0 and a == 0 and rng.random() < 0.4) else self.as_let(a, ("idx", "cnt", "size"))
                # (an OMITTED stop only on the fundamental register: on an alias of an alias the builder freezes it at the
                # declared size - the open finding "C05 defaulted-stop-frozen", see c03_edge - which an override then breaks)
                fb = None if (st > 0 and b == m and src == self.regname and rng.random() < 0.4) else (self.as_let(b, ("idx", "cnt", "size")) if b >= 0 else b)
                fs = None if (st == 1 and rng.random() < 0.7) else st
                self.maps.append([name, "slice", src, fa, fb, fs])
                self.regs[name] = [base[k] for k in idx]

    def as_let(self, v, roles, p=0.5):
        """a let (of one of the roles) that has this declared value, or the literal"""
        c = [nm for nm, val in self.lets if self.role[nm] in roles and val == v]
        if c and self.rng.random() < p:
            self.bump("let used as index / bound / count")
            return self.rng.choice(c)
        return v

    def global_ctx(self):
        ctx = {"q": {i: [] for i in range(self.n)}, "regs": [], "f": [], "idx": [], "cnt": [], "params": set(), "macro": None}
        ints = [(nm, v) for nm, v in self.lets if self.role[nm] != "f"]
        for rn, ids in self.regs.items():
            ctx["regs"].append((rn, list(ids)))
            for j, f in enumerate(ids):
                ctx["q"][f].append(Qx(rn, j))
                for nm, v in ints:
                    if v == j:
                        ctx["q"][f].append(Qx(rn, nm))
        for nm, f in self.named.items():
            ctx["q"][f] += [nm, nm]
        for nm, v in self.lets:
            r = self.role[nm]
            ctx["f"].append(nm)
            if r != "f":
                ctx["idx"].append((nm, v))
            if r in ("cnt", "size", "idx"):
                ctx["cnt"].append((nm, v))
        return ctx

    def macro_ctx(self, params, minlen=2):
        """what the body of a macro with these parameters [(name, kind)] sees: its parameters hide the globals"""
        g = self.global_ctx()
        names = {p for p, _k in params}

        def vis(f):
            if isinstance(f, str):
                return f not in names
            return f[1] not in names and not (isinstance(f[2], str) and f[2] in names)

        ctx = {"q": {}, "regs": [(nm, ids) for nm, ids in g["regs"] if nm not in names], "f": [f for f in g["f"] if f not in names],
               "idx": [(f, v) for f, v in g["idx"] if f not in names], "cnt": [(f, v) for f, v in g["cnt"] if f not in names],
               "params": names, "macro": True, "pq": []}
        for ident, forms in g["q"].items():
            fs = [f for f in forms if vis(f)]
            if fs:
                ctx["q"][ident] = fs
        for p, kind in params:
            if kind == "q":
                ctx["q"][("p", p)] = [p]
                ctx["pq"].append(("p", p))
            elif kind == "reg":
                ids = [("pr", p, i) for i in range(minlen)]
                ctx["regs"].append((p, ids))
                for i, ident in enumerate(ids):
                    ctx["q"][ident] = [Qx(p, i)] + [Qx(p, f) for f, v in ctx["idx"] if v == i]
                    ctx["pq"].append(ident)
            elif kind == "f":
                ctx["f"] += [p, p, p]
            elif kind == "idx":
                ctx["idx"].append((p, None))
            elif kind == "cnt":
                ctx["cnt"].append((p, None))
        for p, kind in params:  # an index parameter selects a qubit of a register that has at least `minlen` qubits
            if kind == "idx":
                for rn, ids in ctx["regs"]:
                    if len(ids) >= minlen:
                        ctx["q"][("ix", rn, p)] = [Qx(rn, p)]
                        ctx["pq"].append(("ix", rn, p))
        return ctx

    # ---- statements inside a subcircuit
    def angle(self, ctx):
        rng = self.rng
        if ctx["f"] and rng.random() < 0.55:
            return rng.choice(ctx["f"])
        return ang(rng)

    def cnt_form(self, ctx, zero_ok=True):
        rng = self.rng
        c = [f for f, v in ctx["cnt"] if v is None or (0 <= v <= 3 and (zero_ok or v >= 1))]
        if c and rng.random() < 0.55:
            return rng.choice(c)
        return rng.choice([0, 1, 2, 2, 3] if zero_ok and rng.random() < 0.3 else [1, 2, 2, 3])

    def pick_idents(self, ctx, k, avail=None):
        rng = self.rng
        ids = [i for i in ctx["q"] if avail is None or i in avail]
        if len(ids) < k:
            return None
        if ctx.get("pq") and rng.random() < 0.65:
            pref = [i for i in ids if i in ctx["pq"]]
            if len(pref) >= k:
                ids = pref
        elif ctx.get("pq") and rng.random() < 0.5:
            rest = [i for i in ids if i not in ctx["pq"]]
            if len(rest) >= k:
                ids = rest
        return rng.sample(ids, k)

    def gate(self, ctx, avail=None, name=None):
        rng = self.rng
        navail = len([i for i in ctx["q"] if avail is None or i in avail])
        if name is None:
            x = rng.random()
            name = rng.choice(_TRIPLE) if (navail >= 3 and x < 0.12) else rng.choice(_DOUBLE) if (navail >= 2 and x < 0.5) else rng.choice(_SINGLE)
        ids = self.pick_idents(ctx, _arity(name), avail)
        if ids is None:
            return None
        qi, args = iter(ids), []
        for _pn, kind in _params_of(name):
            if kind == "q":
                args.append(rng.choice(ctx["q"][next(qi)]))
            elif kind == "i":
                c = [f for f, _v in ctx["idx"] + ctx["cnt"]]
                args.append(rng.choice(c) if c and rng.random() < 0.4 else rng.randrange(-2, 7))
            else:
                args.append(self.angle(ctx))
        if self.idle and rng.random() < 0.08:
            name = "I_" + name
            self.bump("idle gate")
        return ["g", name, args], set(ids)

    def call_args(self, name, ctx, avail=None):
        """arguments for a call of macro `name` from ctx -> (args, idents) | None"""
        rng = self.rng
        info = self.info[name]
        nq = sum(1 for _p, k in info["params"] if k == "q")
        ids = self.pick_idents(ctx, nq, avail)
        if ids is None:
            return None
        qi, args, used = iter(ids), [], set(ids)
        for _p, kind in info["params"]:
            if kind == "q":
                args.append(rng.choice(ctx["q"][next(qi)]))
            elif kind == "reg":
                c = [(rn, rids) for rn, rids in ctx["regs"] if len(rids) >= 2]
                if not c or avail is not None:
                    return None
                rn, rids = rng.choice(c)
                args.append(rn)
                used |= set(rids)
            elif kind == "f":
                args.append(self.angle(ctx))
            elif kind == "idx":
                c = [f for f, v in ctx["idx"] if v in (0, 1)] + [f for f, v in ctx["idx"] if v is None]
                args.append(rng.choice(c) if c and rng.random() < 0.5 else rng.choice([0, 1]))
            else:
                args.append(self.cnt_form(ctx, zero_ok=False))
        return args, used

    def empty_item(self, ctx, where):
        """something that executes nothing; where: top | seq | par"""
        rng = self.rng
        c = ["par", "loop_seq", "loop_par"]
        if where in ("top", "par"):
            c.append("seq")
        if where != "par" and any(i["type"] == "empty" for i in self.info.values()):
            c += ["macro", "macro"]
        if where == "par":
            c = ["seq"]
        kind = rng.choice(c)
        self.bump("empty:" + kind + ":" + where)
        if kind == "par":
            return ["par", []]
        if kind == "seq":
            return ["seq", []]
        if kind == "loop_seq":
            return ["loop", self.cnt_form(ctx, zero_ok=False), ["seq", []]]
        if kind == "loop_par":
            return ["loop", self.cnt_form(ctx, zero_ok=False), ["par", []]]
        name = rng.choice([m for m, i in self.info.items() if i["type"] == "empty"])
        r = self.call_args(name, ctx)
        return ["g", name, r[0]] if r else ["par", []]

    def stmts(self, ctx, budget, depth=0, avail=None, pure_only=False):
        """statements of a sequential context inside a subcircuit"""
        rng, out = self.rng, []
        for _ in range(budget):
            x = rng.random()
            it = None
            if x < self.k["empties"] and avail is None:
                it = self.empty_item(ctx, "seq")
            elif x < 0.30 and depth < 3:
                it = self.loop(ctx, depth, avail, pure_only)
            elif x < 0.42 and depth < 3:
                it = self.par(ctx, depth, avail)
            elif x < 0.58:
                it = self.call(ctx, avail, pure_only or avail is not None)
            if it is None:
                r = self.gate(ctx, avail)
                it = r[0] if r else None
            if it is not None:
                out.append(it)
        return out

    def loop(self, ctx, depth, avail, pure_only=False):
        rng = self.rng
        if rng.random() < self.k["shape"]:
            p = self.par(ctx, depth + 1, avail)
            if p is not None:
                self.bump("shape:loop body is directly a parallel block")
                return ["loop", self.cnt_form(ctx), p]
        body = self.stmts(ctx, rng.choice([1, 1, 2, 3]), depth + 1, avail, pure_only)
        if len(body) == 1 and body[0][0] == "par":
            self.bump("shape:loop { < > }")
        return ["loop", self.cnt_form(ctx), ["seq", body]]

    def par(self, ctx, depth, avail):
        rng = self.rng
        ids = [i for i in ctx["q"] if avail is None or i in avail]
        if ctx.get("macro"):
            ids = [i for i in ids if isinstance(i, tuple) and i[0] == "p"]  # distinct qubit parameters are distinct qubits
        if not ids:
            return None
        rng.shuffle(ids)
        nb = rng.choice([1, 2, 2, 2, 3]) if rng.random() < self.k["shape"] else rng.choice([2, 2, 3])
        nb = min(nb, len(ids))
        groups = [set(ids[j::nb]) for j in range(nb)]
        brs = []
        for gset_ in groups:
            x = rng.random()
            if x < 0.5:
                r = self.gate(ctx, gset_)
                if r:
                    brs.append(r[0])
            elif x < 0.62:
                c = self.call(ctx, gset_, True)
                if c:
                    brs.append(c)
                    self.bump("macro call as a parallel branch")
            elif x < 0.7 and self.k["empties"] > 0:
                brs.append(["seq", []])
                self.bump("empty:seq:par")
            else:
                inner = []
                for _ in range(rng.choice([1, 1, 2, 3])):
                    if depth < 2 and rng.random() < 0.2:
                        lb = [g[0] for g in [self.gate(ctx, gset_) for _ in range(rng.choice([1, 2]))] if g]
                        inner.append(["loop", self.cnt_form(ctx), ["seq", lb]])
                    else:
                        r = self.gate(ctx, gset_)
                        if r:
                            inner.append(r[0])
                brs.append(["seq", inner])
        if nb == 1:
            self.bump("shape:one-branch parallel block")
        return ["par", brs]

    def call(self, ctx, avail=None, pure_only=False):
        rng = self.rng
        c = [m for m, i in self.info.items() if i["type"] in ("inner", "empty") and (not pure_only or i["pure"])
             and (ctx.get("macro") is None or m in ctx.get("callable", ()))]
        if not c:
            return None
        name = rng.choice(c)
        r = self.call_args(name, ctx, avail)
        if r is None:
            return None
        self.bump("call of a macro inside a subcircuit")
        return ["g", name, r[0]]

    # ---- macros
    def param_names(self, k, kinds):
        rng = self.rng
        globs = [nm for nm, _v in self.lets] + list(self.regs) + list(self.named)
        fresh = [x for x in FRESH]
        rng.shuffle(fresh)
        out = []
        for kind in kinds:
            if globs and rng.random() < self.k["shadow"]:
                nm = rng.choice(globs)
                if nm not in out:
                    out.append(nm)
                    what = self.role.get(nm)
                    what = f"let({what})" if what else "register" if nm == self.regname else "register alias" if nm in self.regs else "qubit alias"
                    self.bump(f"shadow:{kind} parameter called like a {what}")
                    continue
            out.append(next(x for x in fresh if x not in out))
        return out

    def new_macro_name(self):
        return f"m{len(self.macros)}"

    def inner_macro(self, empty=False):
        rng = self.rng
        k = rng.choice([1, 2, 2, 3, 4])
        kinds = ["q"] + [rng.choice(["q", "q", "q", "reg", "f", "f", "idx", "cnt"]) for _ in range(k - 1)]
        rng.shuffle(kinds)
        names = self.param_names(k, kinds)
        params = list(zip(names, kinds))
        name = self.new_macro_name()
        ctx = self.macro_ctx(params)
        ctx["callable"] = [m for m, i in self.info.items() if i["type"] in ("inner", "empty")]
        if empty:
            body = ["par" if rng.random() < 0.4 else "seq", []]
        elif rng.random() < self.k["shape"] and sum(1 for kd in kinds if kd == "q") >= 2:
            body = self.par(ctx, 1, None)
            self.bump("shape:macro body is directly a parallel block")
        else:
            body = ["seq", self.stmts(ctx, rng.choice([1, 1, 2, 3, 4]), 1)]
        self.macros.append([name, names, body])
        pnames = set(names)

        def pure(it):
            if it[0] == "g":
                if it[1] in self.info and not self.info[it[1]]["pure"]:
                    return False
                return all(is_num(a) or (a if isinstance(a, str) else a[1]) in pnames and (isinstance(a, str) or not isinstance(a[2], str) or a[2] in pnames)
                           for a in it[2])
            if it[0] == "loop":
                return (is_num(it[1]) or it[1] in pnames) and pure(it[2])
            return all(pure(x) for x in it[1])

        self.info[name] = {"params": params, "type": "empty" if empty else "inner", "pure": pure(body) and "reg" not in kinds and "idx" not in kinds, "nsubs": 0}
        return name

    def section(self, ctx, style=None, count=None, size=None):
        """one subcircuit (a list of statements of a sequential context that is NOT inside a subcircuit)"""
        rng = self.rng
        style = style or rng.choice(["block", "block", "plain"])
        lo, hi = self.k["stmts"]
        body = self.stmts(ctx, size or rng.randint(lo, hi))
        if count == "auto":
            count = self.cnt_form(ctx, zero_ok=False) if rng.random() < self.k["subcount"] else None
        self.bump("subcircuit style:" + style)
        if style == "block":
            if count is not None:
                self.bump("subcircuit block with an iteration count")
            return [["sub", count, body]]
        return [["g", "prepare_all", []]] + body + [["g", "measure_all", []]]

    def outer_macro(self, shape=None, style=None):
        """a macro whose body contains whole subcircuits: callable outside subcircuits only"""
        rng = self.rng
        k = rng.choice([1, 1, 2, 3])
        kinds = ["q"] + [rng.choice(["q", "f", "cnt", "f", "reg", "idx"]) for _ in range(k - 1)]
        rng.shuffle(kinds)
        names = self.param_names(k, kinds)
        params = list(zip(names, kinds))
        name = self.new_macro_name()
        ctx = self.macro_ctx(params)
        ctx["callable"] = [m for m, i in self.info.items() if i["type"] in ("inner", "empty")]
        outers = [m for m, i in self.info.items() if i["type"] == "outer"]
        shape = shape or rng.choice(["one", "one", "two", "loop", "calls"] if outers else ["one", "one", "two", "loop"])
        nsubs, items = 0, []
        if rng.random() < self.k["empties"]:
            items.append(self.empty_item(ctx, "seq"))
        if shape == "calls" and outers:
            callee = rng.choice(outers)
            r = self.call_args(callee, ctx)
            if r is None:
                shape = "one"
            else:
                items.append(["g", callee, r[0]])
                nsubs += self.info[callee]["nsubs"]
                self.bump("nested:macro calls a macro that contains a subcircuit")
                if rng.random() < 0.5:
                    items += self.section(ctx, style, "auto")
                    nsubs += 1
        if shape in ("one", "two"):
            for _ in range(1 if shape == "one" else 2):
                items += self.section(ctx, style, "auto")
                nsubs += 1
        elif shape == "loop":
            items.append(["loop", self.cnt_form(ctx, zero_ok=False), ["seq", self.section(ctx, style, "auto")]])
            nsubs += 1
            self.bump("nested:loop around a subcircuit inside a macro")
        if rng.random() < self.k["empties"]:
            items.append(self.empty_item(ctx, "seq"))
        self.macros.append([name, names, ["seq", items]])
        self.info[name] = {"params": params, "type": "outer", "pure": False, "nsubs": nsubs}
        return name

    # ---- the body
    PLACEMENTS = ("top", "block", "loop", "loop2", "macro", "macro_loop", "macro_block", "macro_macro", "macro_inner_loop")

    def unit(self, g, placement, style=None):
        """top-level statements holding one (or two) subcircuits at the given placement"""
        rng = self.rng
        self.bump("placement:" + placement)
        if placement == "top":
            return self.section(g, style, "auto")
        if placement == "block":
            return [["seq", self.section(g, style, "auto") + (self.section(g, None, "auto") if rng.random() < 0.3 else [])]]
        if placement == "loop":
            return [["loop", self.cnt_form(g, zero_ok=False), ["seq", self.section(g, style, "auto") + (self.section(g, None, "auto") if rng.random() < 0.3 else [])]]]
        if placement == "loop2":
            return [["loop", self.cnt_form(g, zero_ok=False), ["seq", [["loop", self.cnt_form(g, zero_ok=False), ["seq", self.section(g, style, "auto")]]]]]]
        shape = {"macro_macro": "calls", "macro_inner_loop": "loop"}.get(placement)
        if placement == "macro_macro" and not any(i["type"] == "outer" for i in self.info.values()):
            self.outer_macro("one", style)
        name = self.outer_macro(shape, style)
        r = self.call_args(name, g)
        if r is None:
            raise Invalid("no arguments for the call")
        call = ["g", name, r[0]]
        if placement == "macro_loop":
            return [["loop", self.cnt_form(g, zero_ok=False), ["seq", [call]]]]
        if placement == "macro_block":
            return [["seq", [call]]]
        return [call]

    def program(self, placements, styles=None, override=None, tail=None):
        """-> prog.  placements: one entry per unit of the body (in order)."""
        rng = self.rng
        lo, hi = self.k["macros"]
        for _ in range(rng.randint(lo, hi)):
            self.inner_macro()
        if self.k["empties"] > 0 and rng.random() < 0.5:
            self.inner_macro(empty=True)
        g = self.global_ctx()
        body = []
        for j, pl in enumerate(placements):
            if rng.random() < self.k["empties"]:
                body.append(self.empty_item(g, "top"))
            before, start = len(self.macros), len(body)
            body += self.unit(g, pl, styles[j] if styles else None)
            if j == len(placements) - 1 and start > 0 and len(self.macros) > before and rng.random() < self.k["late_def"]:
                # the macros created for the LAST unit are defined just before it instead of in the header
                body[start:start] = [["def", m[0]] for m in self.macros[before:]]
                self.bump("position:macro defined after the first body statements")
        if rng.random() < self.k["empties"]:
            body.append(self.empty_item(g, "top"))
        if tail if tail is not None else rng.random() < self.k["tail"]:
            body += [["g", "prepare_all", []]] + self.stmts(g, rng.choice([1, 2]))
            self.bump("position:dangling tail (prepare_all + gates, no measure_all)")
        prog = {"gset": dict(GSET), "idle": self.idle, "lets": self.lets, "reg": self.reg, "maps": self.maps, "macros": self.macros,
                "body": body, "override": None}
        if override if override is not None else rng.random() < 0.4:
            prog["override"] = self.override()
        return prog

    def override(self, only=None):
        rng = self.rng
        ov = {}
        names = [nm for nm, _v in self.lets]
        rng.shuffle(names)
        for nm in names[: rng.choice([1, 1, 2, 3])] if only is None else only:
            r = self.role[nm]
            old = dict(map(tuple, self.lets))[nm]
            if r == "f":
                ov[nm] = ang(rng)
            elif r == "idx":
                ov[nm] = rng.randrange(self.n)
            elif r == "cnt":
                ov[nm] = rng.choice([x for x in (1, 2, 3) if x != old])
            else:
                ov[nm] = old if rng.random() < 0.5 else float(old)
        self.bump("override_dict")
        return ov


# ------------------------------------------------------------------ pipelines
PERMS = [list(p) for p in itertools.permutations(["S", "L", "M"])]
PRE_POOL = [[], ["S"], ["L"], ["M"], ["Mk"], ["S", "S"], ["M", "M"], ["L", "L"], ["S", "M"], ["M", "S"], ["L", "M"], ["M", "L"], ["S", "L"],
            ["L", "S"], ["Mk", "S", "L"], ["Mk", "L", "M", "S"], ["S", "M", "S", "L"]] + PERMS
SWEEP_PIPES = [{}, {"pre": ["S"]}, {"pre": ["M"]}, {"pre": ["L"]}, {"pre": ["M", "S"]}, {"pre": ["L", "M"]}, {"pre": ["Mk", "L"]},
               {"parse_kw": ["expand_macro"]}, {"parse_kw": ["expand_let"]}, {"parse_kw": ["expand_macro", "expand_let"]},
               {"form": "sexpr"}, {"entry": "string"}, {"backend": "fresh"}, {"sep": ";"}, {"final_newline": False}] + [{"pre": p} for p in PERMS]


def random_api(rng, prog):
    api = {"form": "text" if rng.random() < 0.75 else "sexpr", "pre": list(rng.choice(PRE_POOL)) if rng.random() < 0.7 else [],
           "backend": rng.choice(["default", "default", "fresh", "shared", "shared"]), "parse_kw": [k for k in ("expand_macro", "expand_let") if rng.random() < 0.15],
           "ov_via": "parse" if rng.random() < 0.35 else "fill"}
    if rng.random() < 0.1 and not prog.get("override"):
        api["entry"] = "string"
    if rng.random() < 0.15:
        api["sep"] = ";"
    if rng.random() < 0.1:
        api["final_newline"] = False
    if api["ov_via"] == "fill" and prog.get("override") and "L" in api["pre"] and rng.random() < 0.5:
        pass  # (the first fill_in_let of the pipeline takes the override wherever it stands)
    return {k: v for k, v in api.items() if v != API_DEFAULT.get(k)}


def _valid(prog):
    try:
        semantics(prog)
        return True
    except Invalid:
        return False


def gen_valid(rng, make, tries=60):
    """make(rng) -> (prog, feat) | raises Invalid; retried until the interpreter accepts the description"""
    for _ in range(tries):
        try:
            prog, feat = make(rng)
            semantics(prog)
            return prog, feat
        except Invalid:
            continue
    raise Invalid("no valid program found")


# ------------------------------------------------------------------ theme: nested subcircuits
COMPANY = ("alone", "alone", "top_block_first", "top_plain_first", "top_block_last", "top_plain_last", "two_nested")


def nested_prog(rng, placement, style, company):
    g = Gen(rng, knobs={"empties": 0.05, "tail": 0.0, "late_def": 0.1})
    pls, sts = [placement], [style]
    if company == "two_nested":
        pls.append(rng.choice([p for p in Gen.PLACEMENTS if p != "top"]))
        sts.append(rng.choice(["block", "plain"]))
    elif company != "alone":
        st = "block" if "block" in company else "plain"
        if company.endswith("first"):
            pls, sts = ["top"] + pls, [st] + sts
        else:
            pls, sts = pls + ["top"], sts + [st]
    prog = g.program(pls, sts)
    feat = dict(g.feat)
    feat[f"nested:{placement}/{style}/{company}"] = 1
    return prog, feat


def only_nested(prog):
    """no subcircuit block / prepare_all directly among the top-level statements"""
    return not any(it[0] == "sub" or (it[0] == "g" and it[1] == "prepare_all") for it in prog["body"])


# ------------------------------------------------------------------ theme: name shadowing (template + random)
SHADOWED = ("t", "k", "c", "N", "q", "r", "w", "v")
PKINDS = ("q", "reg", "f", "idx", "cnt")


def _mentions(it, name):
    if it[0] == "g":
        return any(a == name or (isinstance(a, list) and (a[1] == name or a[2] == name)) for a in it[2])
    if it[0] == "loop":
        return it[1] == name or _mentions(it[2], name)
    if it[0] == "sub":
        return it[1] == name or any(_mentions(x, name) for x in it[2])
    return any(_mentions(x, name) for x in it[1])


def shadow_prog(rng, which, pkind, ovmode, via2, wrap):
    """let t, k, c, N; register q[N]; map r q[k:N]; map w q[k]; map v r - and a macro whose first parameter is called
    `which` (kind pkind), which uses it, uses every OTHER global, and calls g0, which uses every global itself."""
    lets = [["t", ang(rng)], ["k", 1], ["c", 2], ["N", 4]]
    rng.shuffle(lets)
    maps = [["r", "slice", "q", "k", "N", None], ["w", "item", "q", "k"], ["v", "whole", "r"]]
    everything = [["g", "R", ["x", "t"]], ["loop", "c", ["seq", [["g", "H1", [Qx("r", 0)]]]]], ["g", "H2", ["w"]],
                  ["g", "NS", [Qx("v", 1), Qx("q", 0)]], ["g", "P", [Qx("q", "k"), "c"]], ["g", "CR", [Qx("r", 1), "t", Qx("q", 0)]]]
    g0 = ["g0", ["x"], ["seq", rng.sample(everything, len(everything))]]
    Z = "v" if which == "q" else "q"
    y = "y" if which != "y" else "z"
    use = {"q": [["g", "H1", [which]], ["g", "R", [which, 0.4]]],
           "reg": [["g", "H2", [Qx(which, 0)]], ["g", "CX", [Qx(which, 1), Qx(which, 0)]]],
           "f": [["g", "R", [y, which]], ["g", "U", [y, which, 0.3]]],
           "idx": [["g", "H1", [Qx(Z, which)]], ["g", "P", [y, which]]],
           "cnt": [["loop", which, ["seq", [["g", "R", [y, 0.3]], ["g", "H1", [y]]]]]]}[pkind]
    indirect = [dict_free for dict_free in [["g", "R", [y, "t"]], ["loop", "c", ["par", [["g", "H1", [Qx("r", 0)]], ["g", "H2", [Qx("q", 0)]]]]], ["g", "S", ["w"]],
                                            ["g", "NS", [Qx("v", 1), Qx("v", 0)]], ["g", "X", [Qx("q", "k")]], ["g", "CX", [Qx("r", 1), Qx("q", 0)]]]
                if not _mentions(dict_free, which)]
    body = use + rng.sample(indirect, rng.randint(2, len(indirect))) + [["g", "g0", [y]]]
    rng.shuffle(body)
    macros = [g0, ["m", [which, y], ["seq", body]]]
    callee = "m"
    if via2:
        macros.append(["m2", [which, "z"], ["seq", rng.sample([["g", "m", [which, "z"]], ["g", "H1", ["z"]]], 2)]])
        callee = "m2"
    qforms = [[Qx("q", 0)], [Qx("q", 1), Qx("r", 0), "w", Qx("q", "k")], [Qx("q", 2), Qx("v", 1)], [Qx("q", 3), Qx("r", 2)]]
    a, b = rng.sample(range(4), 2)
    arg = {"q": rng.choice(qforms[a]), "reg": rng.choice(["q", "r", "v"]), "f": rng.choice([ang(rng), "t", "c"]),
           "idx": rng.choice([0, 1, "k", 1]), "cnt": rng.choice([1, 2, 3, "c", "k"])}[pkind]
    call = ["g", callee, [arg, rng.choice(qforms[b])]]
    direct = {"t": ["g", "R", [Qx("q", 0), "t"]], "k": ["g", "H1", [Qx("q", "k")]], "c": ["loop", "c", ["seq", [["g", "R", [Qx("q", 1), 0.4]], ["g", "H2", [Qx("q", 1)]]]]],
              "N": ["g", "P", [Qx("q", 0), "N"]], "q": ["g", "NS", [Qx("q", 3), Qx("q", 0)]], "r": ["g", "NS", [Qx("r", 0), Qx("r", 1)]],
              "w": ["g", "H1", ["w"]], "v": ["g", "NS", [Qx("v", 1), Qx("v", 0)]]}[which]
    scr = [["g", rng.choice(["H1", "H2"]), [Qx("q", i)]] for i in range(3)]
    mid = [call] if wrap != "loop" else [["loop", rng.choice([1, 2, "c"]), ["seq", [call]]]]
    inside = scr + mid + [direct, ["g", "NS", [Qx("q", 1), Qx("q", 0)]]]
    sec = [["sub", None, inside]] if rng.random() < 0.6 else [["g", "prepare_all", []]] + inside + [["g", "measure_all", []]]
    if wrap == "subloop":
        sec = [["loop", 2, ["seq", sec]]]
    elif wrap == "submacro":  # the subcircuit (which uses the globals directly) stands in a macro body
        inner = sec[0][2] if sec[0][0] == "sub" else sec
        inner.insert(rng.randrange(len(inner)) if sec[0][0] == "sub" else rng.randrange(1, len(inner)), ["g", "H1", ["zz"]])
        macros.append(["outer", ["zz"], ["seq", sec]])
        sec = [["g", "outer", [Qx("q", rng.randrange(4))]]]
        if rng.random() < 0.4:
            sec = [["loop", 2, ["seq", sec]]]
    prog = {"gset": dict(GSET), "idle": False, "lets": lets, "reg": ["q", "N"], "maps": maps, "macros": macros, "body": sec, "override": None}
    if ovmode != "none":
        cand = {"t": [ang(rng)], "k": [0, 2, 0.0], "c": [1, 3, 3.0], "N": [3, 4.0]}
        name = which if (ovmode == "same" and which in cand) else rng.choice([x for x in cand if x != which])
        prog["override"] = {name: rng.choice(cand[name])}
        if rng.random() < 0.3:
            other = rng.choice([x for x in cand if x != name])
            prog["override"][other] = rng.choice(cand[other])
    feat = {f"shadow:template:{pkind} parameter called like {which}": 1, "shadow:override=" + ovmode: 1, "shadow:wrap=" + wrap: 1,
            "shadow:through a second macro that passes the parameter on": int(bool(via2))}
    return prog, feat


# ------------------------------------------------------------------ theme: positions (empty things, first / last)
EMPTY_KINDS = ("par", "seq", "loop_seq", "loop_par", "macro", "sub", "pm")
PLACES = ("top_first", "top_between", "top_last", "sub_first", "sub_last", "loop_first", "loop_last", "macro_first", "macro_last",
          "branch", "loop_before_sub", "loop_after_sub", "outer_macro_first", "outer_macro_last")


def position_prog(rng, kind, place):
    n = 3
    q = lambda i: Qx("q", i)
    E = {"par": ["par", []], "seq": ["seq", []], "loop_seq": ["loop", rng.choice([1, 2, 3]), ["seq", []]], "loop_par": ["loop", rng.choice([1, 2]), ["par", []]],
         "macro": ["g", "e0", [q(rng.randrange(n))]], "sub": ["sub", None, []], "pm": None}[kind]
    outside = place.startswith(("top_", "loop_before", "loop_after", "outer_macro"))
    if kind in ("sub", "pm") and not outside:
        raise Invalid("a subcircuit inside a subcircuit")
    if kind == "seq" and place not in ("top_first", "top_between", "top_last", "branch"):
        raise Invalid("a sequential block directly inside a sequential block")
    if place == "branch" and kind not in ("seq", "macro"):
        raise Invalid("not a parallel branch")
    Es = [E] if kind != "pm" else [["g", "prepare_all", []], ["g", "measure_all", []]]
    G1 = lambda *qs: ["g", {1: rng.choice(["H1", "H2"]), 2: "NS", 3: "T3"}[len(qs)], list(qs)]
    R = lambda x: ["g", "R", [x, ang(rng)]]

    def put(where, items):
        if place == where + "_first":
            return Es + items
        if place == where + "_last":
            return items + Es
        return items

    mm = ["mm", ["a", "b"], ["seq", put("macro", [G1("a"), ["g", "CR", ["a", ang(rng), "b"]], G1("b", "a")])]]
    e0 = ["e0", ["a"], [rng.choice(["seq", "par"]), []]]
    loop = ["loop", rng.choice([2, 3]), ["seq", put("loop", [R(q(0)), G1(q(1), q(0))])]]
    par = ["par", [G1(q(0)), ["seq", [R(q(1)), G1(q(1))]]] + (Es if place == "branch" else [])]
    rng.shuffle(par[1])
    subA = put("sub", [G1(q(0)), G1(q(1)), loop, ["g", "mm", [q(2), q(0)]], par, G1(q(2), q(1))])
    subB = [G1(q(2)), ["g", "mm", [q(0), q(1)]], R(q(2)), G1(q(0), q(2))]
    A = [["sub", None, subA]] if rng.random() < 0.5 else [["g", "prepare_all", []]] + subA + [["g", "measure_all", []]]
    B = [["sub", None, subB]] if rng.random() < 0.5 else [["g", "prepare_all", []]] + subB + [["g", "measure_all", []]]
    macros = [e0, mm]
    if place.startswith("loop_before") or place.startswith("loop_after"):
        B = [["loop", rng.choice([1, 2, 3]), ["seq", (Es + B) if place == "loop_before_sub" else (B + Es)]]]
    if place.startswith("outer_macro"):
        macros.append(["om", ["a"], ["seq", (Es + B) if place.endswith("first") else (B + Es)]])
        B = [["g", "om", [q(1)]]]
        if kind == "macro":
            raise Invalid("(an empty macro called with a register qubit from a macro: covered by the random programs)")
    body = (Es if place == "top_first" else []) + A + (Es if place == "top_between" else []) + B + (Es if place == "top_last" else [])
    prog = {"gset": dict(GSET), "idle": False, "lets": [], "reg": ["q", n], "maps": [], "macros": macros, "body": body, "override": None}
    return prog, {f"position:empty {kind} at {place}": 1}


# ------------------------------------------------------------------ theme: shapes one level off
SHAPES = ("loop_par_direct", "loop_seq_par", "macro_par_body", "call_only_program", "call_only_sub", "call_only_loop", "call_only_branch",
          "one_branch_par", "one_branch_seq", "loop1", "par_of_seqs", "russian_doll", "sub_only_loop", "loop_only_sub", "twice_same_shape")


def shape_prog(rng, variant):
    n = 3
    q = lambda i: Qx("q", i)
    H = lambda x: ["g", rng.choice(["H1", "H2"]), [x]]
    R = lambda x: ["g", "R", [x, ang(rng)]]
    NS = lambda a, b: ["g", "NS", [a, b]]
    k = rng.choice([1, 2, 3])
    macros = [["mp", ["a", "b"], ["par", [H("a"), ["seq", [R("b"), H("b")]]]]], ["ms", ["a", "b"], ["seq", [H("a"), NS("b", "a")]]]]
    pre, post = [H(q(0)), H(q(1)), H(q(2))], [NS(q(1), q(0)), NS(q(2), q(1))]
    pair = ["par", [["seq", [R(q(0)), H(q(0))]], NS(q(2), q(1))]]
    inside = None
    body = None
    if variant == "loop_par_direct":
        inside = pre + [["loop", k, pair]] + post
    elif variant == "loop_seq_par":
        inside = pre + [["loop", k, ["seq", [pair]]]] + post
    elif variant == "macro_par_body":
        inside = pre + [["g", "mp", [q(2), q(0)]], ["loop", k, ["seq", [["g", "mp", [q(0), q(1)]]]]]] + post
    elif variant == "call_only_program":
        macros.append(["whole", ["a", "b"], ["seq", [["sub", None, [H("a"), H("b"), ["g", "ms", ["a", "b"]], NS("a", "b")]]]]])
        body = [["g", "whole", rng.sample([q(0), q(1), q(2)], 2)]]
    elif variant == "call_only_sub":
        body = [["sub", None, [["g", "ms", [q(1), q(2)]]]], ["sub", None, [["g", "mp", [q(2), q(0)]]]]]
    elif variant == "call_only_loop":
        inside = pre + [["loop", k, ["seq", [["g", "ms", [q(0), q(2)]]]]], ["loop", k, ["par", [["g", "ms", [q(1), q(0)]]]]]] + post
    elif variant == "call_only_branch":
        inside = pre + [["par", [["g", "ms", [q(0), q(2)]], H(q(1))]], ["par", [["seq", [["g", "mp", [q(0), q(1)]]]]]]] + post
    elif variant == "one_branch_par":
        inside = pre + [["par", [NS(q(2), q(0))]], ["loop", k, ["par", [R(q(1))]]]] + post
    elif variant == "one_branch_seq":
        inside = pre + [["par", [["seq", [NS(q(2), q(0)), R(q(0))]]]], ["par", [["seq", [H(q(1))]]]]] + post
    elif variant == "loop1":
        inside = pre + [["loop", 1, ["seq", [NS(q(0), q(2))]]], ["loop", 1, ["par", [R(q(1)), H(q(0))]]], ["loop", 1, ["seq", [["loop", 1, ["seq", [H(q(2))]]]]]]] + post
    elif variant == "par_of_seqs":
        inside = pre + [["par", [["seq", [H(q(0))]], ["seq", [R(q(1))]], ["seq", [H(q(2))]]]], ["par", [["seq", [NS(q(0), q(1))]], ["seq", []]]]] + post
    elif variant == "russian_doll":
        macros.append(["doll", ["a", "b"], ["seq", [["loop", k, ["seq", [["sub", None, [["loop", 2, ["par", [["seq", [["g", "ms", ["a", "b"]]]]]]]]]]]]]]])
        body = [["loop", 2, ["seq", [["g", "doll", rng.sample([q(0), q(1), q(2)], 2)]]]]]
    elif variant == "sub_only_loop":
        body = [["sub", None, [["loop", rng.choice([2, 3]), ["seq", [H(q(0)), NS(q(1), q(0))]]]]]]
    elif variant == "loop_only_sub":
        body = [["loop", rng.choice([2, 3]), ["seq", [["sub", None, pre[:2] + post[:1]]]]]]
    elif variant == "twice_same_shape":
        one = lambda: [["loop", 2, ["seq", [["sub", None, [H(q(0)), R(q(1)), NS(q(1), q(0))]]]]]]
        body = one() + one() + [["sub", None, [H(q(0)), R(q(1)), NS(q(1), q(0))]]]
    else:
        raise ValueError(variant)
    if body is None:
        style = rng.random()
        body = [["sub", None, inside]] if style < 0.4 else [["g", "prepare_all", []]] + inside + [["g", "measure_all", []]] if style < 0.7 else [["loop", 2, ["seq", [["sub", None, inside]]]]]
    prog = {"gset": dict(GSET), "idle": False, "lets": [], "reg": ["q", n], "maps": [], "macros": macros, "body": body, "override": None}
    return prog, {"shape:" + variant: 1}


# ------------------------------------------------------------------ random programs, twins, programs that fail on purpose
def random_prog(rng, knobs=None, max_units=3):
    g = Gen(rng, knobs=knobs)
    k = rng.choice([1, 1, 2, 2, 3][: 2 * max_units - 1])
    pls = [rng.choice(Gen.PLACEMENTS + ("top", "loop", "macro")) for _ in range(k)]
    prog = g.program(pls)
    return prog, dict(g.feat)


def _map_literals(it, fn):
    if it[0] == "g":
        return ["g", it[1], [fn(a) if isinstance(a, float) else a for a in it[2]]]
    if it[0] == "loop":
        return ["loop", it[1], _map_literals(it[2], fn)]
    if it[0] == "sub":
        return ["sub", it[1], [_map_literals(x, fn) for x in it[2]]]
    if it[0] == "def":
        return it
    return [it[0], [_map_literals(x, fn) for x in it[1]]]


TWINS = ("same", "lets", "override", "literals", "ints", "size", "size", "ints")


def twin(rng, prog, mode):
    """the same program text except for ONE kind of detail (so that anything remembered about `prog` is wrong for it)"""
    for _ in range(12):
        p = json.loads(json.dumps(prog))
        if mode == "lets":
            p["lets"] = [[nm, ang(rng) if isinstance(v, float) and not integral(v) else v] for nm, v in p["lets"]]
        elif mode == "ints":
            p["lets"] = [[nm, v + rng.choice([-1, 1]) if (integral(v) and rng.random() < 0.6) else v] for nm, v in p["lets"]]
        elif mode == "override":
            ov = {}
            for nm, v in rng.sample(p["lets"], min(len(p["lets"]), rng.choice([1, 2]))):
                ov[nm] = ang(rng) if not integral(v) else rng.choice([v, float(v), v + 1, v - 1])
            p["override"] = ov or None
        elif mode == "literals":
            fn = lambda a: ang(rng)
            p["macros"] = [[nm, ps, _map_literals(b, fn)] for nm, ps, b in p["macros"]]
            p["body"] = [_map_literals(it, fn) for it in p["body"]]
        elif mode == "size":
            if isinstance(p["reg"][1], int):
                p["reg"][1] += 1
            else:
                p["lets"] = [[nm, v + 1 if nm == p["reg"][1] else v] for nm, v in p["lets"]]
        if _valid(p) and (mode == "same" or p != prog):
            return p, mode
        if mode in ("size", "same"):
            break
        if mode == "ints":
            mode = rng.choice(["ints", "ints", "lets"])
    return twin(rng, prog, "literals") if mode != "literals" else (json.loads(json.dumps(prog)), "same")


BREAKERS = ("gate_outside", "nested_sub", "index_deep", "unknown_gate", "measure_prepare_loop", "par_conflict", "macro_arity", "gate_after_measure")


def breaker(rng, prog, kind):
    """a program that is NOT valid (run between the judged ones; never judged itself)"""
    p = json.loads(json.dumps(prog))
    p["override"] = None
    r = p["reg"][0]
    sub = lambda items: ["sub", None, items]
    h = lambda i=0: ["g", "H1", [Qx(r, i)]]
    if kind == "gate_outside":
        p["body"] = [h()] + p["body"]
    elif kind == "gate_after_measure":
        p["body"] = p["body"] + [h()]
    elif kind == "nested_sub":
        p["body"] = p["body"] + [sub([h(), sub([h()])])]
    elif kind == "index_deep":
        p["macros"] = p["macros"] + [["zzbad", ["ii"], ["seq", [["g", "H1", [Qx(r, "ii")]]]]]]
        p["body"] = p["body"] + [sub([h(), ["loop", 2, ["seq", [["g", "zzbad", [9]]]]]])]
    elif kind == "unknown_gate":
        p["body"] = p["body"] + [sub([h(), ["g", "NOPE", [Qx(r, 0)]]])]
    elif kind == "measure_prepare_loop":
        p["body"] = p["body"] + [["g", "prepare_all", []], ["loop", 2, ["seq", [h(), ["g", "measure_all", []], ["g", "prepare_all", []]]]], ["g", "measure_all", []]]
    elif kind == "par_conflict":
        p["body"] = p["body"] + [sub([["par", [h(), ["g", "H2", [Qx(r, 0)]]]]])]
    elif kind == "macro_arity":
        p["macros"] = p["macros"] + [["zzone", ["aa"], ["seq", [["g", "H1", ["aa"]]]]]]
        p["body"] = p["body"] + [sub([["g", "zzone", [Qx(r, 0), Qx(r, 0)]]])]
    return p


def session_steps(rng):
    base, feat = gen_valid(rng, lambda r: random_prog(r, max_units=2))
    feat = dict(feat)
    api0 = random_api(rng, base)
    api0["backend"] = rng.choice(["shared", "shared", "shared", "default"])
    steps = [{"prog": base, "api": api0, "judge": True, "keep": rng.random() < 0.5, "collect": rng.random() < 0.2}]
    last = base
    for _ in range(rng.randint(2, 7)):
        x = rng.random()
        if x < 0.2:
            kind = rng.choice(BREAKERS)
            api = dict(api0) if rng.random() < 0.7 else random_api(rng, last)
            api.pop("entry", None)
            steps.append({"prog": breaker(rng, last, kind), "api": api, "judge": False, "keep": False})
            feat["session:failing program in between:" + kind] = feat.get("session:failing program in between:" + kind, 0) + 1
            continue
        if x < 0.78:
            p, mode = twin(rng, rng.choice([base, last]), rng.choice(TWINS))
            feat["session:twin:" + mode] = feat.get("session:twin:" + mode, 0) + 1
        else:
            p, f2 = gen_valid(rng, lambda r: random_prog(r, max_units=2))
            feat["session:unrelated program"] = feat.get("session:unrelated program", 0) + 1
        api = dict(api0) if rng.random() < 0.65 else random_api(rng, p)
        if rng.random() < 0.5:
            api["backend"] = "shared"
        steps.append({"prog": p, "api": api, "judge": True, "keep": rng.random() < 0.4, "collect": rng.random() < 0.2})
        last = p
    feat["session:length %d" % len(steps)] = 1
    feat["session:kept results read again at the end"] = sum(1 for s in steps if s.get("keep"))
    return steps, feat


def sweep_session(rng, mode, keep, kind):
    """base, [a program that fails], twin, base again, another twin - all through the shared backend object"""
    base, feat = gen_valid(rng, lambda r: random_prog(r, {"lets": (2, 4), "maps": (1, 3)}, max_units=2))
    api = {"backend": "shared", "pre": list(rng.choice(PRE_POOL)) if rng.random() < 0.5 else []}
    step = lambda p, judge=True: {"prog": p, "api": dict(api), "judge": judge, "keep": bool(keep and judge)}
    steps = [step(base)]
    if kind:
        steps.append(step(breaker(rng, base, kind), False))
    t1, m1 = twin(rng, base, mode)
    steps += [step(t1), step(base)]
    t2, m2 = twin(rng, t1, mode)
    steps.append(step(t2))
    feat = {"session:sweep twin:" + m1: 1, "session:sweep twin:" + m2: 1, "session:results " + ("kept" if keep else "dropped"): 1}
    if kind:
        feat["session:failing program in between:" + kind] = 1
    return steps, feat


# ------------------------------------------------------------------ cases
def random_case(rng, theme):
    """-> (steps, feat)"""
    if theme == "session":
        return session_steps(rng)
    if theme == "nested":
        args = (rng.choice([p for p in Gen.PLACEMENTS if p != "top"]), rng.choice(["block", "block", "plain"]), rng.choice(COMPANY))
        prog, feat = gen_valid(rng, lambda r: nested_prog(r, *args))
    elif theme == "shadow":
        if rng.random() < 0.5:
            args = (rng.choice(SHADOWED), rng.choice(PKINDS), rng.choice(["none", "same", "same", "other"]), rng.random() < 0.4,
                    rng.choice(["none", "none", "loop", "subloop", "submacro"]))
            prog, feat = gen_valid(rng, lambda r: shadow_prog(r, *args))
        else:
            prog, feat = gen_valid(rng, lambda r: random_prog(r, {"shadow": 0.95, "macros": (1, 3), "lets": (2, 4), "maps": (1, 3), "empties": 0.05}))
            if not prog.get("override") and rng.random() < 0.6:
                for _ in range(10):
                    p2, _m = twin(rng, prog, "override")
                    if p2.get("override"):
                        prog = p2
                        break
    elif theme == "position":
        prog, feat = gen_valid(rng, lambda r: random_prog(r, {"empties": 0.45, "late_def": 0.6, "tail": 0.12, "shadow": 0.2}))
    elif theme == "shape":
        prog, feat = gen_valid(rng, lambda r: random_prog(r, {"shape": 0.9, "empties": 0.1, "stmts": (1, 3)}))
    else:
        prog, feat = gen_valid(rng, lambda r: random_prog(r))
    api = random_api(rng, prog)
    if theme == "shadow" and rng.random() < 0.6:
        api["pre"] = list(rng.choice(PERMS))
    return [{"prog": prog, "api": api, "judge": True, "keep": False}], feat


def sweep_cases(rng, thorough):
    """-> [(theme, steps, feat)]: the systematic part"""
    out = []

    def add(theme, make, pipes):
        for api in pipes:
            try:
                prog, feat = gen_valid(rng, make, tries=25)
            except Invalid:
                return
            api = dict(api)
            if prog.get("override") and "ov_via" not in api and rng.random() < 0.4:
                api["ov_via"] = "parse"
            out.append((theme, [{"prog": prog, "api": api, "judge": True, "keep": False}], feat))

    pick = lambda k: rng.sample(SWEEP_PIPES, k)
    for pl, st, co in itertools.product(Gen.PLACEMENTS, ("block", "plain"), COMPANY[1:]):
        if pl == "top" and co != "alone":
            continue
        add("nested", lambda r: nested_prog(r, pl, st, co), pick(4) if thorough else ([{}] if co == "alone" else pick(1)))
    combos = list(itertools.product(SHADOWED, PKINDS, ("none", "same", "other"), (0, 1), ("none", "loop", "subloop", "submacro")))
    if not thorough:
        combos = rng.sample(combos, 150)
    for a in combos:
        add("shadow", lambda r: shadow_prog(r, *a), [{"pre": rng.choice(PERMS)} if rng.random() < 0.6 else rng.choice(SWEEP_PIPES)])
    for kind, place in itertools.product(EMPTY_KINDS, PLACES):
        try:
            position_prog(random.Random(0), kind, place)
        except Invalid:
            continue
        add("position", lambda r: position_prog(r, kind, place), pick(3) if thorough else pick(1))
    for v in SHAPES:
        add("shape", lambda r: shape_prog(r, v), SWEEP_PIPES if thorough else pick(3))
    kinds = list(BREAKERS) + [None] * 4
    for rep in range(3 if thorough else 1):
        for j, (mode, keep) in enumerate(itertools.product(sorted(set(TWINS)), (False, True))):
            try:
                steps, feat = sweep_session(rng, mode, keep, kinds[(j + rep * 5) % len(kinds)])
            except Invalid:
                continue
            out.append(("session", steps, feat))
    return out


def case_features(steps):
    f = {}
    for stp in steps:
        prog = stp["prog"]
        api = norm_api(stp.get("api"), prog)
        if not stp.get("judge", True):
            continue
        f["pipeline:form=" + api["form"]] = 1
        f["pipeline:entry=" + ("run_jaqal_string" if api["entry"] == "string" else "run_jaqal_circuit")] = 1
        f["pipeline:backend=" + api["backend"]] = 1
        f["pipeline:passes before run=" + ("".join(api["pre"]) or "none")] = 1
        for k in api["parse_kw"]:
            f["pipeline:parse " + k] = 1
        if prog.get("override"):
            f["pipeline:override via " + ("parser" if api["ov_via"] == "parse" else "fill_in_let")] = 1
        if api["sep"] != "\n":
            f["text:statements separated by ;"] = 1
        if not api["final_newline"]:
            f["text:no newline after the last statement"] = 1
        sem = interpret(prog)
        f["subcircuits:%s" % (len(sem["subs"]) if len(sem["subs"]) < 4 else ">=4")] = 1
        if sem["subs"] and only_nested(prog):
            f["nested:EVERY subcircuit of the program is nested (none at top level)"] = 1
        f["register qubits:%d" % sem["n"]] = 1
    return f


# ------------------------------------------------------------------ protocol
WEIGHTS = (("mixed", 30), ("nested", 17), ("shadow", 18), ("position", 12), ("shape", 8), ("session", 15))


def run(seed: int, n: int, driver: str = DEFAULT_DRIVER, thorough: bool = False) -> dict:
    rng = random.Random(f"c03_combo:{seed}")
    dist = {}

    def bump(k, d=1):
        dist[k] = dist.get(k, 0) + d

    oracle = {o: {"cases": 0, "failures": []} for o in ORACLES}
    samples, distinct, recent = [], set(), []

    def do(theme, steps, feat):
        name = "combo_" + theme
        case = {"oracle": name, "steps": steps}
        try:
            ok, detail, _k = judge_steps(steps)
            feats = case_features(steps)
        except Invalid as e:  # a bug of this generator, not of the library: counted, never reported as a violation
            bump("generator_produced_an_invalid_description")
            bump(f"generator_invalid:{theme}:{e}"[:120])
            return None
        oracle[name]["cases"] += 1
        bump("theme:" + theme)
        bump("programs run", len(steps))
        for k, v in list(feat.items()) + list(feats.items()):
            if v:
                bump(k)
        distinct.add(hashlib.sha256(json.dumps(steps, sort_keys=True).encode()).hexdigest())
        if not ok:
            bump("failures:" + theme)
            if len(oracle[name]["failures"]) < 20:
                if len(steps) == 1 and recent:
                    # does it fail on its own?  if not, what ran before it in this process belongs to the failing input
                    try:
                        if judge_steps(steps)[0]:
                            hist = [dict(h, judge=False, keep=False) for h in recent] + steps
                            ok2, detail2, _k = judge_steps(hist)
                            if not ok2:
                                case, detail = {"oracle": name, "steps": hist}, "(only after the programs run before it) " + detail2
                                bump("failures that need the programs run before")
                            else:
                                detail = "(not reproduced outside this run: depends on what ran earlier in the process) " + detail
                    except Invalid:
                        pass
                oracle[name]["failures"].append({"case": case, "detail": detail})
        for stp in steps:
            recent.append(stp)
        del recent[:-6]
        return ok

    for theme, steps, feat in sweep_cases(rng, thorough):
        bump("sweep:" + theme)
        do(theme, steps, feat)
    themes = [t for t, w in WEIGHTS for _ in range(w)]
    for k in range(n):
        theme = rng.choice(themes)
        sub = random.Random(f"c03_combo:{seed}:{k}:{rng.random()}")
        try:
            steps, feat = random_case(sub, theme)
        except Invalid:
            bump("generator_gave_up:" + theme)
            continue
        do(theme, steps, feat)
        if len(samples) < 5 and k % 11 == 0:
            samples.append({"oracle": "combo_" + theme, "steps": steps})
    return {"corr": {}, "oracle": oracle, "distribution": dist, "samples": samples, "nontrivial": len(distinct)}


def replay(case: dict, driver: str = DEFAULT_DRIVER) -> dict:
    steps = case.get("steps")
    if steps is None and "prog" in case:
        steps = [{"prog": case["prog"], "api": case.get("api"), "judge": True}]
    try:
        for _attempt in range(5 if len(steps) > 1 else 1):  # (what depends on reused addresses may need a second go)
            ok, detail, _k = judge_steps(steps)
            if not ok:
                break
    except Invalid as e:
        return {"model": None, "impl": None, "oracle_ok": None, "detail": f"not a valid program description: {e}"}
    return {"model": None, "impl": None, "oracle_ok": bool(ok), "detail": f"{case.get('oracle', 'combo')}: {detail}"}


# ------------------------------------------------------------------ CLI
def main(argv=None):
    p = argparse.ArgumentParser(description=__doc__.split("\n")[0])
    p.add_argument("--driver", default=DEFAULT_DRIVER)
    p.add_argument("--count", type=int, default=250, help="number of random cases besides the sweeps")
    p.add_argument("--seed", type=int, default=0)
    p.add_argument("--thorough", action="store_true")
    p.add_argument("--json", action="store_true")
    a = p.parse_args(argv)
    t0 = time.time()
    res = run(a.seed, a.count, a.driver, a.thorough)
    if a.json:
        print(json.dumps(res))
    bad = 0
    for o, r in res["oracle"].items():
        print(f"oracle {o:16s} cases={r['cases']:6d} failures={len(r['failures'])}")
        bad += len(r["failures"])
        for d in r["failures"][:2]:
            print("   DETAIL", d["detail"][:1500])
            print("   REPLAY", replay(d["case"])["oracle_ok"])
    print(f"nontrivial={res['nontrivial']}  wall={time.time() - t0:.1f}s  distribution=" + json.dumps(res["distribution"], sort_keys=True))
    return 1 if bad else 0


if __name__ == "__main__":
    sys.exit(main())
