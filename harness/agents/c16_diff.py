#!/venv/bin/python
"""Property C16 - failures are JaqalErrors with a position; no crashes, hangs or sticky state.

Real code:  `jaqalpaq.parser.parser.{parse_jaqal_string, parse_jaqal_string_header}`, `jaqalpaq.run.run.{run_jaqal_circuit,
            run_jaqal_string}`, `jaqalpaq.core.result.parse_jaqal_output_list`, `jaqalpaq._import`, `core/usepulses.py`.
Lean model: `Jaqal.RunModel.runModel` through the driver op `run_model` (JaqalModel/Model/RunModelOps.lean).

Run:   PYTHONPATH=/verif /venv/bin/python /verif/harness/agents/c16_diff.py [--driver PATH] [--n N] [--seed S] [--thorough]
       (`--driver ""` runs the direct oracles only)

corr
  run_model : `run_jaqal_circuit(parse_jaqal_string(text, inject_pulses=GATES|None, autoload_pulses=False))` (with an override
              list: the body of `run_jaqal_circuit` with `fill_in_let(..., override_dict=ov)`) against the model: the summary
              (number of subcircuits, the subcircuit index of every readout in order, per subcircuit the serialised gates with
              RESOLVED qubit indices and numeric arguments) or the exception class (+ line / column of a JaqalParseError).
              Streams: runnable programs (prepare/measure bracketed, subcircuit blocks, loops, macros, aliases, lets) under a
              random layout, the general well-scoped programs of `c01_diff.make_program`, token-level damage (`c01_diff.mutate`),
              character-level damage, prefixes.  Programs whose register has more than MAX_QUBITS qubits or whose loop counts
              exceed MAX_COUNT are parsed but not executed on either side (time / memory proportional to 2^n and to the counts).

  well_formed : for every text of the streams above the model evaluates `ExpandMacros.WellFormed` (hypothesis `BuiltWellFormed` of
              `C16_total_partial`) on the circuit `fill_in_let(expand_subcircuits(parse(text)), ov)`; expected `true` whenever the
              real code gets that far, else the same failing stage (`parse` / `expand_subcircuits` / `fill_in_let`).

oracle (the real code alone; every call of every stream below is watched by all of the first three)
  only_jaqalerror_or_importerror : an exception that is neither a JaqalError nor an ImportError escaped
  parse_error_has_position       : a JaqalParseError carries (line, column) of a token start of the text (real lexer, and the
                                   script's own tokenizer) or of the character the lexer refuses, or ("EOF", 0)
  terminates                     : the call returned within `harness.timeouts.limit()` seconds (signal.alarm)
  no_sticky_state                : the canonical outcome of a text (dump of the circuit / run summary / error class + position)
                                   is the same in two different orders of the same calls interleaved with failing calls
  fresh_process_agrees           : ... and the same in a fresh interpreter (incl. the FIRST relative pulse import of a process)
Streams of the direct oracles: valid programs under random layout, with every flag combination of `parse_jaqal_string`
(expand_macro / expand_let / expand_let_map, override_dict, inject_pulses, return_usepulses), `parse_jaqal_string_header`,
`run_jaqal_circuit`, `run_jaqal_string` (gate set in a module of a temporary directory, relative and absolute import),
`parse_jaqal_output_list` (right / short / long lists, str / int entries); single-token deletions / duplications / swaps /
replacements; character noise over the Jaqal alphabet and illegal characters; EVERY PREFIX of a sample of programs; unterminated
`/*`; nesting 50 - 2000 levels deep in five shapes and a fine sweep around the recursion limit; chains of 20 - 1200 macros each
calling the previous one (also forwarding its arguments), of aliases of aliases and of slices of slices - flat for the builder,
deep for the passes - through every expand flag, `run_jaqal_circuit` and `parse_jaqal_output_list`, and around each entry
point's own limit at several caller stack depths; integer literals up to 6000
digits; float literals that overflow / underflow; no register / two registers / let-sized registers; indexing lets, qubits and
macro parameters; `from nosuch.mod usepulses *`, `from .nosuch usepulses *` with autoload.
"""
import argparse
import json
import os
import random
import re
import signal
import subprocess
import sys
import tempfile
import warnings
from collections import Counter

DEFAULT_DRIVER = "/verif/lean/.lake/build/bin/jaqal-model"
MAX_QUBITS = 8
MAX_COUNT = 12

_loaded = False


def _root():
    root = os.path.dirname(os.path.dirname(os.path.dirname(os.path.abspath(__file__))))
    return root if os.path.isdir(os.path.join(root, "harness")) else "/verif"


def _imports():
    global _loaded
    if _loaded:
        return
    global C01, T, JaqalError, JaqalParseError, JaqalLexer, parse_jaqal_string, parse_jaqal_string_header, run_jaqal_circuit
    global run_jaqal_string, parse_jaqal_output_list, expand_macros, expand_subcircuits, fill_in_let, TraceSerializer
    global GATES, SIG, dump, NATIVES_JSON, GATES_REG, NATIVES_REG_JSON, Register, NamedQubit, LoopStatement, BlockStatement, GateStatement, UnitarySerializedEmulator
    os.environ["JAQALPAQ_RUN_EMULATOR"] = "1"
    try:
        import harness  # noqa
    except ImportError:
        sys.path.insert(0, _root())
    from harness.agents import c01_diff as C01
    from harness import timeouts as T
    C01._imports()
    from jaqalpaq.error import JaqalError
    from jaqalpaq.parser.slyparse import JaqalParseError, JaqalLexer
    from jaqalpaq.parser.parser import parse_jaqal_string, parse_jaqal_string_header
    from jaqalpaq.run.run import run_jaqal_circuit, run_jaqal_string
    from jaqalpaq.core.result import parse_jaqal_output_list
    from jaqalpaq.core.algorithm import expand_macros, expand_subcircuits, fill_in_let
    from jaqalpaq.core.algorithm.walkers import TraceSerializer
    from jaqalpaq.core import NamedQubit, Register, LoopStatement, BlockStatement, GateStatement
    from jaqalpaq.emulator.unitary import UnitarySerializedEmulator
    from harness.gates import GATES, SIG
    from harness import dump
    NATIVES_JSON = [dump.gatedef(g) for g in GATES.values()]
    # the same gate set plus gates that take a whole register (with and without a unitary) and an untyped parameter
    import numpy as np
    from jaqalpaq.core import GateDefinition, Parameter, ParamType
    GATES_REG = dict(GATES)
    GATES_REG["RG"] = GateDefinition("RG", [Parameter("r", ParamType.REGISTER)], ideal_unitary=lambda: np.eye(128, dtype=complex))
    GATES_REG["RGK"] = GateDefinition("RGK", [Parameter("k", ParamType.INT), Parameter("r", ParamType.REGISTER), Parameter("q", ParamType.QUBIT)],
                                      ideal_unitary=lambda k: np.eye(128, dtype=complex))
    GATES_REG["RN"] = GateDefinition("RN", [Parameter("r", ParamType.REGISTER)])
    GATES_REG["UT"] = GateDefinition("UT", [Parameter("x", None)], ideal_unitary=lambda *a: np.eye(128, dtype=complex))
    NATIVES_REG_JSON = [dump.gatedef(g) for g in GATES_REG.values()]
    warnings.simplefilter("ignore")
    _loaded = True


# ------------------------------------------------------------------------------------------------ watched calls

class _Timeout(BaseException):
    pass


def _on_alarm(_sig, _frm):
    raise _Timeout()


def watched(f):
    """-> (value, None) | (None, exception); never lets anything but KeyboardInterrupt through"""
    try:
        old = signal.signal(signal.SIGALRM, _on_alarm)
    except ValueError:
        old = None
    if old is not None:
        signal.alarm(T.limit())
    try:
        return f(), None
    except KeyboardInterrupt:
        raise
    except _Timeout as e:
        T.saw_hang()
        return None, e
    except BaseException as e:  # noqa
        return None, e
    finally:
        if old is not None:
            signal.alarm(0)
            signal.signal(signal.SIGALRM, old)


def err_json(e):
    if isinstance(e, _Timeout):
        return {"err": "hang"}
    if isinstance(e, JaqalParseError):
        return {"err": "JaqalParseError", "pos": [None if e.line == "EOF" else str(e.line), str(e.column)]}
    if isinstance(e, JaqalError):
        return {"err": "JaqalError"}
    if isinstance(e, ImportError):
        return {"err": "ImportError"}
    return {"err": type(e).__name__}


def line_col(text, off):
    return (1 + text.count("\n", 0, off), off - text.rfind("\n", 0, off))


def real_token_starts(text):
    """(line, column) of every token the real lexer yields, plus the position of the character it refuses"""
    out = set()
    try:
        for t in JaqalLexer().tokenize(text):
            out.add((t.lineno, t.index - text.rfind("\n", 0, t.index)))
    except JaqalParseError as e:
        out.add((e.line, e.column))
    except BaseException:  # noqa
        pass
    return out


OWN_RE = re.compile(
    r"(?P<nl>\n+)|(?P<ws>[ \t]+)|(?P<id>[a-zA-Z_](?:\.?[a-zA-Z0-9_])*)|(?P<dot>\.(?:[a-zA-Z_](?:\.?[a-zA-Z0-9_])*)?)"
    r"|(?P<num>[-+]?[0-9]*\.[0-9]+(?:[eE][-+]?[0-9]+)?)|(?P<int>[-+]?[0-9]+)|(?P<bin>'[01]+')|(?P<cm>//[^\n]*)"
    r"|(?P<bc>/\*(?:\n|[^\n])*?\*/)|(?P<p>[<>|{};\[\],*:])")


def own_token_starts(text):
    """the same computed without the library: offsets of the tokens of the documented lexical grammar, and the offset of the
    first character that starts none"""
    out = set()
    pos = 0
    while pos < len(text):
        m = OWN_RE.match(text, pos)
        if not m or m.end() == pos:
            out.add(line_col(text, pos))
            break
        if m.lastgroup not in ("ws", "cm", "bc"):
            out.add(line_col(text, pos))
        pos = m.end()
    return out


class Watch:
    """accumulates the three per-call oracles"""

    def __init__(self):
        self.oracle = {k: {"cases": 0, "failures": []} for k in
                       ("only_jaqalerror_or_importerror", "parse_error_has_position", "terminates", "no_sticky_state",
                        "fresh_process_agrees")}
        self.dist = Counter()

    def fail(self, name, case, detail):
        o = self.oracle[name]
        if len(o["failures"]) < 20:
            o["failures"].append({"case": case, "detail": detail})
        else:
            o["more_failures"] = o.get("more_failures", 0) + 1

    def call(self, case, f, text=None, stream="?"):
        """run f() watched; apply the per-call oracles; -> (value, err_json | None)"""
        v, e = watched(f)
        self.oracle["terminates"]["cases"] += 1
        self.oracle["only_jaqalerror_or_importerror"]["cases"] += 1
        if e is None:
            self.dist[f"{stream}:returned"] += 1
            return v, None
        ej = err_json(e)
        self.dist[f"{stream}:{ej['err']}"] += 1
        if isinstance(e, _Timeout):
            self.fail("terminates", case, f"no answer within {T.limit()} s")
            return None, ej
        if not isinstance(e, (JaqalError, ImportError)):
            self.fail("only_jaqalerror_or_importerror", case, f"{type(e).__name__}: {str(e)[:200]}")
        if isinstance(e, JaqalParseError) and text is not None:
            self.oracle["parse_error_has_position"]["cases"] += 1
            if e.line == "EOF":
                if e.column != 0:
                    self.fail("parse_error_has_position", case, f"EOF error with column {e.column}")
            else:
                p = (e.line, e.column)
                if not isinstance(e.line, int) or not isinstance(e.column, int):
                    self.fail("parse_error_has_position", case, f"position {p!r} is not a pair of integers")
                elif p not in real_token_starts(text):
                    self.fail("parse_error_has_position", case, f"{p} is not the start of a token (real lexer)")
                elif p not in own_token_starts(text):
                    self.fail("parse_error_has_position", case, f"{p} is not the start of a token (own tokenizer)")
        return None, ej


# ------------------------------------------------------------------------------------------------ the pipeline under test

def parse(text, gs, **kw):
    """gs: True = harness gate set, "reg" = that set plus register-taking gates, False = no gate set"""
    inject = GATES_REG if gs == "reg" else GATES if gs else None
    return parse_jaqal_string(text, inject_pulses=inject, autoload_pulses=False, **kw)


def ov_dict(ov):
    return {k: v for k, v in ov} if ov else None


def run_circuit(c, ov):
    """`run_jaqal_circuit(c)`; with overrides: its body with `fill_in_let(..., override_dict=ov)`"""
    if not ov:
        return run_jaqal_circuit(c)
    try:
        expanded = expand_macros(fill_in_let(expand_subcircuits(c), override_dict=ov_dict(ov)))
        return UnitarySerializedEmulator()(expanded).execute()
    except RecursionError:
        raise JaqalError("Program is nested too deeply") from None


def arg_token(v):
    if isinstance(v, NamedQubit):
        return "q" + str(v.resolve_qubit()[1])
    if isinstance(v, Register):
        return "r" + ",".join(str(v.resolve_qubit(i)[1]) for i in range(len(v)))
    if isinstance(v, bool):
        return "?bool"
    if isinstance(v, int):
        return "i" + str(v)
    if isinstance(v, float):
        neg, mant, exp = dump.dec(v)
        return "f%d:%s:%s" % (1 if neg else 0, mant, exp)
    return "?" + type(v).__name__


def summary(c, ov, res):
    expanded = expand_macros(fill_in_let(expand_subcircuits(c), override_dict=ov_dict(ov)))
    traces = []
    for sc in res.subcircuits:
        toks = []
        for g in TraceSerializer(sc._trace).visit(expanded):
            toks.append(" ".join([g.name] + [arg_token(v) for v in g.parameters.values()]))
        traces.append(toks)
    return {"subcircuits": str(len(res.subcircuits)), "visits": [str(r.subcircuit.index) for r in res.readouts],
            "traces": traces}


def too_big(c, ov):
    """would executing take time / memory the test cannot afford? (decided on the real objects, before execution)"""
    try:
        x = fill_in_let(expand_subcircuits(c), override_dict=ov_dict(ov))
    except BaseException:  # noqa
        return False
    for r in x.fundamental_registers():
        try:
            if int(r.size) > MAX_QUBITS:
                return True
        except BaseException:  # noqa
            return False

    def big(s):
        if isinstance(s, LoopStatement):
            it = s.iterations
            if isinstance(it, int) and it > MAX_COUNT:
                return True
            return big(s.statements)
        if isinstance(s, BlockStatement):
            return any(big(t) for t in s.statements)
        return False
    if big(x.body) or any(big(m.body) for m in x.macros.values()):
        return True
    return False


def impl_run(w, case, text, gs, ov, stream):
    """-> outcome json, or None when the program is too big to execute"""
    c, ej = w.call(case, lambda: parse(text, gs), text=text, stream=stream + ":parse")
    if ej is not None:
        return ej
    big, _ = watched(lambda: too_big(c, ov))
    if big:
        w.dist["skipped_too_big_to_execute"] += 1
        return None
    res, ej = w.call(case, lambda: run_circuit(c, ov), text=text, stream=stream + ":run")
    if ej is not None:
        return ej
    s, e = watched(lambda: summary(c, ov, res))
    if e is not None:
        return {"err": "summary:" + type(e).__name__}
    return {"ok": s}


def impl_well_formed(text, gs, ov):
    """how far the real code gets towards the input of expand_macros; reaching it, the expected model answer is `true`"""
    def f():
        try:
            c = parse(text, gs)
        except (JaqalError, ImportError):
            return {"well_formed": None, "stage": "parse"}
        try:
            c1 = expand_subcircuits(c)
        except JaqalError:
            return {"well_formed": None, "stage": "expand_subcircuits"}
        try:
            fill_in_let(c1, override_dict=ov_dict(ov))
        except JaqalError:
            return {"well_formed": None, "stage": "fill_in_let"}
        return {"well_formed": True}
    v, e = watched(f)
    return v if e is None else {"well_formed": None, "stage": "crash:" + type(e).__name__}


def ftok(t):
    """numeric argument tokens are compared as doubles: a float literal of more than 15 digits, and an integral float of 2^53
    or more that `as_integer` turns into an int (the real code goes through the binary double, the model keeps the decimal
    value - the subject of C01, not of this property)"""
    if t.startswith("i"):
        try:
            k = int(t[1:])
        except ValueError:
            return t
        return ("I", float(k)) if abs(k) >= 2 ** 53 else t
    if t.startswith("f") and t.count(":") == 2:
        neg, mant, exp = t[1:].split(":")
        try:
            return ("f", neg, float(f"{mant}e{exp}"))
        except ValueError:
            return t
    return t


def same_outcome(model, impl):
    if model == impl:
        return True
    if not (isinstance(model, dict) and isinstance(impl, dict) and "ok" in model and "ok" in impl):
        return False
    a, b = model["ok"], impl["ok"]
    if a.get("subcircuits") != b.get("subcircuits") or a.get("visits") != b.get("visits"):
        return False
    ta, tb = a.get("traces"), b.get("traces")
    if len(ta) != len(tb):
        return False
    for x, y in zip(ta, tb):
        if len(x) != len(y):
            return False
        for g, h in zip(x, y):
            if [ftok(t) for t in g.split(" ")] != [ftok(t) for t in h.split(" ")]:
                return False
    return True


def num_json(v):
    return dump.num(v)


def safe_driver(driver, reqs):
    """one batch; if the driver dies on it, the requests one by one (a request that kills the driver or takes more than
    120 s is answered `{"driver_error": …}`, i.e. a disagreement)"""
    try:
        return C01.call_driver(driver, reqs)
    except BaseException as e:  # noqa
        if len(reqs) == 1:
            return [{"driver_error": type(e).__name__ + ": " + str(e)[:200]}]
    out = []
    for r in reqs:
        data = json.dumps(r) + "\n"
        try:
            proc = subprocess.run([driver], input=data, capture_output=True, text=True, timeout=120)
            ans = json.loads(proc.stdout.splitlines()[0])
            out.append(ans["out"] if "out" in ans else {"driver_error": ans.get("err", "?")})
        except BaseException as e:  # noqa
            out.append({"driver_error": type(e).__name__ + ": " + str(e)[:200]})
    return out


def model_req(text, gs, ov):
    return {"op": "run_model", "text": text, "natives": NATIVES_REG_JSON if gs == "reg" else NATIVES_JSON if gs else None,
            "override": [[k, num_json(v)] for k, v in (ov or [])]}


# ------------------------------------------------------------------------------------------------ generators

class RunGen:
    """runnable programs: header (lets, one register, aliases), macros, then segments `prepare_all ... measure_all` /
    `subcircuit k { ... }` possibly inside loops; gates of the injected gate set on distinct qubits; with small probabilities
    the violations the executing stage rejects (gate outside a subcircuit, measure without prepare, measure -> prepare in a
    loop, overlapping parallel branches, a qubit twice, unknown gate, wrong arity, index out of range, no / two registers)."""

    def __init__(self, rng):
        self.rng = rng
        self.feat = Counter()

    def program(self):
        rng = self.rng
        P = C01.ProgGen(rng, True, maxdepth=3)
        self.P = P
        P.gsig.pop("prepare_all", None)
        P.gsig.pop("measure_all", None)
        P.header()
        if P.reg is None and rng.random() < 0.7:
            P.reg = (P.fresh("r"), ("int", "2", 2), 2)
            P.rsize[P.reg[0]] = [0, 1]
            P.header_order.append(("reg", 0))
        defined = []
        for _ in range(rng.choice([0, 0, 1, 1, 2])):
            m = self.macro(defined)
            P.top.append(m)
            defined.append(m[1])
        cx = {"params": {}, "macros": defined, "no_sub": True}
        for _ in range(rng.choice([0, 1, 1, 2, 2, 3])):
            P.top += self.segment(cx)
        return P

    def macro(self, defined):
        P, rng = self.P, self.rng
        name = P.fresh("M")
        params = {}
        for _ in range(rng.choice([0, 1, 1, 2, 3])):
            pn = P.fresh("p")
            params[pn] = rng.choice("qqiR")
        cx = {"params": params, "macros": list(defined), "no_sub": True}
        body = self.gates(cx, 1, rng.choice([1, 1, 2, 3]))
        if rng.random() < 0.08:
            body = [("gate", "prepare_all", [])] + body + [("gate", "measure_all", [])]
            self.feat["macro_with_whole_subcircuit"] += 1
        P.macros[name] = "".join(params.values())
        P.macro_sub[name] = False
        return ("macro", name, list(params), ("seq", body))

    def gate(self, cx):
        g = None
        for _ in range(5):
            g = self.P.gate(cx)
            if g is not None:
                break
        if g is None:
            return None
        # distinct qubits most of the time
        seen = set()
        for a in g[2]:
            key = json.dumps(a)
            if a[0] in ("item", "id") and key in seen and self.rng.random() < 0.9:
                return None
            seen.add(key)
        return g

    def gates(self, cx, depth, n):
        rng = self.rng
        out = []
        for _ in range(n):
            r = rng.random()
            if r < 0.7 or depth >= 3:
                g = self.gate(cx)
                if g is not None:
                    out.append(g)
            elif r < 0.82:
                out.append(("loop", self.P.small_count(cx, "loop_count"), ("seq", self.gates(cx, depth + 1, rng.choice([1, 2])))))
            elif r < 0.94:
                br = []
                for _ in range(rng.choice([1, 2, 2, 3])):
                    if rng.random() < 0.75:
                        g = self.gate(cx)
                        if g is not None:
                            br.append(g)
                    else:
                        br.append(("seq", self.gates(cx, depth + 1, rng.choice([1, 2]))))
                out.append(("par", br))
            else:
                out.append(("par", [("seq", self.gates(cx, depth + 1, rng.choice([0, 1, 2])))]))
        return out

    def segment(self, cx):
        rng = self.rng
        r = rng.random()
        body = self.gates(cx, 1, rng.choice([0, 1, 2, 3, 4]))
        if r < 0.4:
            cnt = None if rng.random() < 0.5 else self.P.small_count(cx, "subcircuit_count")
            seg = [("sub", cnt, body)]
            self.feat["subcircuit_block"] += 1
        elif r < 0.9:
            seg = [("gate", "prepare_all", [])] + body + [("gate", "measure_all", [])]
            if rng.random() < 0.15:
                seg = [("gate", "prepare_all", [])] + seg      # a repeated prepare_all
            if rng.random() < 0.15:
                seg = [seg[0], ("par", [("seq", seg[1:])])]
        elif r < 0.93:
            seg = body + [("gate", "measure_all", [])]
            self.feat["violation_measure_without_prepare"] += 1
        elif r < 0.96:
            seg = [("gate", "prepare_all", [])] + body
            self.feat["open_trace"] += 1
        else:
            seg = body
            self.feat["violation_gates_outside"] += 1
        k = rng.random()
        if k < 0.3:
            self.feat["segment_in_loop"] += 1
            return [("loop", self.P.small_count(cx, "loop_count"), ("seq", seg))]
        if k < 0.36:
            # measure -> prepare inside a loop
            self.feat["violation_measure_to_prepare_in_loop"] += 1
            return [("gate", "prepare_all", []), ("loop", ("int", "2", 2), ("seq", [("gate", "measure_all", []), ("gate", "prepare_all", [])])),
                    ("gate", "measure_all", [])]
        if k < 0.4:
            return [("seq", seg)]
        return seg


def make_runnable(seed, idx):
    rng = random.Random(f"{seed}:c16:run:{idx}")
    g = RunGen(rng)
    p = g.program()
    L = C01.Layout(rng, plain=rng.random() < 0.3)
    text = C01.render_program(p, L)
    ov = []
    if p.lets and rng.random() < 0.3:
        for n, lit in rng.sample(p.lets, min(len(p.lets), rng.choice([1, 1, 2]))):
            ov.append([n, rng.choice([0, 1, 1, 2, 2, 3, 2.0, 1.0, 0.5, -1, 4])])
        if rng.random() < 0.2:
            ov.append(["not_a_let", 1])
    return text, True, ov, g.feat, p


ALPHABET = list("abqrxyzXM_09.1 \t\n\n;|{}<>[]:,*'+-/") + ["//", "/*", "*/", "let ", "register ", "map ", "macro ", "loop ",
            "subcircuit ", "prepare_all", "measure_all", "from ", "usepulses", "import ", "as ", "branch ", "'01'", "1.5", "e9"]
ILLEGAL = list("$@#%^&()=!~`\\\"?\r\x00\x7f") + ["é", " ", "\U0001F600", "﻿"]


def char_noise(text, rng):
    k = rng.randrange(6)
    pos = rng.randrange(len(text) + 1)
    if k == 0 and text:
        pos = rng.randrange(len(text))
        return text[:pos] + text[pos + 1:], "delete_char"
    if k == 1:
        return text[:pos] + rng.choice(ALPHABET) + text[pos:], "insert_alphabet"
    if k == 2:
        return text[:pos] + rng.choice(ILLEGAL) + text[pos:], "insert_illegal"
    if k == 3 and len(text) > 2:
        a = rng.randrange(len(text) - 1)
        return text[:a] + text[a + 1] + text[a] + text[a + 2:], "swap_chars"
    if k == 4 and text:
        a = rng.randrange(len(text))
        b = min(len(text), a + rng.randrange(1, 12))
        return text[:a] + text[b:], "delete_span"
    return text[:pos] + "/*" + text[pos:], "open_comment"


def token_damage(text, rng):
    toks = [m for m in C01.TOKEN_RE.finditer(text) if m.lastgroup not in ("ws", "cm", "bc")]
    if len(toks) < 2:
        return text + " ]", "append"
    k = rng.randrange(4)
    m = rng.choice(toks)
    a, b = m.span()
    if k == 0:
        return text[:a] + text[b:], "delete_token"
    if k == 1:
        return text[:b] + " " + m.group() + text[b:], "duplicate_token"
    if k == 2:
        i = rng.randrange(len(toks) - 1)
        t, u = toks[i], toks[i + 1]
        return text[:t.start()] + u.group() + text[t.end():u.start()] + t.group() + text[u.end():], "swap_tokens"
    u = rng.choice(toks)
    return text[:a] + u.group() + text[b:], "replace_token"


# ------------------------------------------------------------------------------------------------ fixed streams

def nest_shapes():
    return {
        "par_seq": lambda d: "register q[2]\nprepare_all\n" + "<{" * d + "X q[0]" + "}>" * d + "\nmeasure_all\n",
        "loop_around": lambda d: "register q[2]\n" + "loop 1 {" * d + "prepare_all;measure_all" + "}" * d + "\n",
        "loop_inside": lambda d: "register q[2]\nprepare_all\n" + "loop 1 {" * d + "X q[0]" + "}" * d + "\nmeasure_all\n",
        "macro_body": lambda d: "register q[2]\nmacro m a " + "<{" * d + "X a" + "}>" * d + "\nprepare_all\nm q[0]\nmeasure_all\n",
        "subcircuit": lambda d: "register q[2]\nsubcircuit {" + "<{" * d + "X q[0]" + "}>" * d + "}\n",
        "unclosed": lambda d: "register q[2]\nprepare_all\n" + "<{" * d + "X q[0]",
        "brackets_only": lambda d: "{" * d + "}" * d,
    }


EDGE_TEXTS = [
    "", "\n", " ", ";", "// only a comment", "/* only a comment */", "/* unterminated", "/*", "/", "*/", "/*/", "/**", "/* a */ /* b",
    "register q[2]\nprepare_all; X q[0] /* unterminated", "register q[2] /* x */ /* y\n\n", "let", "let x", "let x 1 2", "register", "register q",
    "register q[", "register q[2", "register q[0]", "register q[-1]", "register q[2]\nregister q[2]", "register q[2]; register r[2]",
    "register q[2]; register r[2]\nprepare_all\nmeasure_all\n", "prepare_all\nmeasure_all\n", "prepare_all", "X", "X q[0]",
    "let n 2\nregister q[n]\nprepare_all\nX q[1]\nmeasure_all", "let n 2.0\nregister q[n]\nprepare_all\nmeasure_all", "let n 2.5\nregister q[n]",
    "let n 0\nregister q[n]", "let n -1\nregister q[n]\nprepare_all\nmeasure_all", "register q[n]", "let a 1\nprepare_all; X a[0]; measure_all",
    "let a 1\nregister q[2]\nprepare_all; X a[0]; measure_all", "register q[2]; map a q[0]\nprepare_all; X a[0]; measure_all",
    "register q[2]; map a q[0]\nmap b a[0]", "register q[2]; map a q[0]; map b a", "register q[2]; let a 1; map b a", "register q[2]; let a 1; map b a[0]",
    "register q[2]; let a 1; map b q[a:a:a]", "register q[2]; map b q[q]", "register q[2]; map b q[q:q]", "register q[2]; map b q[::0]",
    "register q[2]; macro m a { X a[q] }\nprepare_all; m q[0]; measure_all", "register q[2]; macro m a b { X a[b] }\nprepare_all; m q q; measure_all",
    "register q[2]; macro m a b { X a[b] }\nprepare_all; m q[0] 0; measure_all", "register q[2]; macro m a b { X a[b] }\nprepare_all; m q 1; measure_all",
    "register q[2]; macro m a b { X a[b] }\nprepare_all; m q 7; measure_all", "register q[2]; macro m a b { X a[b] }\nprepare_all; m 1 1; measure_all",
    "register q[2]; macro m a b { X a[b] }\nprepare_all; m q 0.5; measure_all", "register q[2]; macro m a { X q[a] }\nprepare_all; m q; measure_all",
    "register q[2]; macro m a { loop a { X q[0] } }\nprepare_all; m q; measure_all", "register q[2]; macro m a { loop a { X q[0] } }\nprepare_all; m 1.5; measure_all",
    "register q[2]; macro m a { subcircuit a { X q[0] } }\nm q[0]", "register q[2]; macro m a { m a }\nm q[0]", "register q[2]; macro m { } ; macro m { }",
    "register q[2]; macro q a { }", "register q[2]; macro m q { X q }\nprepare_all; m q[1]; measure_all", "register q[2]\nloop q { }", "register q[2]\nloop q[0] { }",
    "register q[2]\nsubcircuit q { }", "register q[2]\nloop -3 { prepare_all; measure_all }", "register q[2]\nsubcircuit -3 { X q[0] }",
    "register q[2]\nsubcircuit 0 { X q[0] }", "register q[2]\nsubcircuit { subcircuit { } }", "register q[2]\n< subcircuit { } >",
    "register q[2]\nprepare_all; < X q[0] | X q[0] > ; measure_all", "register q[2]\nprepare_all; < X q[0] | measure_all >",
    "register q[2]\nprepare_all; CX q[0] q[0] ; measure_all", "register q[2]\nprepare_all; foo q[0]; measure_all", "register q[2]\nprepare_all; X; measure_all",
    "register q[2]\nprepare_all; X q[0] q[1]; measure_all", "register q[2]\nprepare_all; X q[2]; measure_all", "register q[2]\nprepare_all; X q[-1]; measure_all",
    "register q[2]\nprepare_all; X 1; measure_all", "register q[2]\nprepare_all; X q; measure_all", "register q[2]\nprepare_all; P q[0] 1.5; measure_all",
    "register q[2]\nprepare_all; P q[0] q[1]; measure_all", "register q[2]\nprepare_all; PF 1.5 q[0]; measure_all", "register q[2]\nprepare_all; PF 1 q[0]; measure_all",
    "register q[2]\nprepare_all; N q[0]; measure_all", "register q[2]\nmeasure_all", "register q[2]\nprepare_all; measure_all; measure_all",
    "register q[2]\nprepare_all; loop 2 { measure_all; prepare_all }; measure_all", "register q[2]\nloop 0 { prepare_all; measure_all }; prepare_all; measure_all",
    "register q[2]\nX q[0]\nregister r[2]", "X q[0]\nregister q[2]", "register q[2]\nmacro m a { X a }\nlet x 1", "import a as b", "import a as b\nregister q[2]",
    "register q[2]\nimport a as b", "from a usepulses *", "from a usepulses b", "from a usepulses", "from . usepulses *", "from .a usepulses *",
    "from a..b usepulses *", "from a. usepulses *", "from ..a usepulses *", "from a usepulses *\nfrom b usepulses *\nregister q[1]", "branch { '0' : { } }",
    "register q[2]\nbranch { '0' : { X q[0] } ; '1' : { X q[1] } }", "branch {", "branch { '2' : { } }", "'01'", "''", "'", "a.b.c", "a..b", ".", "..", ".5", "1.", "1.e5",
    "let x .5", "let x -.5", "let x +.5e-3", "let x 1e5", "let x 1.0e5", "let x 0x10", "let x 1_000", "let x --1", "let x +-1", "let x 1.5.5",
    "let x 1e400", "let x 1.0e400", "let x -1.0e999", "let x 1.0e-400", "let x 0.0e999999999", "let x 1.0e-999999999", "let x 1.0e999999999999999999999",
    "let x " + "9" * 400 + ".0", "let x 0." + "0" * 400 + "1", "let x 1." + "0" * 5000, "let x " + "1" * 310 + ".5",
    "register q[2]\nprepare_all\nPF 1.0e308 q[0]\nmeasure_all", "register q[2]\nprepare_all\nPF 1.0e-320 q[0]\nmeasure_all", "register q[2]\nprepare_all\nPF -0.0 q[0]\nmeasure_all",
    "register q[2]\nprepare_all\nP q[0] " + "7" * 60 + "\nmeasure_all", "register q[2]\nprepare_all\nP q[0] -" + "7" * 60 + "\nmeasure_all",
    "register q[" + "9" * 30 + "]", "register q[2]\nprepare_all; X q[" + "9" * 30 + "]; measure_all", "let n " + "9" * 30 + "\nregister q[2]\nloop n { }",
    "register q[2]\nmap a q[" + "9" * 30 + "]", "register q[2]\nmap a q[0:" + "9" * 30 + "]", "register q[2]\nmap a q[0:2:" + "9" * 30 + "]",
    "﻿register q[2]", "register q[2]\r\nprepare_all\r\nmeasure_all\r\n", "register q[2]\x00", "register\tq[2]\x0c", "régister q[2]", "register q[2] // é\nprepare_all; measure_all",
    "register q[2] /* é \U0001F600 */\nprepare_all; measure_all", "register q[2]\n\n\n\n$", "\n\n\n   @", "let x 1 $", "register q[2]\nprepare_all; X q[0]; measure_all }",
    "register q[2]\n{ prepare_all; X q[0]; measure_all", "register q[2]\n< prepare_all | measure_all", "register q[2]\n{ { } }", "register q[2]\n< < > >", "register q[2]\n< { < { } > } >",
    "register q[2]\nloop 2 X q[0]", "register q[2]\nloop { }", "register q[2]\nloop 2 { loop 2 { loop 2 { } } }", "register q[2]\nloop 1.5 { }", "register q[2]\nmacro { }", "register q[2]\nmacro m", "macro m { } m",
    "register q[2]\nsubcircuit", "register q[2]\nsubcircuit 2", "register q[2]\nsubcircuit 2 <>", "register q[2]\nsubcircuit 2 { prepare_all }", "register q[2]\nsubcircuit { measure_all }",
    "register q[2]\nsubcircuit { X q[0] }\nsubcircuit { X q[1] }", "register q[2]\nloop 3 { subcircuit 2 { X q[0] } }", "register q[2]\nprepare_all; subcircuit { X q[0] }",
    "register q[2]\nmacro m a { subcircuit { X a } }\nm q[0]; m q[1]", "register q[2]\nmacro m a { subcircuit { X a } }\nprepare_all; m q[0]",
    "let prepare_all 1\nregister q[2]\nprepare_all", "register prepare_all[2]\nprepare_all; measure_all", "register q[2]\nmacro prepare_all { }\nprepare_all; measure_all",
    "register q[2]\nmacro measure_all { X q[0] }\nprepare_all; measure_all", "register q[2]; map measure_all q\nprepare_all; measure_all",
]


REG_TEXTS = [
    "register q[3]\nprepare_all\nRG q\nmeasure_all\n",
    "register q[3]\nmap a q[2:0:-1]\nprepare_all\nRG a\nRGK 2 a q[0]\nmeasure_all\n",
    "let n 2\nregister q[n]\nmap a q\nmap b a[1:n]\nprepare_all\nRG b\nRN a\nmeasure_all\n",
    "register q[3]\nmacro m r k { RGK k r q[0]; RG r }\nmap a q[0:3:2]\nprepare_all\nm a 1\nm q 2\nmeasure_all\n",
    "register q[3]\nprepare_all\nRG q[0]\nmeasure_all\n",
    "register q[3]\nprepare_all\nRGK 1 q q\nmeasure_all\n",
    "register q[3]\nprepare_all\nRGK q 1 q[0]\nmeasure_all\n",
    "register q[3]\nprepare_all\nRG 1\nmeasure_all\n",
    "register q[3]\nprepare_all\nUT q[0]\nmeasure_all\n",
    "register q[3]\nprepare_all\nUT 1\nmeasure_all\n",
    "register q[3]\nprepare_all\nUT q\nmeasure_all\n",
    "register q[3]\nprepare_all\n< RG q | X q[0] >\nmeasure_all\n",
    "register q[4]\nmap a q[0:2]\nmap b q[2:4]\nprepare_all\n< RG a | RG b >\nmeasure_all\n",
    "register q[2]\nmap a q[0:0]\nprepare_all\nRG a\nmeasure_all\n",
]


def reg_program(r):
    n = r.randrange(1, 6)
    lines = []
    sized_by_let = r.random() < 0.4
    if sized_by_let:
        lines.append(f"let n {n}")
    lines.append(f"register q[{'n' if sized_by_let else n}]")
    regs = {"q": list(range(n))}
    for k in range(r.randrange(0, 4)):
        src = r.choice(list(regs))
        qs = regs[src]
        if not qs:
            continue
        a = r.randrange(len(qs))
        b = r.randrange(a, len(qs) + 1)
        st = r.choice([1, 1, 2])
        name = f"a{k}"
        if r.random() < 0.25:
            lines.append(f"map {name} {src}")
            regs[name] = list(qs)
        elif r.random() < 0.3 and a > 0:
            lines.append(f"map {name} {src}[{a}:{r.choice([-1, 0]) if False else max(a - 2, 0)}:-1]")
            regs[name] = qs[a:max(a - 2, 0):-1]
        else:
            lines.append(f"map {name} {src}[{a}:{b}:{st}]")
            regs[name] = qs[a:b:st]
    with_macro = r.random() < 0.5
    if with_macro:
        lines.append("macro m r k { RG r; loop k { RGK k r q[0] } }")
    lines.append("prepare_all")
    for _ in range(r.randrange(1, 5)):
        g = r.choice(["RG", "RGK", "RN", "X", "m" if with_macro else "RG", "par"])
        reg = r.choice(list(regs))
        if g == "RG":
            lines.append(f"RG {reg}")
        elif g == "RGK":
            lines.append(f"RGK {r.randrange(3)} {reg} q[{r.randrange(n)}]")
        elif g == "RN":
            lines.append(f"RN {reg}")
        elif g == "X":
            lines.append(f"X q[{r.randrange(n)}]")
        elif g == "m":
            lines.append(f"m {reg} {r.randrange(3)}")
        else:
            lines.append(f"< RG {reg} | RN {r.choice(list(regs))} >")
    lines.append("measure_all")
    return "\n".join(lines) + "\n"


def chain_text(kind, n, where="top"):
    """long chains that are flat for the builder and deep for the passes"""
    L = ["register r[2]"]
    if kind == "macro":
        L.append("macro m1 q { X q }")
        L += [f"macro m{i} q {{ m{i - 1} q }}" for i in range(2, n + 1)]
        call = f"m{n} r[0]"
    elif kind == "forward":
        L.append("macro m1 a b { CX a b }")
        L += [f"macro m{i} a b {{ m{i - 1} b a }}" for i in range(2, n + 1)]
        call = f"m{n} r[0] r[1]"
    elif kind == "alias":
        L.append("map a1 r")
        L += [f"map a{i} a{i - 1}" for i in range(2, n + 1)]
        call = f"X a{n}[1]"
    elif kind == "slice":
        L.append("map a1 r[0:2]")
        L += [f"map a{i} a{i - 1}[0:2:1]" for i in range(2, n + 1)]
        call = f"X a{n}[1]"
    else:
        raise ValueError(kind)
    if where == "top":
        L += ["prepare_all", call, "measure_all"]
    elif where == "loop":
        L += ["prepare_all", "loop 2 { " + call + " }", "measure_all"]
    elif where == "par":
        L += ["prepare_all", "< " + call + " >", "measure_all"]
    else:
        L += ["subcircuit { " + call + " }"]
    return "\n".join(L) + "\n"


CHAIN_FLAGS = [{"expand_macro": True}, {"expand_let": True}, {"expand_let_map": True},
               {"expand_macro": True, "expand_let": True}, {"expand_macro": True, "expand_let_map": True}, {}]


def int_literal_texts():
    out = []
    for nd in (1, 18, 19, 20, 100, 1000, 4299, 4300, 4301, 5000, 6000):
        for sign in ("", "-", "+"):
            lit = sign + "9" * nd
            out.append(f"let x {lit}")
            out.append(f"register q[2]\nprepare_all\nP q[0] {lit}\nmeasure_all")
        out.append("register q[" + "1" * nd + "]")
        out.append("register q[" + "9" * nd + "]\nmap a q[1:]\nmap b a[:]\nmap c b[0:5:2]\nmap d q[" + "9" * max(1, nd - 1) + "::-1]")
        out.append("let m -5\nregister q[" + "9" * nd + "]\nmap a q[m:]\nmap b a[:]")
        out.append("register q[2]\nloop 0 { }\nloop " + "0" * nd + " { }")
        out.append("let x 0" + "0" * nd + "1")
    return out


# ------------------------------------------------------------------------------------------------ pulses in a temporary directory

GATE_MODULE = '''
import sys
sys.path.insert(0, %r)
from harness.gates import GATES
ALL_GATES = GATES
'''


class PulseDir:
    def __init__(self):
        self.tmp = tempfile.TemporaryDirectory(prefix="c16pulses")
        self.path = self.tmp.name
        root = _root()
        # a package with a jaqal_gates submodule, and a plain module with a jaqal_gates attribute
        os.mkdir(os.path.join(self.path, "c16pkg"))
        open(os.path.join(self.path, "c16pkg", "__init__.py"), "w").close()
        with open(os.path.join(self.path, "c16pkg", "jaqal_gates.py"), "w") as f:
            f.write(GATE_MODULE % root)
        with open(os.path.join(self.path, "c16flat.py"), "w") as f:
            f.write("class jaqal_gates:\n    pass\n" + (GATE_MODULE % root) + "jaqal_gates.ALL_GATES = GATES\n")
        with open(os.path.join(self.path, "c16broken.py"), "w") as f:
            f.write("raise ImportError('broken on purpose')\n")
        with open(os.path.join(self.path, "c16nogates.py"), "w") as f:
            f.write("x = 1\n")

    def close(self):
        self.tmp.cleanup()


# ------------------------------------------------------------------------------------------------ canonical outcome of one "call"

def canon_call(call, pulse_path=None):
    """`call` is a replayable JSON description of one entry-point call; -> (outcome json, exception | None)"""
    kind = call["kind"]
    text = call_text(call)
    gs = call.get("gs", True)
    if kind == "parse":
        kw = dict(call.get("flags", {}))
        if "override" in call:
            kw["override_dict"] = ov_dict(call["override"])
        v, e = watched(lambda: parse(text, gs, **kw))
        if e is None:
            c = v[0] if kw.get("return_usepulses") else v
            d, e2 = watched(lambda: C01.dumpc(c))
            out = {"ok": d if e2 is None else "undumpable:" + type(e2).__name__}
            if kw.get("return_usepulses"):
                out["usepulses"] = sorted(str(k) for k in v[1]["usepulses"])
            return out, None
        return err_json(e), e
    if kind == "header":
        v, e = watched(lambda: parse_jaqal_string_header(text, return_usepulses=call.get("return_usepulses", False)))
        if e is None:
            c = v[0] if call.get("return_usepulses") else v
            d, e2 = watched(lambda: C01.dumpc(c))
            return {"ok": d if e2 is None else "undumpable:" + type(e2).__name__}, None
        return err_json(e), e
    if kind == "run":
        ov = call.get("override") or []

        def f():
            c = parse(text, gs)
            if too_big(c, ov):
                return "too_big"
            res = run_circuit(c, ov)
            return summary(c, ov, res)
        v, e = watched(f)
        return ({"ok": v}, None) if e is None else (err_json(e), e)
    if kind == "run_unguarded":
        v, e = watched(lambda: len(run_jaqal_circuit(parse(text, gs)).subcircuits))
        return ({"ok": v}, None) if e is None else (err_json(e), e)
    if kind == "run_string":
        def f():
            c = parse_jaqal_string(text, autoload_pulses=True, import_path=pulse_path)
            if too_big(c, []):
                return "too_big"
            res = run_jaqal_string(text, import_path=pulse_path)
            return summary(c, [], res)
        v, e = watched(f)
        return ({"ok": v}, None) if e is None else (err_json(e), e)
    if kind == "autoload":
        ip = call.get("import_path") or (pulse_path if call.get("with_path") else None)
        v, e = watched(lambda: parse_jaqal_string(text, autoload_pulses=True, import_path=ip))
        if e is None:
            d, e2 = watched(lambda: C01.dumpc(v))
            return {"ok": d if e2 is None else "undumpable:" + type(e2).__name__}, None
        return err_json(e), e
    if kind == "output_list":
        def f():
            c = parse(text, gs)
            res = parse_jaqal_output_list(c, call["output"])
            return {"subcircuits": len(res.subcircuits), "readouts": [[r.subcircuit.index, r.as_int] for r in res.readouts]}
        v, e = watched(f)
        return ({"ok": v}, None) if e is None else (err_json(e), e)
    raise ValueError(kind)


def call_text(call):
    """the text of a call (deeply nested texts are recorded by shape and depth)"""
    if call.get("text") is None and "nest" in call:
        return nest_shapes()[call["nest"]](call["depth"])
    if call.get("text") is None and "chain" in call:
        return chain_text(call["chain"], call["length"], call.get("where", "top"))
    return call.get("text")


def check_call(w, call, pulse_path=None, stream="?"):
    """canon_call + the per-call oracles"""
    holder = {}

    def f():
        out, e = canon_call(call, pulse_path)
        holder["out"] = out
        if e is not None:
            raise e
        return out
    w.call(call, f, text=call_text(call), stream=stream)
    return holder.get("out", {"err": "hang"})


WF_STREAMS = {"runnable", "general", "runnable:no_gate_set", "general:no_gate_set", "token_damage", "edge", "register_gate"}

FLAG_COMBOS = [dict(expand_macro=a, expand_let=b, expand_let_map=c, return_usepulses=d)
               for a in (False, True) for b in (False, True) for c in (False, True) for d in (False, True)]


# ------------------------------------------------------------------------------------------------ worker (fresh interpreter)

def worker_main():
    """reads {"pulse_path":…, "calls":[…]} on stdin, prints the list of canonical outcomes"""
    _imports()
    job = json.loads(sys.stdin.read())
    outs = []
    for call in job["calls"]:
        out, _e = canon_call(call, job.get("pulse_path"))
        outs.append(out)
    sys.stdout.write("\n@@C16@@" + json.dumps(outs) + "\n")


def fresh_outcomes(calls, pulse_path):
    root = _root()
    env = dict(os.environ, PYTHONPATH=root + os.pathsep + os.environ.get("PYTHONPATH", ""), JAQALPAQ_RUN_EMULATOR="1")
    proc = subprocess.run([sys.executable, os.path.abspath(__file__), "--worker"], input=json.dumps({"pulse_path": pulse_path, "calls": calls}),
                          capture_output=True, text=True, env=env, timeout=600)
    for line in proc.stdout.splitlines():
        if line.startswith("@@C16@@"):
            return json.loads(line[len("@@C16@@"):])
    raise RuntimeError("worker failed: " + proc.stderr[-2000:])


# ------------------------------------------------------------------------------------------------ run

def _trim(d):
    return d


def run(seed: int, n: int, driver: str = DEFAULT_DRIVER, thorough: bool = False) -> dict:
    _imports()
    rng = random.Random(f"{seed}:c16")
    w = Watch()
    corr = {"run_model": {"cases": 0, "disagreements": []}, "well_formed": {"cases": 0, "disagreements": []}}
    samples = []
    nontrivial = set()
    reqs, expect = [], []
    nprog = n * (4 if thorough else 1)

    def ask(text, gs, ov, case, stream):
        impl = impl_run(w, case, text, gs, ov, stream)
        nontrivial.add(json.dumps([text, gs, ov]))
        if impl is None:
            return None
        w.dist["outcome:" + ("ok" if "ok" in impl else impl["err"])] += 1
        if "ok" in impl:
            w.dist["subcircuits:%s" % min(int(impl["ok"]["subcircuits"]), 5)] += 1
            w.dist["visits:%s" % min(len(impl["ok"]["visits"]), 8)] += 1
        reqs.append(model_req(text, gs, ov))
        expect.append(("run_model", case, impl))
        if stream in WF_STREAMS:
            wf = impl_well_formed(text, gs, ov)
            w.dist["well_formed:" + ("reached" if wf.get("well_formed") else str(wf.get("stage")))] += 1
            reqs.append(dict(model_req(text, gs, ov), op="well_formed"))
            expect.append(("well_formed", case, wf))
        return impl

    valid_texts = []          # (text, gs, ov) of programs for the later streams
    for i in range(nprog):
        if i % 3 == 2:
            _p, gs, text, _r = C01.make_program(seed, i)
            ov = []
            stream = "general"
        else:
            text, gs, ov, feat, _p = make_runnable(seed, i)
            for k, v in feat.items():
                w.dist["gen:" + k] += v
            stream = "runnable"
        case = {"kind": "run", "stream": stream, "seed": seed, "idx": i, "text": text, "gs": gs, "override": ov}
        impl = ask(text, gs, ov, case, stream)
        if len(samples) < 6 and impl is not None and "ok" in impl and int(impl["ok"]["subcircuits"]) > 0:
            samples.append({"case": case, "impl": impl})
        valid_texts.append((text, gs, ov))
        # without a gate set
        if i % 7 == 0:
            case2 = dict(case, gs=False, stream=stream + ":no_gate_set")
            ask(text, False, ov, case2, stream + ":no_gate_set")
        r2 = random.Random(f"{seed}:c16:damage:{i}")
        for _ in range(2):
            t2, how = token_damage(text, r2) if r2.random() < 0.6 else C01.mutate(text, r2)
            ask(t2, gs, ov, {"kind": "run", "stream": "token_damage", "how": how, "text": t2, "gs": gs, "override": ov}, "token_damage")
        for _ in range(2):
            t2, how = char_noise(text, r2)
            if r2.random() < 0.3:
                t2, how2 = char_noise(t2, r2)
                how += "+" + how2
            ask(t2, gs, ov, {"kind": "run", "stream": "char_noise", "how": how, "text": t2, "gs": gs, "override": ov}, "char_noise")
        # flag combinations / the other entry points on the valid text and on one damaged text (no model involved)
        flags = r2.choice(FLAG_COMBOS)
        call = {"kind": "parse", "text": text, "gs": r2.random() < 0.8, "flags": flags}
        if r2.random() < 0.5:
            call["override"] = ov or [["n", 2]]
        check_call(w, call, stream="flags")
        t3, _how = char_noise(text, r2) if r2.random() < 0.5 else token_damage(text, r2)
        check_call(w, dict(call, text=t3), stream="flags:damaged")
        if i % 4 == 0:
            check_call(w, {"kind": "header", "text": r2.choice([text, t3]), "return_usepulses": r2.random() < 0.5}, stream="header")

    # every prefix of a sample of programs
    npref = max(1, nprog // (25 if not thorough else 10))
    for j in range(npref):
        text, gs, ov = valid_texts[(j * 7) % len(valid_texts)]
        text = text[:400]
        for k in range(len(text) + 1):
            pre = text[:k]
            case = {"kind": "run", "stream": "prefix", "text": pre, "gs": gs, "override": ov}
            if k % 5 == 0 or len(text) - k < 3:
                ask(pre, gs, ov, case, "prefix")
            else:
                check_call(w, {"kind": "parse", "text": pre, "gs": gs, "flags": {}}, stream="prefix")

    # fixed streams
    fixed = [(t, "edge") for t in EDGE_TEXTS] + [(t, "int_literal") for t in int_literal_texts()]
    for t, stream in fixed:
        for gs in (True, False):
            case = {"kind": "run", "stream": stream, "text": t, "gs": gs, "override": []}
            ask(t, gs, [], case, stream)
        check_call(w, {"kind": "parse", "text": t, "gs": True, "flags": rng.choice(FLAG_COMBOS), "override": [["n", 1], ["x", 2.5]]}, stream=stream + ":flags")
        check_call(w, {"kind": "header", "text": t}, stream=stream + ":header")
    # gates that take a whole register (the emulator expands it into its qubits), through aliases, lets and macros
    for t in REG_TEXTS:
        ask(t, "reg", [], {"kind": "run", "stream": "register_gate", "text": t, "gs": "reg", "override": []}, "register_gate")
    for j in range(max(4, nprog // 10)):
        r4 = random.Random(f"{seed}:c16:reg:{j}")
        t = reg_program(r4)
        ov = [["n", r4.choice([1, 2, 3])]] if r4.random() < 0.3 else []
        ask(t, "reg", ov, {"kind": "run", "stream": "register_gate", "text": t, "gs": "reg", "override": ov}, "register_gate")
        t2, how = token_damage(t, r4)
        ask(t2, "reg", ov, {"kind": "run", "stream": "register_gate", "how": how, "text": t2, "gs": "reg", "override": ov}, "register_gate")
    # an unterminated comment at every position of a few programs
    for j in range(3):
        text, gs, ov = valid_texts[(j * 11) % len(valid_texts)]
        for k in range(0, len(text) + 1, max(1, len(text) // 40)):
            t = text[:k] + "/*" + text[k:]
            ask(t, gs, ov, {"kind": "run", "stream": "open_comment", "text": t, "gs": gs, "override": ov}, "open_comment")

    # nesting depth (no model: the recursion limit is not in the model)
    depths = ([50, 100, 150] + list(range(155, 215, 2)) + [250, 330, 500, 1000, 2000]) if thorough else [50, 120, 160, 180, 200, 330, 1000, 2000]
    for name, sh in nest_shapes().items():
        for d in depths:
            base = {"gs": True, "nest": name, "depth": d}
            check_call(w, dict(base, kind="parse", flags={}), stream="nest:parse")
            check_call(w, dict(base, kind="run"), stream="nest:run")
            check_call(w, dict(base, kind="output_list", output=[0]), stream="nest:output_list")
            if thorough or d in (50, 330, 2000):
                check_call(w, dict(base, kind="parse", flags=rng.choice(FLAG_COMBOS[2:])), stream="nest:flags")
                check_call(w, dict(base, kind="header"), stream="nest:header")
    # the window in which the text still parses but the passes of the executing entry points run out of stack is one level
    # wide and shows only at some depths of the caller's stack (period 5-6 frames): for seven consecutive stack depths find
    # the nesting depth at which parsing starts to fail and try the executing entry points just below it
    shapes = nest_shapes()
    for name in (("par_seq", "loop_around", "loop_inside", "macro_body", "subcircuit") if thorough else ("loop_around", "macro_body", "subcircuit")):
        for extra in range(6 if not thorough else 13):
            def parses(d):
                out = _deeper(extra, lambda: canon_call({"kind": "parse", "text": shapes[name](d), "gs": True, "flags": {}})[0])
                return "ok" in out
            lo, hi = 60, 400
            if not parses(lo) or parses(hi):
                continue
            while hi - lo > 1:
                mid = (lo + hi) // 2
                if parses(mid):
                    lo = mid
                else:
                    hi = mid
            w.dist["nest:parse_limit:%s:%d" % (name, hi // 10 * 10)] += 1
            for d in (range(hi - 4, hi + 2) if thorough else range(hi - 2, hi)):
                base = {"gs": True, "nest": name, "depth": d, "extra_stack": extra}
                _deeper(extra, lambda: check_call(w, dict(base, kind="output_list", output=[0]), stream="nest:output_list"))
                _deeper(extra, lambda: check_call(w, dict(base, kind="run"), stream="nest:run"))
                if thorough:
                    _deeper(extra, lambda: check_call(w, dict(base, kind="parse", flags=FLAG_COMBOS[14]), stream="nest:flags"))

    # long chains of macro calls / aliases / forwarded arguments: flat for the builder, deep for the passes and walkers
    deep_chains(w, thorough)

    # parse_jaqal_output_list
    nout = 0
    for text, gs, ov in valid_texts[: max(20, nprog // 2)]:
        impl, e = watched(lambda: impl_quiet(text, gs))
        if e is not None or impl is None or "ok" not in impl:
            continue
        nv = len(impl["ok"]["visits"])
        c = parse(text, gs)
        nq = sum(int(r.size) for r in fill_in_let(c).fundamental_registers())
        r3 = random.Random(f"{seed}:c16:out:{nout}")
        nout += 1
        for length in sorted({nv, max(0, nv - 1), nv + 1, 0}):
            vals = [r3.randrange(2 ** nq) for _ in range(length)]
            if r3.random() < 0.5:
                vals = [format(v, "b").zfill(nq)[::-1] if r3.random() < 0.7 else v for v in vals]
            check_call(w, {"kind": "output_list", "text": text, "gs": gs, "output": vals, "expected_readouts": nv}, stream="output_list")

    # pulses: imports that fail, a gate set in a temporary directory
    pd = PulseDir()
    try:
        imports = import_calls()
        for call in imports:
            out = check_call(w, call, pulse_path=pd.path, stream="import")
            want = call.get("expect")
            if want is not None:
                w.oracle["only_jaqalerror_or_importerror"]["cases"] += 1
                got = out.get("err", "ok") if isinstance(out, dict) else "?"
                if got != want:
                    w.fail("only_jaqalerror_or_importerror", call, f"expected {want}, got {json.dumps(out)[:200]}")
        # run_jaqal_string on runnable programs that name the temporary gate set
        k = 0
        for text, gs, ov in valid_texts:
            if not gs or "usepulses" in text:
                continue
            k += 1
            if k > max(10, nprog // 10):
                break
            mod = [".c16pkg", ".c16flat"][k % 2]
            t = f"from {mod} usepulses *\n" + text
            a = check_call(w, {"kind": "run_string", "text": t}, pulse_path=pd.path, stream="run_string")
            b = check_call(w, {"kind": "run", "text": text, "gs": True}, stream="run_string:reference")
            w.oracle["no_sticky_state"]["cases"] += 1
            if not same_modulo_usepulses(a, b):
                w.fail("no_sticky_state", {"kind": "run_string", "text": t}, f"run_jaqal_string with the imported gate set: {json.dumps(a)[:300]} but with the injected one: {json.dumps(b)[:300]}")

        # registers whose state vector cannot be allocated (JaqalError since the repair of the emulator)
        for nq in (36, 40, 64, 1000):
            t = f"register q[{nq}]\nprepare_all\nmeasure_all\n"
            w.call({"kind": "run_unguarded", "text": t, "gs": True}, lambda: run_jaqal_circuit(parse(t, True)), text=t, stream="huge_register")

        # sticky state: the same calls in two orders, interleaved with failing calls, and in a fresh interpreter
        seq = history_calls(seed, valid_texts, pd.path, nprog, thorough)
        first = [canon_call(c, pd.path)[0] for c in seq]
        order = list(range(len(seq)))
        random.Random(f"{seed}:c16:shuffle").shuffle(order)
        failing = failing_calls()
        second = [None] * len(seq)
        fr = random.Random(f"{seed}:c16:interleave")
        for idx in order:
            for _ in range(fr.choice([0, 1, 1, 2])):
                canon_call(fr.choice(failing), pd.path)
            second[idx] = canon_call(seq[idx], pd.path)[0]
        for c, a, b in zip(seq, first, second):
            w.oracle["no_sticky_state"]["cases"] += 1
            if a != b:
                w.fail("no_sticky_state", c, f"first pass {json.dumps(a)[:300]} / after other calls {json.dumps(b)[:300]}")
        nf = len(seq) if thorough else min(len(seq), 150)
        sub = seq[:nf]
        # the first relative import must be the FIRST call of the fresh interpreter
        firstrel = {"kind": "run_string", "text": "from .c16pkg usepulses *\nregister q[2]\nprepare_all\nX q[1]\nmeasure_all\n"}
        fresh = fresh_outcomes([firstrel] + sub, pd.path)
        here = [canon_call(firstrel, pd.path)[0]] + first[:nf]
        for c, a, b in zip([firstrel] + sub, here, fresh):
            w.oracle["fresh_process_agrees"]["cases"] += 1
            if a != b:
                w.fail("fresh_process_agrees", c, f"in this process {json.dumps(a)[:300]} / in a fresh interpreter {json.dumps(b)[:300]}")
        # a relative pulse import whose name clashes with a module that is already imported: in a fresh interpreter (on a tree
        # that has the defect the calls poison every later call of the process), and in this process at the very end of run()
        good = {"kind": "run", "text": "register q[2]\nprepare_all\nX q[0]\nmeasure_all\n", "gs": True}
        bad = {"kind": "run", "text": "register q[2]\nX q[0]\n", "gs": True}
        perr = {"kind": "parse", "text": "register q[2]\nX q[5] $\n", "gs": True, "flags": {}}
        for mods in (("jaqalpaq", "jaqalpaq.core", "jaqalpaq.error", "harness", "json", "sly"), ("numpy",)):
            calls = [good, bad, perr]
            for m in mods:
                calls += [{"kind": "autoload", "text": f"from .{m} usepulses *\nregister q[1]\n", "with_path": True, "clash": m}, good, bad, perr]
            case = {"kind": "fresh_sequence", "stream": "module_name_clash", "calls": calls}
            w.oracle["no_sticky_state"]["cases"] += 1
            try:
                outs = fresh_outcomes(calls, pd.path)
            except BaseException as e:  # noqa
                w.fail("no_sticky_state", case, f"the interpreter did not survive: {str(e)[-300:]}")
                continue
            for k in range(3, len(calls), 4):
                w.oracle["only_jaqalerror_or_importerror"]["cases"] += 1
                if outs[k].get("err") != "ImportError":
                    w.fail("only_jaqalerror_or_importerror", calls[k], f"expected ImportError, got {json.dumps(outs[k])[:200]}")
                if outs[k + 1:k + 4] != outs[0:3]:
                    w.fail("no_sticky_state", dict(case, after=calls[k]["clash"]),
                           f"after `from .{calls[k]['clash']} usepulses *`: {json.dumps(outs[k + 1:k + 4])[:400]} / before: {json.dumps(outs[0:3])[:400]}")
                    break
        # the same in this process (last: a tree with the defect is poisoned from here on)
        base = [canon_call(c, pd.path)[0] for c in (good, bad, perr)]
        for m in ("harness", "json", "sly", "jaqalpaq.error", "jaqalpaq.core", "jaqalpaq"):
            call = {"kind": "autoload", "text": f"from .{m} usepulses *\nregister q[1]\n", "with_path": True, "clash": m}
            out = check_call(w, call, pulse_path=pd.path, stream="module_name_clash")
            w.oracle["only_jaqalerror_or_importerror"]["cases"] += 1
            if out.get("err") != "ImportError":
                w.fail("only_jaqalerror_or_importerror", call, f"expected ImportError, got {json.dumps(out)[:200]}")
            after = [canon_call(c, pd.path)[0] for c in (good, bad, perr)]
            w.oracle["no_sticky_state"]["cases"] += 1
            if after != base:
                w.fail("no_sticky_state", {"kind": "fresh_sequence", "stream": "module_name_clash", "calls": [good, bad, perr, call, good, bad, perr]},
                       f"in this process, after `from .{m} usepulses *`: {json.dumps(after)[:400]} / before: {json.dumps(base)[:400]}")
                break
    finally:
        pd.close()

    # the model
    if driver:
        for k in range(0, len(reqs), 250):
            answers = safe_driver(driver, reqs[k:k + 250])
            for (op, case, impl), model in zip(expect[k:k + 250], answers):
                corr[op]["cases"] += 1
                if not (same_outcome(model, impl) if op == "run_model" else model == impl):
                    if len(corr[op]["disagreements"]) < 20:
                        corr[op]["disagreements"].append({"case": dict(case, op=op), "model": model, "impl": impl})
                    else:
                        corr[op]["more_disagreements"] = corr[op].get("more_disagreements", 0) + 1
    return {"corr": corr, "oracle": w.oracle, "distribution": dict(sorted(w.dist.items())), "samples": samples,
            "nontrivial": len(nontrivial)}


def _deeper(k, f):
    return f() if k == 0 else _deeper(k - 1, f)


def deep_chains(w, thorough):
    for kind in ("macro", "forward", "alias", "slice"):
        # alias chains cost time quadratic in their length
        if kind in ("macro", "forward"):
            chain_lengths = [20, 100, 150, 250, 600, 1200] if thorough else [20, 150, 400]
        else:
            # (running them costs time CUBIC in their length: 400 links take 4-10 s, which under machine load is
            # no longer distinguishable from a hang; the recursion-limit end of the range is covered by parse probes)
            chain_lengths = [20, 100, 200, 300, 1200] if thorough else [20, 100]
        for where in (("top", "loop", "par", "sub") if thorough else (("top", "sub") if kind in ("macro", "forward") else ("top",))):
            for nlen in chain_lengths:
                base = {"gs": True, "chain": kind, "length": nlen, "where": where}
                for fl in CHAIN_FLAGS:
                    check_call(w, dict(base, kind="parse", flags=fl), stream="deep_chain:parse")
                check_call(w, dict(base, kind="run"), stream="deep_chain:run")
                check_call(w, dict(base, kind="output_list", output=[0]), stream="deep_chain:output_list")
    # ... and just below the length at which each entry point starts to refuse, at several caller stack depths
    for kind in (("macro", "forward", "alias") if thorough else ("macro", "forward")):
        probes = ({"kind": "parse", "flags": {"expand_macro": True}}, {"kind": "parse", "flags": {"expand_let_map": True}},
                  {"kind": "run"}, {"kind": "output_list", "output": [0]})
        for probe in (probes if thorough and kind != "alias" else ((probes[0], probes[1]) if kind == "alias" else (probes[0], probes[2]))):
            for extra in range(2 if (not thorough or kind == "alias") else 7):
                def ok(nlen):
                    out = _deeper(extra, lambda: canon_call(dict(probe, gs=True, chain=kind, length=nlen, where="top"))[0])
                    return "ok" in out
                lo, hi = 10, (1500 if thorough else 400)
                if not ok(lo) or ok(hi):
                    continue
                while hi - lo > 1:
                    mid = (lo + hi) // 2
                    if ok(mid):
                        lo = mid
                    else:
                        hi = mid
                w.dist["deep_chain:limit:%s:%s:%d" % (kind, probe["kind"], hi // 25 * 25)] += 1
                for nlen in range(hi - 2, hi + 1):
                    base = {"gs": True, "chain": kind, "length": nlen, "where": "top", "extra_stack": extra}
                    for fl in CHAIN_FLAGS[:5]:
                        _deeper(extra, lambda: check_call(w, dict(base, kind="parse", flags=fl), stream="deep_chain:parse"))
                    if kind == "alias" and nlen > 300:
                        continue  # cubic running time, see above
                    _deeper(extra, lambda: check_call(w, dict(base, kind="run"), stream="deep_chain:run"))
                    _deeper(extra, lambda: check_call(w, dict(base, kind="output_list", output=[0]), stream="deep_chain:output_list"))


def impl_quiet(text, gs):
    w = Watch()
    return impl_run(w, {}, text, gs, [], "quiet")


def same_modulo_usepulses(a, b):
    return a == b


def import_calls():
    prog = "register q[2]\nprepare_all\nX q[0]\nmeasure_all\n"
    out = []
    for mod, want in [("nosuch.mod", "ImportError"), ("nosuch", "ImportError"), ("os", "ImportError"), ("os.path", "ImportError"),
                      ("jaqalpaq.error", "ImportError"), ("jaqalpaq", "ImportError"), (".nosuch", "ImportError"), (".nosuch.sub", "ImportError"),
                      (".", "ImportError"), (".c16broken", "ImportError"), (".c16nogates", "ImportError"), (".c16pkg.nosuch", "ImportError"),
                      ("c16pkg", "ImportError"), (".c16pkg", "ok"), (".c16flat", "ok")]:
        t = f"from {mod} usepulses *\n" + prog
        out.append({"kind": "autoload", "text": t, "with_path": True, "expect": want})
        if mod.startswith("."):
            out.append({"kind": "autoload", "text": t, "with_path": False, "expect": "ImportError" if want != "ok" else None})
        out.append({"kind": "run_string", "text": t, "expect": want if want != "ok" else None})
        # without autoload the statement is only recorded
        out.append({"kind": "parse", "text": t, "gs": True, "flags": {"return_usepulses": True}, "expect": "ok"})
    out.append({"kind": "autoload", "text": "from .c16pkg usepulses *\nfrom .nosuch usepulses *\n" + prog, "with_path": True, "expect": "ImportError"})
    out.append({"kind": "autoload", "text": "from .nosuch usepulses *\nfrom .c16pkg usepulses *\n" + prog, "with_path": True, "expect": "ImportError"})
    out.append({"kind": "autoload", "text": "from .c16pkg usepulses *\n" + prog + "from .c16pkg usepulses *\n", "with_path": True, "expect": "JaqalParseError"})
    out.append({"kind": "autoload", "text": "from .c16pkg usepulses x\n" + prog, "with_path": True, "expect": "JaqalParseError"})
    out.append({"kind": "autoload", "text": prog, "with_path": True, "expect": "JaqalError"})
    # names the file system cannot even look up (longer than 255 characters): the module cannot be found
    for mod in ("." + "m" * 300, "m" * 300, "." + "p" * 5000, ".c16pkg." + "s" * 300, "." + "a" * 256 + ".b"):
        out.append({"kind": "autoload", "text": f"from {mod} usepulses *\n" + prog, "with_path": True, "expect": "ImportError"})
    # an import path that does not exist / is not a directory: the module cannot be found
    for ip in ("/nonexistent-c16-dir", "/etc/passwd", ""):
        for mod in (".nosuch", ".c16pkg", "nosuch"):
            out.append({"kind": "autoload", "text": f"from {mod} usepulses *\n" + prog, "import_path": ip, "expect": "ImportError" if ip else None})
    return out


def failing_calls():
    return [
        {"kind": "parse", "text": "register q[2]\nprepare_all; X q[0] /* unterminated", "gs": True, "flags": {}},
        {"kind": "parse", "text": "let x $", "gs": True, "flags": {}},
        {"kind": "parse", "text": "register q[2]\nloop 2 {", "gs": True, "flags": {}},
        {"kind": "parse", "text": "register q[2]\nX q[5]", "gs": True, "flags": {}},
        {"kind": "parse", "text": "register q[2]\nmacro m a { X a }\nm", "gs": False, "flags": {"expand_macro": True}},
        {"kind": "parse", "text": "let x " + "9" * 5000, "gs": True, "flags": {}},
        {"kind": "parse", "text": "register q[2]\n" + "loop 1 {" * 400 + "}" * 400, "gs": True, "flags": {}},
        {"kind": "run", "text": "register q[2]\nX q[0]", "gs": True},
        {"kind": "run", "text": "register q[2]\nprepare_all; < X q[0] | X q[0] >; measure_all", "gs": True},
        {"kind": "run", "text": "prepare_all; measure_all", "gs": True},
        {"kind": "run", "text": "register q[2]\nprepare_all; measure_all", "gs": False},
        {"kind": "autoload", "text": "from nosuch.mod usepulses *\nregister q[2]\n", "with_path": True},
        {"kind": "autoload", "text": "from .nosuch usepulses *\nregister q[2]\n", "with_path": True},
        {"kind": "autoload", "text": "from .c16broken usepulses *\nregister q[2]\n", "with_path": True},
        {"kind": "autoload", "text": "from .c16pkg usepulses *\nregister q[2]\nfoo q[0]\n", "with_path": True},
        {"kind": "header", "text": "let x\nregister q[2]"},
        {"kind": "output_list", "text": "register q[2]\nprepare_all; measure_all", "gs": True, "output": []},
    ]


def history_calls(seed, valid_texts, pulse_path, nprog, thorough):
    r = random.Random(f"{seed}:c16:history")
    seq = []
    take = valid_texts[: max(30, nprog // (2 if thorough else 4))]
    for text, gs, ov in take:
        k = r.random()
        if k < 0.35:
            seq.append({"kind": "run", "text": text, "gs": gs, "override": ov})
        elif k < 0.6:
            seq.append({"kind": "parse", "text": text, "gs": gs, "flags": r.choice(FLAG_COMBOS), "override": ov or [["n", 1]]})
        elif k < 0.75:
            t2, _ = token_damage(text, r)
            seq.append({"kind": "parse", "text": t2, "gs": gs, "flags": r.choice(FLAG_COMBOS)})
        elif k < 0.9:
            t2, _ = char_noise(text, r)
            seq.append({"kind": "run", "text": t2, "gs": gs})
        elif gs and "usepulses" not in text:
            seq.append({"kind": "run_string", "text": r.choice(["from .c16pkg usepulses *\n", "from .c16flat usepulses *\n"]) + text})
        else:
            seq.append({"kind": "header", "text": text})
        # the same text a second time later on
        if r.random() < 0.25:
            seq.append(dict(seq[-1]))
    seq += failing_calls()
    seq += [c for c in import_calls() if c["kind"] != "parse"]
    for name, sh in nest_shapes().items():
        for d in (100, 160, 164, 170, 197, 200, 400):
            seq.append({"kind": r.choice(["parse", "run"]), "text": sh(d), "gs": True, "flags": {}})
    return seq


def replay(case: dict, driver: str = DEFAULT_DRIVER) -> dict:
    _imports()
    w = Watch()
    pd = PulseDir()
    try:
        kind = case.get("kind", "run")
        call = dict(case, kind=kind)
        if kind == "fresh_sequence":
            outs = fresh_outcomes(case["calls"], pd.path)
            ok = all(outs[k + 1:k + 4] == outs[0:3] for k in range(3, len(outs), 4))
            return {"model": None, "impl": outs, "oracle_ok": ok, "detail": "" if ok else "outcomes change after a failing import"}
        impl = _deeper(int(case.get("extra_stack", 0)), lambda: check_call(w, call, pulse_path=pd.path, stream="replay"))
        model = None
        if kind == "run" and driver and "text" in case and "nest" not in case:
            req = model_req(case["text"], case.get("gs", True), case.get("override") or [])
            if case.get("op") == "well_formed":
                model = C01.call_driver(driver, [dict(req, op="well_formed")])[0]
                impl = impl_well_formed(case["text"], case.get("gs", True), case.get("override") or [])
                return {"model": model, "impl": impl, "oracle_ok": None, "detail": "BuiltWellFormed on this text"}
            model = C01.call_driver(driver, [req])[0]
        # the history oracles: the same call again, after failing calls, and in a fresh interpreter
        for f in failing_calls():
            canon_call(f, pd.path)
        again = canon_call(call, pd.path)[0]
        fresh = fresh_outcomes([call], pd.path)[0]
        fails = [dict(f, oracle=k) for k, o in w.oracle.items() for f in o["failures"]]
        detail = "; ".join(f"{f['oracle']}: {f['detail']}" for f in fails)
        if again != impl:
            detail += f"; no_sticky_state: again {json.dumps(again)[:300]}"
        if fresh != impl:
            detail += f"; fresh_process_agrees: fresh {json.dumps(fresh)[:300]}"
        ok = not fails and again == impl and fresh == impl
        if model is not None and isinstance(impl, dict) and impl.get("ok") == "too_big":
            model = None
        return {"model": model, "impl": impl, "oracle_ok": ok, "detail": detail[:3000]}
    finally:
        pd.close()


def main():
    if "--worker" in sys.argv:
        worker_main()
        return
    ap = argparse.ArgumentParser()
    ap.add_argument("--driver", default=DEFAULT_DRIVER)
    ap.add_argument("--n", type=int, default=150)
    ap.add_argument("--seed", type=int, default=0)
    ap.add_argument("--thorough", action="store_true")
    ap.add_argument("--json", action="store_true")
    a = ap.parse_args()
    res = run(a.seed, a.n, a.driver or None, a.thorough)
    if a.json:
        print(json.dumps(res))
        return
    for op, r in res["corr"].items():
        print(f"corr {op}: {r['cases']} cases, {len(r['disagreements']) + r.get('more_disagreements', 0)} disagreements")
        for d in r["disagreements"][:5]:
            print("   ", json.dumps(d)[:1800])
    for k, r in res["oracle"].items():
        print(f"oracle {k}: {r['cases']} cases, {len(r['failures']) + r.get('more_failures', 0)} failures")
        for d in r["failures"][:6]:
            print("   ", json.dumps(d)[:700])
    print("nontrivial:", res["nontrivial"])
    for k, v in res["distribution"].items():
        print(f"  {k}: {v}")


if __name__ == "__main__":
    main()
