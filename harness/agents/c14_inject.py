#!/venv/bin/python
"""C14 oracle stream: the native gate set IN FORCE is the one the documented precedence selects, whatever the FORM in
which gate definitions reach the builder.

    PYTHONPATH=/verif /venv/bin/python /verif/harness/agents/c14_inject.py [--seed 0] [--n 40] [--thorough]

Importable: `run(seed, n, driver, thorough) -> dict`, `replay(case, driver) -> dict` (AGENT_CONVENTIONS.md, "Diff-script
protocol").  Oracles only (`"corr": {}`): the Lean driver is not used.

What C14 demands here: "a program is never accepted with ... a call to a gate that is neither native nor a previously
defined macro when a native gate set is in force, or a call with the wrong number or kind of arguments ... they never
run on a different qubit or gate", quantified over "all gate names and argument lists against any injected or imported
native gate set"; the set in force is fixed by the documented precedence (usepulses.py: "inject_pulses overrides
usepulses", "later usepulses override earlier imports"; `autoload_pulses=False`: usepulses statements are not employed).

A scenario =
  * an injected set (None / empty / 1-4 definitions), up to two `from X usepulses *` imports that resolve to REAL modules
    written on the fly into a temporary directory (relative: `.mod` file, `.mod` package with a `jaqal_gates` submodule;
    absolute, directory on sys.path: `mod` file, `mod` package, dotted `pkg.sub`), fresh unique module names per scenario;
    the sets define the SAME gate names with DIFFERENT signatures (arity, parameter kinds) or the same signature and a
    different unitary; every unitary is an XOR mask on the gate's qubit arguments, so the emulated result of a program is
    a single basis state that a bit-flipping reference predicts;
  * programs: one gate call each (fitting the injected definition, fitting each imported definition, an unknown name, a
    wrong kind, an index at size / size+1 / -1), directly or inside `{}` / `<>` / `loop` / a parameterless macro / a macro
    that passes its parameter on, plus one program made of all calls that fit the set in force;
  * a plan: every program is sent through several (injection form, entry point, autoload) combinations.
    Forms: dict, list, tuple, OrderedDict, dict subclass, dict.values() view, deque, a user iterable class, a one-shot
    iterator, a generator.  Re-iterable form objects are SHARED by all runs of the scenario (a builder that writes
    imported definitions into the caller's container shows up in the later autoload=False runs).
    Entry points: parse_jaqal_string, parse_jaqal_string with expand_macro/expand_let(_map), parse_jaqal_file (import path
    = the file's directory), circuitbuilder.build on the parser's S-expression, CircuitBuilder(native_gates=form).build() (never
    autoloads), circuitbuilder.build on a CircuitBuilder's expression, qsyntax `@circuit(inject_pulses=form, autoload_pulses=True)`
    (programs without wrappers / aliases, at most one absolute import: with two `Q.usepulses` the pinned qsyntax names
    the last module twice — QUsePulses.__init__ is a classmethod — and falsely refuses the first module's gates).
    Quick tier: per program the dict form + 4 other forms, entry points drawn at random with both autoload settings;
    thorough: every form with one entry point per autoload setting.  `n` = number of scenarios
    (quick n=120 ~ 10-16 s; thorough n=300 ~ 75 s alone, < 4 min on a loaded machine).
  After the entry point the circuit goes through expand_macros, fill_in_let and (when prepare_all / measure_all are in
  force) run_jaqal_circuit; JaqalError at any stage = refused.

Oracles
  winning_definition_call_accepted : a program all of whose calls fit the definitions in force passes every stage.
  losing_or_unknown_call_refused   : a program with a call that does not fit the definition in force (fits only a
                                     definition that loses, unknown name, wrong kind, index outside the register) raises
                                     JaqalError at some stage; it is never accepted.
  refused_when_known               : ... and when all of the call is literal (not passed through a macro parameter) the
                                     JaqalError comes from the entry point itself (the value is known while parsing).
  bound_to_winning_definition      : in an accepted circuit every native gate statement's `gate_def`, and
                                     `circuit.native_gates[name]` which the emulator consults, are indistinguishable
                                     (class, name, parameter names and kinds, unitary) from the definition in force —
                                     before and after expand_macros + fill_in_let.
  emulates_winning_unitary         : run_jaqal_circuit ends in the basis state predicted with the winners' unitaries.
  injection_forms_agree            : for one program and one autoload setting all forms / entry points give the same
                                     (accepted?, bindings, emulated state).  The only oracle applied to scenarios whose
                                     injected LIST defines one name twice (no documented winner).
  rejection_is_jaqalerror          : no stage raises anything but JaqalError.
  terminates                       : every guarded call returns within `harness.timeouts.limit()` seconds.
"""
import argparse
import collections
import importlib
import json
import os
import random
import shutil
import signal
import sys
import tempfile

sys.path.insert(0, __import__("os").path.dirname(__import__("os").path.dirname(__import__("os").path.dirname(__import__("os").path.abspath(__file__)))))

from harness import timeouts as _T  # noqa: E402

DEFAULT_DRIVER = "/verif/lean/.lake/build/bin/jaqal-model"

# ---------------------------------------------------------------------------------------------------------------
# library access (lazy: nothing happens at import time)

_LIB = None


def lib():
    global _LIB
    if _LIB is None:
        os.environ.setdefault("JAQALPAQ_RUN_EMULATOR", "1")
        import numpy
        from jaqalpaq.core import GateDefinition, Parameter, ParamType, CircuitBuilder
        from jaqalpaq.core.circuitbuilder import build as core_build
        from jaqalpaq.core.gatedef import BusyGateDefinition
        from jaqalpaq.core.gate import GateStatement
        from jaqalpaq.core.block import BlockStatement, LoopStatement
        from jaqalpaq.core.macro import Macro
        from jaqalpaq.core.circuitbuilder import SequentialBlockBuilder, ParallelBlockBuilder
        from jaqalpaq.core.algorithm import expand_macros, fill_in_let
        from jaqalpaq.parser import parse_jaqal_string, parse_jaqal_file
        from jaqalpaq.parser.parser import parse_to_sexpression
        from jaqalpaq.emulator import run_jaqal_circuit
        from jaqalpaq.qsyntax import circuit as qcircuit
        from jaqalpaq.error import JaqalError

        _LIB = dict(locals())
    return _LIB


class _Hang(Exception):
    pass


def _on_alarm(*_a):
    raise _Hang()


def guarded(f):
    """-> ("ok", value) | ("jaqal", message) | ("other", class name, message) | ("hang",)"""
    L = lib()
    try:
        old = signal.signal(signal.SIGALRM, _on_alarm)
    except ValueError:  # not the main thread
        old = None
    if old is not None:
        signal.alarm(int(_T.limit()))
    try:
        return ("ok", f())
    except _Hang:
        _T.saw_hang()
        return ("hang",)
    except L["JaqalError"] as e:
        return ("jaqal", str(e)[:200])
    except Exception as e:  # noqa: BLE001 — any other class is reported by an oracle
        return ("other", type(e).__name__, str(e)[:200])
    finally:
        if old is not None:
            signal.alarm(0)
            signal.signal(signal.SIGALRM, old)


# ---------------------------------------------------------------------------------------------------------------
# gate definitions from JSON specs
#
# spec = {"name": str, "busy": bool, "params": [[pname, "qubit"|"int"|"float"|"register"], …], "mask": int}
# unitary (present iff the gate has >= 1 qubit parameter and no register parameter): XOR `mask` on the gate's qubit
# arguments, bit k of the mask <-> k-th qubit argument (the emulator's convention), classical arguments ignored.


def _nqb(spec):
    return sum(1 for _p, k in spec["params"] if k == "qubit")


def _has_unitary(spec):
    return (not spec.get("busy")) and _nqb(spec) > 0 and all(k != "register" for _p, k in spec["params"])


def make_def(spec):
    L = lib()
    np = L["numpy"]
    if spec.get("busy"):
        return L["BusyGateDefinition"](spec["name"], [])
    PT = L["ParamType"]
    kinds = {"qubit": PT.QUBIT, "int": PT.INT, "float": PT.FLOAT, "register": PT.REGISTER}
    params = [L["Parameter"](pn, kinds[k]) for pn, k in spec["params"]]
    unitary = None
    if _has_unitary(spec):
        nq, mask = _nqb(spec), spec["mask"]

        def unitary(*_classical, _nq=nq, _mask=mask):
            d = 2**_nq
            m = np.zeros((d, d), dtype=complex)
            for i in range(d):
                m[i ^ _mask, i] = 1
            return m

    return L["GateDefinition"](spec["name"], params, ideal_unitary=unitary)


MODULE_TEMPLATE = '''# generated by harness/agents/c14_inject.py
import json
import numpy
from jaqalpaq.core import GateDefinition, Parameter, ParamType
from jaqalpaq.core.gatedef import BusyGateDefinition

_KINDS = {"qubit": ParamType.QUBIT, "int": ParamType.INT, "float": ParamType.FLOAT, "register": ParamType.REGISTER}


def _make(spec):
    if spec.get("busy"):
        return BusyGateDefinition(spec["name"], [])
    params = [Parameter(pn, _KINDS[k]) for pn, k in spec["params"]]
    nq = sum(1 for _p, k in spec["params"] if k == "qubit")
    unitary = None
    if nq > 0 and all(k != "register" for _p, k in spec["params"]):
        mask = spec["mask"]

        def unitary(*_classical):
            d = 2 ** nq
            m = numpy.zeros((d, d), dtype=complex)
            for i in range(d):
                m[i ^ mask, i] = 1
            return m

    return GateDefinition(spec["name"], params, ideal_unitary=unitary)


_SPECS = json.loads(%r)
%s
'''

_TAIL_CLASS = "\n\nclass jaqal_gates:\n    ALL_GATES = {s['name']: _make(s) for s in _SPECS}\n"
_TAIL_NAMESPACE = "import types\njaqal_gates = types.SimpleNamespace(ALL_GATES={s['name']: _make(s) for s in _SPECS})\n"
_TAIL_PLAIN = "ALL_GATES = {s['name']: _make(s) for s in _SPECS}\n"


def expected_fp(spec):
    """What `fingerprint` must return for a definition made from `spec`."""
    if spec.get("busy"):
        return ("BusyGateDefinition", spec["name"], (), None)
    return (
        "GateDefinition",
        spec["name"],
        tuple((pn, k) for pn, k in spec["params"]),
        spec["mask"] if _has_unitary(spec) else None,
    )


def fingerprint(gd):
    """Observable identity of a definition object: class, name, parameter names / kinds, unitary."""
    L = lib()
    np = L["numpy"]
    PT = L["ParamType"]
    names = {PT.QUBIT: "qubit", PT.INT: "int", PT.FLOAT: "float", PT.REGISTER: "register"}
    try:
        params = tuple((p.name, names.get(p.kind, str(p.kind))) for p in gd.parameters)
        u = getattr(gd, "ideal_unitary", None)
        tag = None
        if u is not None:
            ncl = sum(1 for _p, k in params if k in ("int", "float"))
            m = np.asarray(u(*([0] * ncl)))
            mask = int(np.argmax(np.abs(m[:, 0])))
            d = m.shape[0]
            ref = np.zeros((d, d), dtype=complex)
            for i in range(d):
                ref[i ^ mask, i] = 1
            tag = mask if m.shape == ref.shape and np.array_equal(m, ref) else "other-unitary"
        return (type(gd).__name__, gd.name, params, tag)
    except Exception as e:  # noqa: BLE001
        return ("unreadable", type(e).__name__, str(e)[:80], None)


# ---------------------------------------------------------------------------------------------------------------
# injection forms

FORMS = ["dict", "list", "tuple", "odict", "dictsub", "values", "deque", "iterable", "iter", "gen"]
ONE_SHOT = {"iter", "gen"}
NON_DICT = ["list", "tuple", "deque", "iterable", "iter", "gen"]


class _DictSub(dict):
    pass


class _Iterable:
    """Only `__iter__` (and truthiness by default): "all iterables like list and tuple" (normalize_native_gates)."""

    def __init__(self, items):
        self._items = list(items)

    def __iter__(self):
        return iter(self._items)


def make_form(form, defs):
    if form == "none":
        return None
    if form == "dict":
        return {d.name: d for d in defs}
    if form == "odict":
        return collections.OrderedDict((d.name, d) for d in defs)
    if form == "dictsub":
        return _DictSub((d.name, d) for d in defs)
    if form == "values":
        return {d.name: d for d in defs}.values()
    if form == "list":
        return list(defs)
    if form == "tuple":
        return tuple(defs)
    if form == "deque":
        return collections.deque(defs)
    if form == "iterable":
        return _Iterable(defs)
    if form == "iter":
        return iter(list(defs))
    if form == "gen":
        return (d for d in list(defs))
    raise ValueError(form)


# ---------------------------------------------------------------------------------------------------------------
# entry points

ENTRIES = [
    ("parse_string", True),
    ("parse_string", False),
    ("parse_flags_macro_let", True),
    ("parse_flags_letmap", True),
    ("parse_flags_letmap", False),
    ("parse_file", True),
    ("build_sexpr", True),
    ("build_sexpr", False),
    ("circuit_builder", False),
    ("builder_expr", True),
    ("qsyntax", True),
]
IMPORT_STYLES = ["rel_file", "rel_pkg", "abs_file", "abs_pkg", "abs_dotted"]


def _arg_text(a):
    t = a["t"]
    if t == "qubit":
        return f"{a['reg']}[{a['i']}]"
    if t in ("reg", "let"):
        return a["name"]
    if t == "int":
        return str(a["v"])
    if t == "float":
        return repr(float(a["v"]))
    raise ValueError(t)


def _arg_sx(a):
    t = a["t"]
    if t == "qubit":
        return ("array_item", a["reg"], a["i"])
    if t in ("reg", "let"):
        return a["name"]
    return a["v"]


def _call_text(name, args):
    return " ".join([name] + [_arg_text(a) for a in args])


def render_text(scn, prog, use_lines):
    """The Jaqal source of a program; `use_lines` = the `from … usepulses *` lines of the materialised modules."""
    out = list(use_lines)
    out.append("let n 1")
    out.append(f"register q[{scn['nq']}]")
    out.append(f"map a q[1:{scn['nq']}]")
    body = []
    for k, st in enumerate(prog["stmts"]):
        call, w = st["call"], st["wrap"]
        name, args = call["name"], call["args"]
        if w == "macro0" or (w == "macro1" and not args):
            out.append(f"macro mac{k} {{ {_call_text(name, args)} }}")
            body.append(f"mac{k}")
        elif w == "macro1":
            inner = " ".join([name, "x"] + [_arg_text(a) for a in args[1:]])
            out.append(f"macro mac{k} x {{ {inner} }}")
            body.append(f"mac{k} {_arg_text(args[0])}")
        elif w == "seq":
            body.append(f"{{ {_call_text(name, args)} }}")
        elif w == "par":
            body.append(f"< {_call_text(name, args)} >")
        elif w == "loop":
            body.append(f"loop 3 {{ {_call_text(name, args)} }}")
        else:
            body.append(_call_text(name, args))
    if prog["pm"]:
        body = ["prepare_all"] + body + ["measure_all"]
    return "\n".join(out + body) + "\n"


def build_with_circuitbuilder(scn, prog, modnames, native):
    L = lib()
    cb = L["CircuitBuilder"](native_gates=native)
    for m in modnames:
        cb.usepulses(m, unevaluated=True)
    cb.let("n", 1, unevaluated=True)
    cb.register("q", scn["nq"], unevaluated=True)
    cb.map("a", "q", slice(1, scn["nq"]), unevaluated=True)
    body = []
    for k, st in enumerate(prog["stmts"]):
        call, w = st["call"], st["wrap"]
        name, args = call["name"], call["args"]
        sx = [_arg_sx(a) for a in args]
        if w == "macro0" or (w == "macro1" and not args):
            bb = L["SequentialBlockBuilder"]()
            bb.gate(name, *sx)
            cb.macro(f"mac{k}", [], bb, unevaluated=True)
            body.append(("gate", f"mac{k}"))
        elif w == "macro1":
            bb = L["SequentialBlockBuilder"]()
            bb.gate(name, "x", *sx[1:])
            cb.macro(f"mac{k}", ["x"], bb, unevaluated=True)
            body.append(("gate", f"mac{k}", sx[0]))
        elif w in ("seq", "par"):
            bb = (L["ParallelBlockBuilder"] if w == "par" else L["SequentialBlockBuilder"])()
            bb.gate(name, *sx)
            body.append(("block", bb))
        elif w == "loop":
            bb = L["SequentialBlockBuilder"]()
            bb.gate(name, *sx)
            body.append(("loop", bb))
        else:
            body.append(("gate", name, *sx))
    if prog["pm"]:
        body = [("gate", "prepare_all")] + body + [("gate", "measure_all")]
    for b in body:
        if b[0] == "gate":
            cb.gate(*b[1:])
        elif b[0] == "block":
            cb.expression.append(b[1].expression)
        else:
            cb.loop(3, b[1], unevaluated=True)
    return cb


def qsyntax_applicable(scn, prog):
    if any(i["style"].startswith("rel") for i in scn["imports"]):
        return False
    if len(scn["imports"]) > 1:
        # QUsePulses.__init__ is a classmethod in the pinned tree: every Q.usepulses of a circuit names the module of
        # the LAST one, so the gates of an earlier module are refused ("No gate … defined").  A false rejection, never a
        # wrong acceptance (the later module wins anyway) — reported as a finding, not asserted here.
        return False
    if not prog["pm"]:  # qsyntax adds prepare_all / measure_all itself
        return False
    for st in prog["stmts"]:
        if st["wrap"] != "direct":
            return False
        for a in st["call"]["args"]:
            if a["t"] == "qubit" and (a["reg"] != "q" or a["i"] < 0):
                return False
            if a["t"] == "reg" and a["name"] != "q":
                return False
    return True


def entry_applicable(entry, scn, prog):
    if entry == "qsyntax":
        return qsyntax_applicable(scn, prog)
    if entry == "parse_flags_letmap":
        # fill_in_map refuses a whole alias used as an argument (a limitation of that pass, not a matter of C14)
        return not any(a["t"] == "reg" and a["name"] == "a" for st in prog["stmts"] for a in st["call"]["args"])
    return True


def build_with_qsyntax(scn, prog, modnames, inject):
    L = lib()

    def body(Q):
        for m in modnames:
            Q.usepulses(m)
        n = Q.let(1, "n")
        r = Q.register(scn["nq"], "q")
        for st in prog["stmts"]:
            args = []
            for a in st["call"]["args"]:
                if a["t"] == "qubit":
                    args.append(r[a["i"]])
                elif a["t"] == "reg":
                    args.append(r)
                elif a["t"] == "let":
                    args.append(n)
                else:
                    args.append(a["v"])
            getattr(Q, st["call"]["name"])(*args)

    return L["qcircuit"](inject_pulses=inject, autoload_pulses=True)(body)()


class Materialised:
    """The scenario's gate modules on disk (temporary directory, on sys.path for the absolute ones)."""

    _counter = 0

    def __init__(self, scn, root):
        self.root = root
        self.names = []      # what follows `from` in the Jaqal text
        self.api_names = []  # the same
        self.prefixes = []
        for imp in scn["imports"]:
            Materialised._counter += 1
            base = f"c14inj{os.getpid()}x{Materialised._counter}"
            self.prefixes.append(base)
            specs = json.dumps(imp["gates"])
            tail = _TAIL_NAMESPACE if imp.get("namespace") else _TAIL_CLASS
            style = imp["style"]
            if style in ("rel_file", "abs_file"):
                with open(os.path.join(root, base + ".py"), "w") as fd:
                    fd.write(MODULE_TEMPLATE % (specs, tail))
                name = base
            elif style in ("rel_pkg", "abs_pkg"):
                os.mkdir(os.path.join(root, base))
                with open(os.path.join(root, base, "__init__.py"), "w") as fd:
                    fd.write("# package\n")
                with open(os.path.join(root, base, "jaqal_gates.py"), "w") as fd:
                    fd.write(MODULE_TEMPLATE % (specs, _TAIL_PLAIN))
                name = base
            else:  # abs_dotted
                os.mkdir(os.path.join(root, base))
                with open(os.path.join(root, base, "__init__.py"), "w") as fd:
                    fd.write("# package\n")
                with open(os.path.join(root, base, "sub.py"), "w") as fd:
                    fd.write(MODULE_TEMPLATE % (specs, tail))
                name = base + ".sub"
            self.names.append(("." if style.startswith("rel") else "") + name)
        importlib.invalidate_caches()
        self.use_lines = [f"from {n} usepulses *" for n in self.names]
        self._nfile = 0

    def program_file(self, text):
        self._nfile += 1
        p = os.path.join(self.root, f"prog{self._nfile}.jaqal")
        with open(p, "w") as fd:
            fd.write(text)
        return p

    def forget(self):
        for k in [k for k in sys.modules if any(k == p or k.startswith(p + ".") for p in self.prefixes)]:
            del sys.modules[k]


def call_entry(entry, auto, scn, prog, mat, inject):
    L = lib()
    text = render_text(scn, prog, mat.use_lines)
    if entry == "parse_string":
        return L["parse_jaqal_string"](text, inject_pulses=inject, autoload_pulses=auto, import_path=mat.root)
    if entry == "parse_flags_macro_let":
        return L["parse_jaqal_string"](
            text, expand_macro=True, expand_let=True, inject_pulses=inject, autoload_pulses=auto, import_path=mat.root
        )
    if entry == "parse_flags_letmap":
        return L["parse_jaqal_string"](
            text, expand_let_map=True, inject_pulses=inject, autoload_pulses=auto, import_path=mat.root
        )
    if entry == "parse_file":
        return L["parse_jaqal_file"](mat.program_file(text), inject_pulses=inject, autoload_pulses=auto)
    if entry == "build_sexpr":
        sx = L["parse_to_sexpression"](text)
        return L["core_build"](sx, inject_pulses=inject, autoload_pulses=auto, import_path=mat.root)
    if entry == "circuit_builder":
        return build_with_circuitbuilder(scn, prog, mat.names, inject).build()
    if entry == "builder_expr":
        cb = build_with_circuitbuilder(scn, prog, mat.names, None)
        return L["core_build"](cb.expression, inject_pulses=inject, autoload_pulses=auto, import_path=mat.root)
    if entry == "qsyntax":
        return build_with_qsyntax(scn, prog, mat.names, inject)
    raise ValueError(entry)


# ---------------------------------------------------------------------------------------------------------------
# reference


def in_force(scn, auto):
    """name -> spec of the definition the documented precedence selects; None when no native gate set is in force."""
    if scn["inj"] is None and not auto:
        return None
    E = {}
    if auto:
        for imp in scn["imports"]:  # later usepulses override earlier imports
            for g in imp["gates"]:
                E[g["name"]] = g
    for g in scn["inj"] or []:  # inject_pulses overrides usepulses
        E[g["name"]] = g
    return E


def _phys(scn, a):
    """physical qubit of a qubit argument, or None when the reference cannot be honoured"""
    size = scn["nq"] if a["reg"] == "q" else scn["nq"] - 1
    if not 0 <= a["i"] < size:
        return None
    return a["i"] if a["reg"] == "q" else a["i"] + 1


def call_fits(scn, E, call):
    spec = E.get(call["name"])
    args = call["args"]
    for a in args:
        if a["t"] == "qubit" and _phys(scn, a) is None:
            return False
    if spec is None:
        return False
    params = [] if spec.get("busy") else spec["params"]
    if len(params) != len(args):
        return False
    for (_pn, kind), a in zip(params, args):
        t = a["t"]
        if kind == "qubit" and t != "qubit":
            return False
        if kind == "register" and t != "reg":
            return False
        if kind == "int" and t not in ("int", "let"):
            return False
        if kind == "float" and t not in ("int", "float", "let"):
            return False
    return True


def expectation(scn, prog, auto):
    """-> None (no gate set in force / no documented winner) or
    {"accept": bool, "state": bit string or None, "bind": {name: fingerprint}}"""
    if scn.get("dup_inj"):
        return None
    E = in_force(scn, auto)
    if E is None:
        return None
    names = [st["call"]["name"] for st in prog["stmts"]]
    if prog["pm"]:
        names += ["prepare_all", "measure_all"]
        if not all(n in E and E[n].get("busy") for n in ("prepare_all", "measure_all")):
            return {"accept": False, "state": None, "bind": {}}
    ok = all(call_fits(scn, E, st["call"]) for st in prog["stmts"])
    if not ok:
        return {"accept": False, "state": None, "bind": {}}
    state = None
    if prog["pm"]:
        bits = [0] * scn["nq"]
        for st in prog["stmts"]:
            spec = E[st["call"]["name"]]
            if not _has_unitary(spec):
                continue
            qs = [_phys(scn, a) for a in st["call"]["args"] if a["t"] == "qubit"]
            for k, q in enumerate(qs):  # `loop 3` = an odd number of XORs = one XOR
                if (spec["mask"] >> k) & 1:
                    bits[q] ^= 1
        state = "".join(str(b) for b in bits)
    return {"accept": True, "state": state, "bind": {n: expected_fp(E[n]) for n in names}}


# ---------------------------------------------------------------------------------------------------------------
# observation


def native_bindings(circuit):
    """[(name, fingerprint of gate_def)] of every gate statement bound to a non-macro definition."""
    L = lib()
    out = []

    def walk(s):
        if isinstance(s, L["GateStatement"]):
            if not isinstance(s.gate_def, L["Macro"]):
                out.append((s.name, fingerprint(s.gate_def)))
        elif isinstance(s, L["LoopStatement"]):
            walk(s.statements)
        elif isinstance(s, L["BlockStatement"]):
            for x in s.statements:
                walk(x)

    for m in circuit.macros.values():
        walk(m.body)
    walk(circuit.body)
    return out


def observe(entry, auto, form, scn, prog, mat, inject):
    """Run one program through entry point + passes + emulator."""
    L = lib()
    obs = {"accepted": False, "stage": None, "err": None, "bind": None, "bind_after": None, "native": None, "state": None,
           "bad": None}

    def stage(name, f):
        r = guarded(f)
        if r[0] == "ok":
            return r[1]
        obs["stage"] = name
        if r[0] == "jaqal":
            obs["err"] = r[1]
        elif r[0] == "hang":
            obs["bad"] = ("terminates", f"{name}: no answer within {_T.limit()} s")
        else:
            obs["bad"] = ("rejection_is_jaqalerror", f"{name}: {r[1]}: {r[2]}")
        return None

    c = stage("entry", lambda: call_entry(entry, auto, scn, prog, mat, inject))
    if c is None:
        return obs
    obs["bind"] = sorted(set(native_bindings(c)))
    used = {n for n, _ in obs["bind"]}
    obs["native"] = {n: (fingerprint(c.native_gates[n]) if n in c.native_gates else None) for n in sorted(used)}
    c2 = stage("expand_macros", lambda: L["expand_macros"](c))
    if c2 is None:
        return obs
    c3 = stage("fill_in_let", lambda: L["fill_in_let"](c2))
    if c3 is None:
        return obs
    obs["bind_after"] = sorted(set(native_bindings(c3)))
    if prog["pm"]:
        res = stage("emulate", lambda: L["run_jaqal_circuit"](c))
        if res is None:
            return obs
        probs = res.subcircuits[0].probability_by_str
        hit = [k for k, v in probs.items() if abs(v - 1) < 1e-9]
        obs["state"] = hit[0] if len(hit) == 1 else "mixed:" + json.dumps({k: float(v) for k, v in probs.items() if v > 1e-9})
    obs["accepted"] = True
    return obs


# ---------------------------------------------------------------------------------------------------------------
# generation

NAMES = ["G", "F", "Rk", "Sxx"]
SIGS = [
    ["qubit"], ["qubit", "qubit"], ["qubit", "int"], ["qubit", "float"], ["qubit", "qubit", "float"],
    ["int"], [], ["register"], ["qubit", "qubit", "qubit"], ["float", "qubit"],
]
PNAMES = [["a", "b", "c"], ["q0", "q1", "q2"], ["p", "r", "s"]]
WRAPS = ["direct", "direct", "seq", "par", "loop", "macro0", "macro1"]
PM = [{"name": "prepare_all", "busy": True, "params": []}, {"name": "measure_all", "busy": True, "params": []}]


def gen_spec(rng, name, nq, avoid=None, same_sig_as=None):
    for _ in range(50):
        if same_sig_as is not None:
            kinds = [k for _p, k in same_sig_as["params"]]
        else:
            kinds = list(rng.choice(SIGS))
        nqb = sum(1 for k in kinds if k == "qubit")
        if nqb > nq:
            continue
        pn = rng.choice(PNAMES)
        spec = {"name": name, "params": [[pn[i % 3] + (str(i) if i >= 3 else ""), k] for i, k in enumerate(kinds)],
                "mask": rng.randrange(0, 2**nqb) if nqb else 0}
        if avoid is not None and any(_distinguishable(spec, o) is False for o in avoid):
            continue
        return spec
    return None


def _distinguishable(a, b):
    """two definitions of one name must differ in signature (kinds) or, with a unitary, in the mask"""
    ka, kb = [k for _p, k in a["params"]], [k for _p, k in b["params"]]
    if ka != kb:
        return True
    return _has_unitary(a) and a["mask"] != b["mask"]


def fitting_args(rng, scn, spec):
    """arguments that fit `spec`, on distinct physical qubits"""
    nq = scn["nq"]
    free = list(range(nq))
    rng.shuffle(free)
    args = []
    for _pn, k in ([] if spec.get("busy") else spec["params"]):
        if k == "qubit":
            p = free.pop()
            if p >= 1 and rng.random() < 0.3:
                args.append({"t": "qubit", "reg": "a", "i": p - 1})
            else:
                args.append({"t": "qubit", "reg": "q", "i": p})
        elif k == "register":
            args.append({"t": "reg", "name": rng.choice(["q", "a"])})
        elif k == "int":
            args.append(rng.choice([{"t": "int", "v": rng.randrange(0, 4)}, {"t": "let", "name": "n"}]))
        else:
            args.append(rng.choice([{"t": "float", "v": rng.choice([0.25, 1.5, -0.5])}, {"t": "int", "v": 2}]))
    return args


def gen_scenario(rng, thorough):
    nq = rng.choice([2, 3, 3, 4])
    kind = rng.choice(["inj_imp1"] * 3 + ["inj_imp2"] * 3 + ["inj_only", "imp_only", "empty_inj", "dup_inj"])
    n_imp = {"inj_imp1": 1, "inj_imp2": 2, "inj_only": 0, "imp_only": rng.choice([1, 2, 2]),
             "empty_inj": rng.choice([0, 1, 2]), "dup_inj": rng.choice([0, 1])}[kind]
    names = rng.sample(NAMES, rng.choice([2, 3]))
    scn = {"kind": kind, "nq": nq, "imports": [], "inj": None}
    sets = []  # lists of specs; index 0 = injected
    n_sets = 1 + n_imp
    for _ in range(n_sets):
        sets.append([])
    for name in names:
        owners = [k for k in range(n_sets) if rng.random() < 0.75]
        if name == names[0]:
            owners = list(range(n_sets))  # one name clashes everywhere
        chosen = []
        for k in owners:
            same = rng.choice(chosen) if chosen and rng.random() < 0.3 else None
            spec = gen_spec(rng, name, nq, avoid=chosen, same_sig_as=same) or gen_spec(rng, name, nq, avoid=chosen)
            if spec is None:
                continue
            chosen.append(spec)
            sets[k].append(spec)
    for s in sets:
        rng.shuffle(s)
    # prepare_all / measure_all: in the injected set (when there is one), and in the imports most of the time
    inj = sets[0] + [dict(p) for p in PM]
    if kind == "imp_only":
        scn["inj"] = None
    elif kind == "empty_inj":
        scn["inj"] = []
    elif kind == "dup_inj":
        dup = gen_spec(rng, names[0], nq, avoid=[g for g in sets[0] if g["name"] == names[0]]) or dict(sets[0][0])
        scn["inj"] = inj + [dup]
        scn["dup_inj"] = True
    else:
        scn["inj"] = inj
        if rng.random() < 0.15:  # an injected set without prepare_all / measure_all
            scn["inj"] = sets[0]
    for k in range(n_imp):
        gates = sets[1 + k] + ([dict(p) for p in PM] if (rng.random() < 0.8 or scn["inj"] in (None, [])) else [])
        scn["imports"].append({"style": rng.choice(IMPORT_STYLES), "namespace": rng.random() < 0.3, "gates": gates})

    # ---- programs
    all_sets = ([scn["inj"]] if scn["inj"] else []) + [i["gates"] for i in scn["imports"]]
    calls = []
    for s in all_sets:
        for g in s:
            if not g.get("busy"):
                calls.append(("fit", {"name": g["name"], "args": fitting_args(rng, scn, g)}))
    E_auto = in_force(scn, True) or {}
    winners = [g for g in E_auto.values() if not g.get("busy")]
    calls.append(("unknown", {"name": "Nope", "args": fitting_args(rng, scn, {"params": [["a", "qubit"]]})}))
    for g in rng.sample(winners, min(len(winners), 2)):
        args = fitting_args(rng, scn, g)
        qpos = [i for i, a in enumerate(args) if a["t"] == "qubit"]
        if qpos and rng.random() < 0.6:
            i = rng.choice(qpos)
            size = nq if args[i]["reg"] == "q" else nq - 1
            args[i] = dict(args[i], i=rng.choice([size, size + 1, -1]))
            calls.append(("range", {"name": g["name"], "args": args}))
        elif args:
            i = rng.randrange(len(args))
            used = {_phys(scn, a) for a in args if a["t"] == "qubit"}
            spare = [p for p in range(nq) if p not in used]
            klass = {"int": "num", "float": "num", "let": "num", "reg": "reg", "qubit": "qubit"}
            others = [{"t": "int", "v": 1}, {"t": "float", "v": 0.25}, {"t": "reg", "name": "q"}, {"t": "let", "name": "n"}]
            if spare:
                others.append({"t": "qubit", "reg": "q", "i": rng.choice(spare)})
            others = [o for o in others if klass[o["t"]] != klass[args[i]["t"]] or (o["t"], args[i]["t"]) == ("float", "int")]
            args[i] = rng.choice(others)
            calls.append(("kind", {"name": g["name"], "args": args}))
    pm_auto = all(n in E_auto and E_auto[n].get("busy") for n in ("prepare_all", "measure_all"))
    E_no = in_force(scn, False)
    pm_no = E_no is not None and all(n in E_no for n in ("prepare_all", "measure_all"))
    progs = []
    plain = rng.random() < 0.3  # a scenario without wrappers (all of it can also be said in qsyntax)
    wraps = ["direct"] if plain else WRAPS
    for why, call in calls:
        pm = pm_auto if rng.random() < 0.85 else pm_no
        progs.append({"why": why, "pm": bool(pm), "stmts": [{"wrap": rng.choice(wraps), "call": call}]})
    for E, pm in ((E_auto, pm_auto), (E_no, pm_no)):
        if not E:
            continue
        good = [c for _w, c in calls if call_fits(scn, E, c)]
        if len(good) >= 2:
            rng.shuffle(good)
            progs.append({"why": "combined", "pm": bool(pm),
                          "stmts": [{"wrap": rng.choice(wraps), "call": c} for c in good[:4]]})
    rng.shuffle(progs)
    scn["programs"] = progs

    # ---- plan
    if scn["inj"] is None:
        forms = ["none"]
        entries = [e for e in ENTRIES if e[1] and e[0] != "circuit_builder"]
    else:
        forms = NON_DICT if scn.get("dup_inj") else FORMS
        entries = list(ENTRIES)
    plan = []
    for pi, prog in enumerate(progs):
        ents = [e for e in entries if entry_applicable(e[0], scn, prog)]
        if thorough:
            # every form, with one entry point per autoload setting
            combos = []
            for f in forms:
                for want in ([True, False] if scn["inj"] is not None else [True]):
                    combos.append((f, rng.choice([e for e in ents if e[1] == want])))
        else:
            fs = list(forms)
            rng.shuffle(fs)
            head = ["dict"] if "dict" in forms else []
            fs = head + [f for f in fs if f not in head][: (4 if len(forms) > 1 else 1)]
            if len(forms) == 1:
                fs = fs * 3
            combos = []
            autos = [True, False] if scn["inj"] is not None else [True]
            for k, f in enumerate(fs):
                want = autos[k % len(autos)] if k < 4 else rng.choice(autos)
                combos.append((f, rng.choice([e for e in ents if e[1] == want])))
            if ("qsyntax", True) in ents and not any(e[0] == "qsyntax" for _f, e in combos):
                combos.append((rng.choice(forms), ("qsyntax", True)))
        rng.shuffle(combos)
        for f, (ename, auto) in combos:
            plan.append([pi, f, ename, auto])
    scn["plan"] = plan
    return scn


# ---------------------------------------------------------------------------------------------------------------
# running a scenario


def run_scenario(scn, root, report, count):
    """report(oracle, ok, case, detail); count(feature)"""
    inj_defs = None if scn["inj"] is None else [make_def(s) for s in scn["inj"]]
    os.makedirs(root, exist_ok=True)
    sys.path.insert(0, root)  # for the absolute imports
    mat = Materialised(scn, root)
    shared = {}
    groups = {}
    try:
        for step, (pi, form, ename, auto) in enumerate(scn["plan"]):
            prog = scn["programs"][pi]
            if form in ONE_SHOT or form == "none":
                inject = make_form(form, inj_defs)
            else:
                if form not in shared:
                    shared[form] = make_form(form, inj_defs)
                inject = shared[form]
            obs = observe(ename, auto, form, scn, prog, mat, inject)
            exp = expectation(scn, prog, auto)
            text = render_text(scn, prog, mat.use_lines)
            case = {"scenario": scn, "step": step, "program": pi, "form": form, "entry": ename, "autoload": auto,
                    "text": text}
            count(f"entry {ename} autoload={auto}")
            count(f"form {form}")
            for st in prog["stmts"]:
                count(f"wrap {st['wrap']}")
            count(f"program {prog['why']}")
            count("accepted" if obs["accepted"] else f"refused at {obs['stage']}")
            if obs["bad"]:
                report(obs["bad"][0], False, case, obs["bad"][1])
                continue
            report("rejection_is_jaqalerror", True, case, "")
            report("terminates", True, case, "")
            literal = all(st["wrap"] != "macro1" or not st["call"]["args"] for st in prog["stmts"])
            if exp is not None:
                if exp["accept"]:
                    report("winning_definition_call_accepted", obs["accepted"], case,
                           f"refused at {obs['stage']}: {obs['err']}")
                    if obs["accepted"]:
                        bad = []
                        for label, pairs in (("entry", obs["bind"]), ("after expand_macros+fill_in_let", obs["bind_after"])):
                            for n, fp in pairs:
                                if fp != exp["bind"].get(n):
                                    bad.append(f"{label}: statement {n} bound to {fp}, in force {exp['bind'].get(n)}")
                        for n, fp in obs["native"].items():
                            if fp != exp["bind"].get(n):
                                bad.append(f"circuit.native_gates[{n!r}] is {fp}, in force {exp['bind'].get(n)}")
                        names_seen = {n for n, _ in obs["bind"]}
                        for n in exp["bind"]:
                            if n not in names_seen:
                                bad.append(f"no native statement {n} in the accepted circuit")
                        report("bound_to_winning_definition", not bad, case, "; ".join(bad[:4]))
                        if exp["state"] is not None:
                            report("emulates_winning_unitary", obs["state"] == exp["state"], case,
                                   f"emulator ended in {obs['state']}, the definitions in force give {exp['state']}")
                            count("emulated")
                else:
                    report("losing_or_unknown_call_refused", not obs["accepted"], case,
                           f"accepted ({prog['why']}); bound to {obs['bind']}; emulated state {obs['state']}")
                    if not obs["accepted"] and literal:
                        report("refused_when_known", obs["stage"] == "entry", case,
                               f"all arguments literal, but refused only at {obs['stage']}: {obs['err']}")
                count("expected accept" if exp["accept"] else "expected refuse")
            else:
                count("no documented winner (agreement only)")
            sig = (obs["accepted"], json.dumps(obs["bind_after"] if obs["accepted"] else None), obs["state"])
            groups.setdefault((pi, auto), []).append((form, ename, sig, case, obs))
    finally:
        mat.forget()
        try:
            sys.path.remove(root)
        except ValueError:
            pass
    for (pi, auto), runs in groups.items():
        if in_force(scn, auto) is None:
            continue
        ref = runs[0]
        for r in runs[1:]:
            same = r[2] == ref[2]
            report("injection_forms_agree", same, r[3],
                   f"{r[0]}/{r[1]}: accepted={r[2][0]} bind={r[2][1]} state={r[2][2]} (refused at {r[4]['stage']}: {r[4]['err']})"
                   f"  BUT  {ref[0]}/{ref[1]}: accepted={ref[2][0]} bind={ref[2][1]} state={ref[2][2]}"
                   f" (refused at {ref[4]['stage']}: {ref[4]['err']})")


class _Env:
    """temporary directory on sys.path, removed afterwards"""

    def __enter__(self):
        self.root = tempfile.mkdtemp(prefix="c14inj_")
        return self.root

    def __exit__(self, *a):
        sys.path[:] = [p for p in sys.path if not str(p).startswith(self.root)]
        for k in [k for k in sys.modules if k.startswith(f"c14inj{os.getpid()}x")]:
            del sys.modules[k]
        shutil.rmtree(self.root, ignore_errors=True)
        importlib.invalidate_caches()
        return False


ORACLES = ["winning_definition_call_accepted", "losing_or_unknown_call_refused", "refused_when_known",
           "bound_to_winning_definition", "emulates_winning_unitary", "injection_forms_agree",
           "rejection_is_jaqalerror", "terminates"]


def run(seed: int, n: int, driver: str = DEFAULT_DRIVER, thorough: bool = False) -> dict:
    lib()
    rng = random.Random(f"c14_inject/{seed}")
    oracle = {o: {"cases": 0, "failures": []} for o in ORACLES}
    dist = collections.Counter()
    samples = []
    distinct = set()

    def report(name, ok, case, detail):
        o = oracle[name]
        o["cases"] += 1
        if not ok and len(o["failures"]) < 20:
            o["failures"].append({"case": case, "detail": detail})
        elif not ok:
            o.setdefault("more_failures", 0)
            o["more_failures"] += 1
        distinct.add((case["text"].split("register", 1)[-1], case["form"], case["entry"], case["autoload"],
                      json.dumps(case["scenario"]["inj"]), json.dumps([i["gates"] for i in case["scenario"]["imports"]])))

    with _Env() as root:
        for k in range(n):
            scn = gen_scenario(rng, thorough)
            dist[f"scenario {scn['kind']}"] += 1
            dist[f"imports {len(scn['imports'])}"] += 1
            for imp in scn["imports"]:
                dist[f"import style {imp['style']}"] += 1
            run_scenario(scn, os.path.join(root, f"s{k}"), report, lambda f: dist.__setitem__(f, dist[f] + 1))
            if len(samples) < 4:
                mat_names = [f"<module {i}: {imp['style']}>" for i, imp in enumerate(scn["imports"])]
                samples.append({"kind": scn["kind"], "inj": scn["inj"], "imports": scn["imports"],
                                "program": render_text(scn, scn["programs"][0],
                                                       [f"from {m} usepulses *" for m in mat_names]),
                                "plan_head": scn["plan"][:6]})
    for o in oracle.values():
        more = o.pop("more_failures", 0)
        if more:
            o["failures_not_listed"] = more
    return {"corr": {}, "oracle": oracle, "distribution": dict(dist), "samples": samples, "nontrivial": len(distinct)}


def replay(case: dict, driver: str = DEFAULT_DRIVER) -> dict:
    """Re-run the failing case's whole scenario (same plan, so shared containers and import order are the same) and
    report the failures found, those of the same step first."""
    lib()
    scn = case["scenario"]
    found = []

    def report(name, ok, c, detail):
        if not ok:
            found.append((0 if c["step"] == case.get("step") else 1, name, c, detail))

    with _Env() as root:
        run_scenario(scn, os.path.join(root, "replay"), report, lambda f: None)
    found.sort(key=lambda t: t[0])
    if not found:
        return {"oracle_ok": True, "detail": "no oracle fails on this scenario"}
    _, name, c, detail = found[0]
    return {"oracle_ok": False,
            "detail": f"{name}: {detail}\n--- step {c['step']}: entry={c['entry']} form={c['form']} autoload={c['autoload']}\n{c['text']}"
                      f"(+{len(found) - 1} more failing checks in this scenario)",
            "impl": {"oracle": name, "entry": c["entry"], "form": c["form"], "autoload": c["autoload"], "text": c["text"]}}


def main():
    ap = argparse.ArgumentParser()
    ap.add_argument("--seed", type=int, default=0)
    ap.add_argument("--n", type=int, default=40)
    ap.add_argument("--thorough", action="store_true")
    ap.add_argument("--driver", default=DEFAULT_DRIVER)
    a = ap.parse_args()
    r = run(a.seed, a.n, a.driver, a.thorough)
    bad = 0
    for name, o in r["oracle"].items():
        print(f"{name:36s} cases {o['cases']:7d}  failures {len(o['failures'])}")
        bad += len(o["failures"])
        for f in o["failures"][:2]:
            c = f["case"]
            print(f"   [{c['entry']} / {c['form']} / autoload={c['autoload']}] {f['detail']}")
            print("   " + c["text"].replace("\n", "\n   "))
    print("distribution:", json.dumps(r["distribution"], indent=1, sort_keys=True))
    print("nontrivial:", r["nontrivial"])
    sys.exit(1 if bad else 0)


if __name__ == "__main__":
    main()
