#!/venv/bin/python
"""Differential test for the code generator and circuit equality (properties C20, generator side of C01).

Real code:  `jaqalpaq.generator.generate_jaqal_program`, every `__eq__` of `jaqalpaq.core`.
Lean model: `Jaqal.Generator.gen`, `Jaqal.PyEq.{valEq,stmtEq,circuitEq}` through the driver ops
            `gen`, `pyeq`, `val_eq`, `stmt_eq` (JaqalModel/Model/GenOps.lean).

Run:   PYTHONPATH=/verif /venv/bin/python /verif/harness/agents/gen_diff.py [--driver PATH] [--n N] [--seed S] [--thorough]

Cases
 (a) random programs of all shapes (with / without the injected gate set; int / float / negative lets; the three
     alias forms with literal, let and defaulted bounds; chains of aliases; macros calling macros; nested
     blocks; subcircuits with literal / let / parameter counts), printed as text and parsed;
 (b) the same circuits after `expand_macros`, `fill_in_let` (with overrides), `fill_in_map`,
     `expand_subcircuits`, `normalize_blocks_with_unitary_timing`;
 (c) every program paired with single-token mutants of its text (gate name, argument, qubit index, loop /
     subcircuit count, block kind, subcircuit keyword, alias source / bound, register size, let value, reference
     to another let / register / qubit, usepulses module) and with meaning-preserving respellings (`2` → `2.0`);
 (d) objects built directly through the constructors (registers aliasing parameters, several fundamental
     registers, constants renaming constants, `None` bounds, loops vs blocks …) for `val_eq` / `stmt_eq` / `gen`.

corr   : text byte for byte (or the class of the exception), `==` in BOTH argument orders.
oracle : C20 on the real code alone —
   eq_reflexive, eq_symmetric, eq_never_raises, reparse_equal (c == parse(generate(c)) both orders, and the
   generated text is a fixpoint), equal_implies_same_meaning_and_decls, meaning_changing_mutant_is_unequal.
"Implementation meaning" = gate tree with resolved qubits and numeric values after
`expand_macros(fill_in_let(c))`, same-kind non-subcircuit blocks spliced.
"""
import argparse
import json
import random
import subprocess
import sys
from collections import Counter

DEFAULT_DRIVER = "/verif/lean/.lake/build/bin/jaqal-model"


def _imports():
    global JaqalError, parse_jaqal_string, generate_jaqal_program, expand_macros, expand_subcircuits
    global normalize_blocks_with_unitary_timing, fill_in_let, fill_in_map, GATES, SIG, dump
    global Constant, Parameter, ParamType, Register, NamedQubit, GateStatement, BlockStatement, LoopStatement
    global GateDefinition, Circuit, Macro
    from jaqalpaq.error import JaqalError
    from jaqalpaq.parser import parse_jaqal_string
    from jaqalpaq.generator import generate_jaqal_program
    from jaqalpaq.core.algorithm import expand_macros, expand_subcircuits, normalize_blocks_with_unitary_timing, fill_in_let
    from jaqalpaq.core.algorithm.fill_in_map import fill_in_map
    from jaqalpaq.core import Constant, Parameter, ParamType, Register, NamedQubit, GateStatement, BlockStatement, LoopStatement
    from jaqalpaq.core import GateDefinition, Circuit, Macro
    from harness.gates import GATES, SIG
    from harness import dump


# ------------------------------------------------------------------------------------------------ tokens

class Tok:
    __slots__ = ("text", "role", "info")

    def __init__(self, text, role="kw", info=None):
        self.text, self.role, self.info = text, role, info


def text_of(toks):
    return "".join(t.text for t in toks)


NOGS_SIG = {"g0": "q", "g1": "qq", "g2": "qn", "g3": "nq", "g4": "", "g5": "qqn", "g6": "R", "g7": "n", "h0": "q", "h1": "qq", "h2": "qn", "h7": "n"}
GS_SIG = None  # filled from harness.gates.SIG ('i' -> integer-valued argument)


def fmt_float(rng):
    k = rng.randrange(8)
    if k == 0:
        return rng.choice(["0.0", "-0.0", "1.0", "2.0", "-1.0", "3.0"])
    if k == 1:
        return "%d.%d" % (rng.randrange(100), rng.randrange(1000))
    if k == 2:
        return "-%d.%de%d" % (rng.randrange(10), rng.randrange(100), rng.randrange(-30, 30))
    if k == 3:
        return "%d.%de-%d" % (rng.randrange(1, 10), rng.randrange(10), rng.randrange(4, 12))
    if k == 4:
        return "%d.0e%d" % (rng.randrange(1, 10), rng.randrange(15, 25))
    if k == 5:
        return "0.%s" % "".join(rng.choice("0123456789") for _ in range(rng.randrange(1, 15))) + rng.choice("123456789")
    if k == 6:
        return "%d.5" % rng.randrange(-20, 20)
    return repr(rng.uniform(-10, 10))


class ProgGen:
    """Builds one program as a token list; keeps enough bookkeeping to stay within ranges."""

    def __init__(self, rng, gateset, two_regs=False):
        self.rng = rng
        self.gs = gateset
        self.two_regs = two_regs
        self.toks = []
        self.lets = {}       # name -> python value
        self.regs = {}       # register-like name -> size (number of qubits)
        self.qubits = []     # named single qubits
        self.macros = {}     # name -> signature string over q,n,i,R
        self.sig = dict(GS_SIG) if gateset else dict(NOGS_SIG)
        self.pair = 0

    # -- emit helpers
    def e(self, text, role="kw", info=None):
        self.toks.append(Tok(text, role, info))

    def sp(self):
        self.e(" ", "ws")

    def nl(self, depth=0):
        self.e("\n" + "\t" * depth if self.rng.random() < 0.7 else "\n" + " " * depth, "ws")

    def small_int_lets(self, lo, hi):
        return [n for n, v in self.lets.items() if isinstance(v, int) and lo <= v < hi]

    # -- header
    def header(self):
        rng = self.rng
        if rng.random() < 0.25:
            for _ in range(rng.choice([1, 1, 2])):
                self.e("from"); self.sp(); self.e(rng.choice(["qscout.v1.std", "mod.pulses", "a.b.c", "x"]), "module"); self.sp()
                self.e("usepulses"); self.sp(); self.e("*"); self.nl()
        for i in range(rng.choice([0, 1, 2, 3, 4])):
            name = "n%d" % i if rng.random() < 0.8 else rng.choice(["alpha", "k", "N"]) + str(i)
            r = rng.random()
            if r < 0.55:
                v = rng.randrange(0, 5); txt = str(v)
            elif r < 0.65:
                v = -rng.randrange(1, 9); txt = str(v)
            elif r < 0.7:
                v = rng.randrange(10**18, 10**22); txt = str(v)
            else:
                txt = fmt_float(rng); v = float(txt)
            self.lets[name] = v
            self.e("let"); self.sp(); self.e(name, "def_let"); self.sp(); self.e(txt, "letval"); self.nl()
        # the fundamental register
        size = rng.randrange(2, 7)
        sized_by = [n for n in self.small_int_lets(2, 7)]
        self.e("register"); self.sp(); self.e("r", "def_reg"); self.e("[")
        if sized_by and rng.random() < 0.4:
            n = rng.choice(sized_by); size = self.lets[n]; self.e(n, "ref_let", "size")
        else:
            self.e(str(size), "size")
        self.e("]"); self.nl()
        self.regs["r"] = size
        if self.two_regs:   # only the circuit builder accepts a second fundamental register
            size2 = rng.randrange(1, 6)
            self.e("register"); self.sp(); self.e("s", "def_reg2"); self.e("["); self.e(str(size2), "size"); self.e("]"); self.nl()
            self.regs["s"] = size2
        for i in range(rng.choice([0, 0, 1, 2, 3, 4])):
            src = rng.choice(list(self.regs))
            ssz = self.regs[src]
            name = "abcdefgh"[i] + rng.choice(["", "q", "_1"])
            form = rng.random()
            self.e("map"); self.sp(); self.e(name, "def_map"); self.sp(); self.e(src, "ref_reg", "mapsrc")
            if form < 0.2:
                self.regs[name] = ssz
            elif form < 0.5:
                self.e("["); self.index(ssz); self.e("]")
                self.qubits.append(name)
            else:
                step = rng.choice([1, 1, 1, 2, 2, 3, -1]) if ssz > 1 else 1
                if step > 0:
                    start = rng.randrange(0, ssz); stop = rng.randrange(start + 1, ssz + 1)
                else:
                    start = rng.randrange(0, ssz); stop = rng.randrange(0, start + 1)
                    if start == stop:
                        step, start, stop = 1, 0, ssz
                n = len(range(start, stop, step))
                if n == 0:
                    step, start, stop = 1, 0, ssz; n = ssz
                self.e("[")
                omit_start = start == 0 and rng.random() < 0.4
                omit_stop = stop == ssz and rng.random() < 0.4
                if not omit_start:
                    self.bound(start)
                self.e(":")
                if not omit_stop:
                    self.bound(stop)
                if step != 1 or rng.random() < 0.3:
                    self.e(":"); self.bound(step)
                self.e("]")
                self.regs[name] = n
            self.nl()

    def bound(self, v):
        c = [n for n, x in self.lets.items() if isinstance(x, int) and x == v]
        if c and self.rng.random() < 0.4:
            self.e(self.rng.choice(c), "ref_let", "bound")
        else:
            self.e(str(v), "bound")

    def index(self, size, params=None):
        """an index below `size`"""
        rng = self.rng
        c = self.small_int_lets(0, size)
        p = [n for n, k in (params or {}).items() if k == "i"]
        r = rng.random()
        if p and r < 0.3:
            self.e(rng.choice(p), "ref_param", "idx")
        elif c and r < 0.5:
            self.e(rng.choice(c), "ref_let", "idx")
        else:
            self.e(str(rng.randrange(size)), "idx", size)

    # -- arguments
    def arg(self, kind, params):
        rng = self.rng
        if kind == "q":
            pq = [n for n, k in params.items() if k == "q"]
            pr = [n for n, k in params.items() if k == "R"]
            r = rng.random()
            if pq and r < 0.45:
                self.e(rng.choice(pq), "ref_param", "qubit")
            elif pr and r < 0.6:
                self.e(rng.choice(pr), "ref_param", "reg"); self.e("["); self.e("0", "idx", 1); self.e("]")
            elif self.qubits and r < 0.7:
                self.e(rng.choice(self.qubits), "ref_qubit")
            else:
                name = rng.choice(list(self.regs))
                self.e(name, "ref_reg", "index"); self.e("["); self.index(self.regs[name], params); self.e("]")
        elif kind == "R":
            pr = [n for n, k in params.items() if k == "R"]
            if pr and rng.random() < 0.5:
                self.e(rng.choice(pr), "ref_param", "reg")
            else:
                self.e(rng.choice(list(self.regs)), "ref_reg", "whole")
        elif kind == "i":    # integer-valued number
            p = [n for n, k in params.items() if k == "i"]
            c = [n for n, v in self.lets.items() if isinstance(v, int) or float(v).is_integer()]
            r = rng.random()
            if p and r < 0.35:
                self.e(rng.choice(p), "ref_param", "num")
            elif c and r < 0.55:
                self.e(rng.choice(c), "ref_let", "num")
            elif r < 0.65:
                self.e("%d.0" % rng.randrange(-3, 9), "num_f")
            else:
                self.e(rng.choice(["", "", "", "-", "+"]) + str(rng.randrange(0, 12)), "num_i")
        else:                # any number
            p = [n for n, k in params.items() if k in ("i", "n")]
            r = rng.random()
            if p and r < 0.3:
                self.e(rng.choice(p), "ref_param", "num")
            elif self.lets and r < 0.5:
                self.e(rng.choice(list(self.lets)), "ref_let", "num")
            elif r < 0.75:
                self.e(fmt_float(rng), "num_f")
            else:
                self.e(rng.choice(["", "", "-", "+"]) + str(rng.randrange(0, 40)), "num_i")

    def count(self, params, role):
        rng = self.rng
        p = [n for n, k in params.items() if k == "i"]
        c = self.small_int_lets(0, 6)
        r = rng.random()
        if p and r < 0.35:
            self.e(rng.choice(p), "ref_param", role)
        elif c and r < 0.6:
            self.e(rng.choice(c), "ref_let", role)
        else:
            self.e(str(rng.choice([0, 1, 1, 2, 2, 3, 4, 5, 7, 12])), role)

    def gate(self, params, in_macro_index):
        rng = self.rng
        names = list(self.sig) + [m for m in self.macros]
        name = rng.choice(names)
        sig = self.macros[name] if name in self.macros else self.sig[name]
        if "R" in sig and self.gs:
            sig = sig
        self.e(name, "gname", sig)
        for k in sig:
            self.sp(); self.arg(k, params)

    # -- statements
    def stmts(self, ctx, depth, params, in_sub, level):
        """ctx: 'seq' (inside { } or top level) | 'par' (inside < >)"""
        rng = self.rng
        n = rng.choice([0, 1, 1, 2, 2, 3, 4]) if level > 0 else rng.choice([1, 2, 3, 4, 5, 6])
        first = True
        for _ in range(n):
            if not first:
                if ctx == "par" and rng.random() < 0.5:
                    self.sp(); self.e("|", "sep"); self.nl(depth)
                elif ctx == "seq" and rng.random() < 0.15:
                    self.e(";", "sep"); self.sp()
                else:
                    self.nl(depth)
            first = False
            r = rng.random()
            if level >= 4 or r < 0.5:
                self.gate(params, None)
            elif ctx == "par":
                self.block(False, depth, params, in_sub, level, True)
            elif r < 0.62:
                self.block(True, depth, params, in_sub, level, True)
            elif r < 0.70 and level == 0 and ctx == "seq" and depth == 0:
                self.block(False, depth, params, in_sub, level, False)   # a bare { } is legal at top level only
            elif r < 0.85:
                self.e("loop"); self.sp(); self.count(params, "count"); self.sp()
                self.block(rng.random() < 0.25, depth, params, in_sub, level, False)
            elif not in_sub:
                self.e("subcircuit", "subkw"); self.sp()
                if rng.random() < 0.6:
                    self.count(params, "subcount"); self.sp()
                self.block(False, depth, params, True, level, False, sub=True)
            else:
                self.gate(params, None)

    def block(self, par, depth, params, in_sub, level, may_be_empty, sub=False):
        self.pair += 1
        pid = self.pair
        self.e("<" if par else "{", "open", (pid, par, sub))
        self.nl(depth + 1)
        self.stmts("par" if par else "seq", depth + 1, params, in_sub or par, level + 1)
        self.nl(depth)
        self.e(">" if par else "}", "close", (pid, par, sub))

    def macro(self, i):
        rng = self.rng
        name = "m%d" % i
        np_ = rng.choice([0, 1, 1, 2, 2, 3])
        kinds = [rng.choice("qqqiinR" if not self.gs else "qqqiin") for _ in range(np_)]
        params = {}
        self.e("macro"); self.sp(); self.e(name, "def_macro")
        for j, k in enumerate(kinds):
            pn = rng.choice(["a", "b", "c", "x", "y"]) + str(j)
            params[pn] = k
            self.sp(); self.e(pn, "def_param")
        self.sp()
        self.block(rng.random() < 0.2, 0, params, False, 1, True)
        self.nl()
        self.macros[name] = "".join(kinds)

    def program(self):
        self.header()
        for i in range(self.rng.choice([0, 0, 1, 1, 2, 3])):
            self.macro(i)
        self.stmts("seq", 0, {}, False, 0)
        self.nl()
        return self.toks


# ------------------------------------------------------------------------------------------------ mutants

def mutants(toks, rng, per_prog, sig_tables):
    """Single-token changes. Returns [(kind, text)]."""
    out = []
    idxs = [i for i, t in enumerate(toks) if t.role not in ("ws", "kw", "sep", "def_reg", "def_map", "def_let", "def_param", "close")]
    rng.shuffle(idxs)
    idxs = [i for i in idxs if toks[i].role == "def_reg2"] + [i for i in idxs if toks[i].role != "def_reg2"]
    lets = [t.text for t in toks if t.role == "def_let"]
    regs = [t.text for t in toks if t.role in ("def_reg", "def_map")]
    macs = [t.text for t in toks if t.role == "def_macro"]

    def with_text(i, new, extra=None):
        parts = [t.text for t in toks]
        parts[i] = new
        if extra:
            for j, s in extra.items():
                parts[j] = s
        return "".join(parts)

    for i in idxs:
        if len(out) >= per_prog:
            break
        t = toks[i]
        r = t.role
        try:
            if r == "gname":
                cands = [n for tab in sig_tables for n, s in tab.items() if s == t.info and n != t.text] + [m for m in macs if m != t.text]
                if cands:
                    out.append(("gate_name", with_text(i, rng.choice(cands))))
            elif r == "idx":
                v = int(t.text); c = [x for x in range(max(t.info, 2)) if x != v]
                out.append(("qubit_index", with_text(i, str(rng.choice(c)))))
            elif r == "num_i":
                v = int(t.text)
                out.append(("int_argument", with_text(i, str(v + rng.choice([-1, 1, 2, 10])))))
                if rng.random() < 0.5:
                    out.append(("respell_int_as_float", with_text(i, "%d.0" % v)))
            elif r == "num_f":
                v = float(t.text)
                new = fmt_float(rng)
                out.append(("float_argument", with_text(i, new)))
                if v.is_integer() and abs(v) < 1e15 and rng.random() < 0.5:
                    out.append(("respell_float_as_int", with_text(i, str(int(v)))))
            elif r == "count":
                v = int(t.text)
                out.append(("loop_count", with_text(i, str(rng.choice([x for x in (0, 1, 2, 3, 5, 9) if x != v])))))
            elif r == "subcount":
                v = int(t.text)
                out.append(("subcircuit_count", with_text(i, str(rng.choice([x for x in (0, 1, 2, 3, 5, 9) if x != v])))))
            elif r == "bound":
                v = int(t.text)
                out.append(("alias_bound", with_text(i, str(v + rng.choice([-1, 1, 1, 2])))))
            elif r == "size":
                v = int(t.text)
                out.append(("register_size", with_text(i, str(v + rng.choice([1, 1, 2, -1])))))
            elif r == "letval":
                if "." in t.text or "e" in t.text:
                    out.append(("let_value", with_text(i, fmt_float(rng))))
                    v = float(t.text)
                    if v.is_integer() and abs(v) < 1e15:
                        out.append(("respell_let_float_as_int", with_text(i, str(int(v)))))
                else:
                    v = int(t.text)
                    out.append(("let_value", with_text(i, str(v + rng.choice([1, -1, 2])))))
                    if rng.random() < 0.4:
                        out.append(("respell_let_int_as_float", with_text(i, "%d.0" % v)))
            elif r == "ref_let":
                c = [n for n in lets if n != t.text]
                if c:
                    out.append(("let_reference", with_text(i, rng.choice(c))))
                out.append(("let_reference_to_literal", with_text(i, str(rng.randrange(0, 4)))))
            elif r == "ref_reg":
                c = [n for n in regs if n != t.text]
                if c:
                    out.append(("alias_source" if t.info == "mapsrc" else "register_reference", with_text(i, rng.choice(c))))
            elif r == "ref_qubit":
                c = [n for n in regs if n != t.text]
                if c:
                    out.append(("qubit_reference", with_text(i, rng.choice(c) + "[0]")))
            elif r == "ref_param":
                if t.info in ("idx", "num", "count", "subcount"):
                    out.append(("param_to_literal", with_text(i, str(rng.randrange(0, 3)))))
                    if lets:
                        out.append(("param_to_let", with_text(i, rng.choice(lets))))
                elif t.info == "qubit":
                    out.append(("param_to_qubit", with_text(i, "r[0]")))
            elif r == "open":
                pid, par, sub = t.info
                j = next(k for k, u in enumerate(toks) if u.role == "close" and u.info[0] == pid)
                if not sub:
                    out.append(("block_kind", with_text(i, "{" if par else "<", {j: "}" if par else ">"})))
            elif r == "subkw":
                # drop the keyword (and a following count)
                j = i + 2
                extra = {i + 1: ""}
                if toks[j].role in ("subcount", "ref_let", "ref_param"):
                    extra[j] = ""; extra[j + 1] = ""
                out.append(("subcircuit_flag", with_text(i, "", extra)))
                if toks[j].role == "open":
                    out.append(("subcircuit_count_added", with_text(i, "subcircuit " + str(rng.choice([0, 2, 3])))))
            elif r == "def_reg2":
                # the second fundamental register becomes an alias of the first one UNDER THE SAME NAME
                out.append(("fundamental_to_whole_alias", with_text(i, "s r", {i - 2: "map", i + 1: "", i + 2: "", i + 3: ""})))
                k = int(toks[i + 2].text)
                out.append(("fundamental_to_slice_alias", with_text(i, "s r", {i - 2: "map", i + 2: "0:" + toks[i + 2].text})))
            elif r == "module":
                out.append(("usepulses_module", with_text(i, t.text + "x")))
            elif r == "def_macro":
                out.append(("macro_name", with_text(i, t.text + "z")))
        except (ValueError, StopIteration, IndexError):
            continue
    # structural single-token edits: turn a loop's `{` body into a subcircuit etc. are covered by subkw/open;
    # delete one whole gate statement's last argument is an arity error for consistent gate sets, so not produced.
    return out


# ------------------------------------------------------------------------------------------------ real side

def parse(text, gs, builder=False):
    if builder:   # what parse_jaqal_string does, minus its "too many registers" check
        from jaqalpaq.parser.parser import parse_to_sexpression
        from jaqalpaq.core.circuitbuilder import build
        return build(parse_to_sexpression(text), inject_pulses=GATES if gs else None, autoload_pulses=False)
    return parse_jaqal_string(text, inject_pulses=GATES if gs else None, autoload_pulses=False)


def py_eq(a, b):
    try:
        return bool(a == b)
    except Exception as e:  # noqa
        return {"err": type(e).__name__}


def py_gen(c):
    try:
        return {"ok": generate_jaqal_program(c)}
    except Exception as e:  # noqa
        return {"err": type(e).__name__}


def num_val(x):
    while isinstance(x, Constant):
        x = x.value
    return x


def arg_meaning(v):
    if isinstance(v, NamedQubit):
        reg, idx = v.resolve_qubit()
        return ("q", reg.name, int(idx))
    if isinstance(v, Register):
        if int(num_val(v.size)) > 4096:   # a mutant may size a register by a huge let: do not enumerate its qubits
            return ("r-huge", v.name, int(num_val(v.size)), v.resolve_qubit(0)[0].name, int(v.resolve_qubit(0)[1]))
        return ("r", tuple((v[i].resolve_qubit()[0].name, int(v[i].resolve_qubit()[1])) for i in range(int(num_val(v.size)))))
    v = num_val(v)
    if isinstance(v, (int, float)):
        return ("n", v)
    return ("?", repr(v))


def stmt_meaning(s):
    if isinstance(s, GateStatement):
        return ("g", s.name, tuple(arg_meaning(v) for v in s.parameters.values()))
    if isinstance(s, LoopStatement):
        return ("l", num_val(s.iterations), stmt_meaning(s.statements))
    if isinstance(s, BlockStatement):
        return ("b", s.parallel, s.subcircuit, num_val(s.iterations), items_meaning(s.parallel, s.statements))
    raise TypeError(s)


def items_meaning(par, stmts):
    out = []
    for s in stmts:
        if isinstance(s, BlockStatement) and not s.subcircuit and s.parallel == par:
            out.extend(items_meaning(par, s.statements))
        else:
            out.append(stmt_meaning(s))
    return tuple(out)


def meaning(c):
    """implementation meaning; None when the library cannot compute it"""
    try:
        c2 = expand_macros(fill_in_let(c))
        return ("b", False, False, 1, items_meaning(False, c2.body.statements))
    except Exception as e:  # noqa
        return ("error", type(e).__name__)


def decls(c):
    try:
        c2 = fill_in_let(c)
        regs = {}
        for k, r in c2.registers.items():
            regs[k] = arg_meaning(r) if isinstance(r, NamedQubit) else (("F", num_val(r.size)) if r.fundamental else arg_meaning(r))
        return ({k: num_val(v) for k, v in c.constants.items()}, regs)
    except Exception as e:  # noqa
        return ("error", type(e).__name__)


def dumpc(c):
    """dump a circuit; None when the by-value model cannot represent it (dict key differs from the name)"""
    d = dump.circuit(c)
    k = d.pop("keys")
    names = lambda l, f: [f(x) for x in l]  # noqa
    ok = (k["constants"] == [x["c"] for x in d["constants"]]
          and k["registers"] == [x.get("r", x.get("q")) for x in d["registers"]]
          and k["macros"] == [x["m"] for x in d["macros"]]
          and k["natives"] == [x["name"] for x in d["natives"]])
    return d if ok else None


PASSES = ["expand_macros", "fill_in_let", "fill_in_let_override", "fill_in_map", "expand_subcircuits", "unit_timing", "let_map_macro"]


def apply_pass(name, c, rng):
    if name == "expand_macros":
        return expand_macros(c, preserve_definitions=rng.random() < 0.5)
    if name == "fill_in_let":
        return fill_in_let(c)
    if name == "fill_in_let_override":
        ov = {}
        for k, v in c.constants.items():
            if rng.random() < 0.5:
                ov[k] = v.value if rng.random() < 0.3 else (v.value + 1 if isinstance(v.value, int) else v.value * 2)
        return fill_in_let(c, override_dict=ov)
    if name == "fill_in_map":
        return fill_in_map(fill_in_let(c))
    if name == "expand_subcircuits":
        return expand_subcircuits(c)
    if name == "unit_timing":
        return normalize_blocks_with_unitary_timing(c)
    if name == "let_map_macro":
        return expand_macros(fill_in_map(fill_in_let(c)))
    raise KeyError(name)


# ------------------------------------------------------------------------------------------------ API objects (d)

def rand_spec(rng, depth=0):
    """a random value SPEC (nested tuples); `build_val` turns it into core objects through the constructors"""
    names = ["r", "q", "n"]
    k = rng.randrange(12 if depth < 3 else 5)
    if k == 0:
        return ("int", rng.choice([0, 1, 2, 3, -1, 10**20]))
    if k == 1:
        return ("flt", rng.choice([0.0, -0.0, 1.0, 2.0, 1.5, -3.25, 1e-7, 3.0]))
    if k == 2:
        return ("none",)
    if k == 3:
        return ("param", rng.choice(names), rng.choice(["INT", "FLOAT", "QUBIT", "REGISTER", None]))
    if k == 4:
        return ("const", rng.choice(names), rng.choice([("int", 1), ("int", 2), ("flt", 2.0), ("flt", 1.5), ("int", 3)]))
    if k == 5:
        return ("const", rng.choice(names), rand_spec(rng, depth + 1))
    if k in (6, 7):
        return ("regF", rng.choice(names), rng.choice([("int", 1), ("int", 2), ("int", 3), ("flt", 2.0), ("const", "n", ("int", 2)),
                                                      ("const", "n", ("int", 3)), ("const", "k", ("int", 2))]))
    if k == 8:
        return ("regA", rng.choice(names), rand_spec(rng, depth + 1))
    if k in (9, 10):
        b = lambda: rng.choice([("none",), ("int", 0), ("int", 1), ("int", 2), ("int", 3), ("int", -1), ("const", "n", ("int", 2)),  # noqa
                                ("const", "k", ("int", 1)), ("param", "p", "INT"), ("param", "p", None)])
        return ("regS", rng.choice(names), rand_spec(rng, depth + 1), b(), b(), b())
    return ("qubit", rng.choice(names + ["r[0]", "r[1]"]), rand_spec(rng, depth + 1),
            rng.choice([("int", 0), ("int", 1), ("int", 2), ("flt", 1.0), ("const", "n", ("int", 1)), ("param", "i", "INT"), ("param", "i", None)]))


def mutate_spec(rng, sp):
    """change one place of a spec: a name, a leaf, a sub-spec, or the node kind keeping the name"""
    r = rng.random()
    if r < 0.15 or sp[0] in ("int", "flt", "none"):
        return rand_spec(rng, 1)
    subs = [i for i, x in enumerate(sp) if isinstance(x, tuple)]
    if subs and r < 0.6:
        i = rng.choice(subs)
        return sp[:i] + (mutate_spec(rng, sp[i]),) + sp[i + 1:]
    if r < 0.75:
        return (sp[0], rng.choice(["r", "q", "n"])) + sp[2:]
    # same name, another kind of object
    n = sp[1]
    return rng.choice([("regF", n, ("int", 2)), ("regA", n, ("regF", "q", ("int", 2))), ("param", n, "INT"), ("param", n, "FLOAT"), ("param", n, None),
                       ("const", n, ("int", 2)), ("const", n, ("flt", 2.0)), ("regS", n, ("regF", "q", ("int", 4)), ("int", 0), ("int", 2), ("int", 1)),
                       ("qubit", n, ("regF", "q", ("int", 2)), ("int", 0)), ("regA", n, ("param", "q", "REGISTER")),
                       ("regS", n, ("regF", "q", ("const", "n", ("int", 4))), ("int", 0), ("none",), ("none",)),
                       ("regS", n, ("regF", "q", ("const", "n", ("int", 4))), ("int", 0), ("int", 3), ("int", 0))])


def build_val(sp):
    """None-returning on constructor refusal is signalled by raising"""
    k = sp[0]
    if k in ("int", "flt"):
        return sp[1]
    if k == "none":
        return None
    if k == "param":
        return Parameter(sp[1], ParamType[sp[2]] if sp[2] else ParamType.NONE)
    if k == "const":
        return Constant(sp[1], build_val(sp[2]))
    if k == "regF":
        return Register(sp[1], build_val(sp[2]))
    if k == "regA":
        src = build_val(sp[2])
        if isinstance(src, Constant):
            raise JaqalError("would hang")  # `other.size` would spin forever (modelled as Err.hang, not executed here)
        return Register(sp[1], alias_from=src)
    if k == "regS":
        src = build_val(sp[2])
        if isinstance(src, Constant):
            raise JaqalError("would hang")
        return Register(sp[1], alias_from=src, alias_slice=slice(build_val(sp[3]), build_val(sp[4]), build_val(sp[5])))
    return NamedQubit(sp[1], build_val(sp[2]), build_val(sp[3]))


class _NoVal:
    pass


def try_build(sp):
    try:
        return build_val(sp)
    except (JaqalError, TypeError, AttributeError, ValueError, OverflowError):
        return _NoVal


def rand_val(rng, depth=0):
    v = try_build(rand_spec(rng, depth))
    return None if v is _NoVal else v


def rand_val_pair(rng):
    """two values: independent, structural twins, or differing in one place"""
    for _ in range(20):
        sa = rand_spec(rng)
        r = rng.random()
        sb = sa if r < 0.25 else (mutate_spec(rng, sa) if r < 0.75 else rand_spec(rng))
        a, b = try_build(sa), try_build(sb)
        if a is not _NoVal and b is not _NoVal:
            return a, b
    return 1, 1.0


def has_const_alias(v):
    """does evaluating `.size` somewhere below hit the endless loop (alias of a Constant)?"""
    if isinstance(v, Register):
        if isinstance(v.alias_from, Constant):
            return True
        return has_const_alias(v.alias_from) or any(has_const_alias(x) for x in ([v.alias_slice.start, v.alias_slice.stop, v.alias_slice.step] if v.alias_slice else []))
    if isinstance(v, NamedQubit):
        return has_const_alias(v.alias_from)
    return False


def rand_stmt(rng, depth=0):
    gd = GateDefinition(rng.choice(["g", "h"]), [Parameter("a", ParamType.NONE), Parameter("b", ParamType.NONE)])
    k = rng.randrange(3 if depth < 3 else 1)
    if k == 0:
        vals = [v for v in (rand_val(rng, 1) for _ in range(rng.randrange(0, 3))) if not has_const_alias(v)]
        return GateStatement(gd, {"p%d" % i: v for i, v in enumerate(vals)})
    body = [rand_stmt(rng, depth + 1) for _ in range(rng.randrange(0, 3))]
    sub = rng.random() < 0.4
    it = rng.choice([1, 1, 2, 1.0, Constant("n", 2), Parameter("p", ParamType.NONE)]) if sub else rng.choice([1, 1, 1.0])
    par = rng.random() < 0.4
    try:
        blk = BlockStatement(parallel=par, subcircuit=sub, iterations=it, statements=body)
    except JaqalError:   # the constructor refuses this count
        blk = BlockStatement(parallel=par, subcircuit=sub, iterations=2 if sub else 1, statements=body)
    if k == 1:
        return blk
    cnt = rng.choice([1, 2, 1.0, Constant("n", 2), Parameter("p", ParamType.NONE)])
    try:
        return LoopStatement(cnt, blk)
    except JaqalError:
        return LoopStatement(2, blk)


def rand_api_circuit(rng):
    """a circuit assembled by hand: several fundamental registers, odd values in odd places"""
    c = Circuit()
    for _ in range(rng.randrange(0, 3)):
        v = rand_val(rng, 3)
        if isinstance(v, Constant):
            c.constants[v.name] = v
    for _ in range(rng.randrange(0, 4)):
        v = rand_val(rng, 1)
        if isinstance(v, (Register, NamedQubit)) and not has_const_alias(v):
            c.registers[v.name] = v
    for s in [rand_stmt(rng) for _ in range(rng.randrange(0, 4))]:
        c.body.statements.append(s)
    if rng.random() < 0.3:
        ps = [Parameter("a", ParamType.NONE)][: rng.randrange(0, 2)]
        c.macros["m"] = Macro("m", ps, BlockStatement(parallel=rng.random() < 0.3, statements=[rand_stmt(rng, 2)]))
    return c


# ------------------------------------------------------------------------------------------------ driver

def call_driver(driver, reqs):
    if not reqs:
        return []
    data = "".join(json.dumps(r) + "\n" for r in reqs)
    proc = subprocess.run([driver], input=data, capture_output=True, text=True, check=True)
    lines = proc.stdout.splitlines()
    if len(lines) != len(reqs):
        raise RuntimeError(f"driver answered {len(lines)} lines for {len(reqs)} requests")
    out = []
    for line in lines:
        ans = json.loads(line)
        out.append(ans["out"] if "out" in ans else {"driver_error": ans.get("err", line)})
    return out


def norm_err(x):
    """model `hang` never compared (not executed on the real side); JaqalError etc. by class name"""
    return x


# ------------------------------------------------------------------------------------------------ run

ORACLES = ["eq_reflexive", "eq_symmetric", "eq_never_raises", "reparse_equal", "generated_text_fixpoint",
           "equal_implies_same_meaning_and_decls", "meaning_changing_mutant_is_unequal", "generate_never_raises_on_parsed",
           "eq_symmetric_two_registers", "eq_never_raises_two_registers", "eq_symmetric_api_objects", "eq_never_raises_api_objects",
           "formerly_asymmetric_pairs_now_false_both_ways"]


def make_program(seed, idx):
    rng = random.Random(f"{seed}:prog:{idx}")
    gs = rng.random() < 0.5
    builder = rng.random() < 0.25      # a second fundamental register; goes through the circuit builder
    toks = ProgGen(rng, gs, two_regs=builder).program()
    return toks, gs, rng, builder


def _trunc(l, k=20):
    return l[:k]


class Acc:
    driver = None    # set by run(): requests are sent to the driver in batches, to bound memory

    def flush(self):
        if not self.reqs:
            return
        answers = call_driver(self.driver, self.reqs)
        for (op, case, impl), model in zip(self.expect, answers):
            self.corr[op]["cases"] += 1
            if model != impl and len(self.corr[op]["disagreements"]) < 20:
                self.corr[op]["disagreements"].append({"case": case, "model": model, "impl": impl})
            elif model != impl:
                self.corr[op].setdefault("more_disagreements", 0)
                self.corr[op]["more_disagreements"] += 1
            if op != "gen":
                self.dist[f"{op}:{'raises' if isinstance(impl, dict) else impl}"] += 1
            if len(self.samples) < 5 and case.get("kind") in ("mutant", "pass") and not any(
                    x.get("kind") == case.get("kind") and x.get("mutation") == case.get("mutation") for x in self.samples):
                self.samples.append(dict(case))
        self.reqs, self.expect = [], []

    def __init__(self):
        self.samples = []
        self.corr = {op: {"cases": 0, "disagreements": []} for op in ("gen", "pyeq", "val_eq", "stmt_eq")}
        self.oracle = {k: {"cases": 0, "failures": []} for k in ORACLES}
        self.dist = Counter()
        self.nontrivial = set()
        self.reqs = []       # driver requests
        self.expect = []     # (op, case, impl)

    def ask(self, op, req, case, impl):
        self.reqs.append(dict(req, op=op))
        self.expect.append((op, case, impl))
        if self.driver is not None and len(self.reqs) >= 1500:
            self.flush()

    def check(self, name, ok, case, detail):
        self.oracle[name]["cases"] += 1
        if not ok:
            self.oracle[name]["failures"].append({"case": case, "detail": detail})


def eq_pair(acc, a, b, da, db, case, expect_kind):
    """corr + oracles for one ordered pair of parsed circuits (both orders)"""
    ab, ba = py_eq(a, b), py_eq(b, a)
    if da is not None and db is not None:
        acc.ask("pyeq", {"a": da, "b": db}, dict(case, order="a==b"), ab)
        acc.ask("pyeq", {"a": db, "b": da}, dict(case, order="b==a"), ba)
    sfx = "_two_registers" if case.get("builder") else ""
    acc.check("eq_never_raises" + sfx, isinstance(ab, bool) and isinstance(ba, bool), case, f"a==b: {ab}, b==a: {ba}")
    acc.check("eq_symmetric" + sfx, ab == ba, case, f"a==b is {ab} but b==a is {ba}")
    return ab, ba


def process_program(acc, seed, idx, thorough, per_prog):
    toks, gs, rng, builder = make_program(seed, idx)
    text = text_of(toks)
    case0 = {"kind": "program", "seed": seed, "idx": idx, "gateset": gs, "text": text, "builder": builder}
    try:
        c = parse(text, gs, builder)
        c_again = parse(text, gs, builder)
    except Exception as e:  # noqa
        acc.dist["generated_program_rejected:" + type(e).__name__] += 1
        return
    acc.dist["programs"] += 1
    if builder:
        acc.dist["programs_two_fundamental_registers(builder)"] += 1
    acc.dist["programs_gateset" if gs else "programs_no_gateset"] += 1
    for role in ("def_let", "def_map", "def_macro", "subkw", "module"):
        if any(t.role == role for t in toks):
            acc.dist["programs_with_" + role] += 1
    acc.nontrivial.add(text)
    d = dumpc(c)
    # generator: model vs real, reparse oracle
    g = py_gen(c)
    acc.check("generate_never_raises_on_parsed", "ok" in g, case0, str(g))
    if d is not None:
        acc.ask("gen", {"circuit": d}, case0, g)
    if "ok" in g:
        try:
            c2 = parse(g["ok"], gs, builder)
            e1, e2 = py_eq(c, c2), py_eq(c2, c)
            acc.check("reparse_equal", e1 is True and e2 is True, case0, f"c==reparse: {e1}, reparse==c: {e2}; text={g['ok']!r}")
            g2 = py_gen(c2)
            acc.check("generated_text_fixpoint", g2 == g, case0, f"{g2} vs {g}")
            d2 = dumpc(c2)
            if d is not None and d2 is not None:
                acc.ask("pyeq", {"a": d, "b": d2}, dict(case0, order="c==reparse"), e1)
                acc.ask("pyeq", {"a": d2, "b": d}, dict(case0, order="reparse==c"), e2)
        except Exception as e:  # noqa
            acc.check("reparse_equal", False, case0, f"generated text rejected: {e!r}; text={g['ok']!r}")
    # reflexivity: the same object, and an independently parsed copy
    r1, r2, r3 = py_eq(c, c), py_eq(c, c_again), py_eq(c_again, c)
    acc.check("eq_reflexive", r1 is True and r2 is True and r3 is True, case0, f"{r1} {r2} {r3}")
    if d is not None:
        acc.ask("pyeq", {"a": d, "b": d}, dict(case0, order="c==c"), r2)
    m0 = meaning(c)
    dc0 = decls(c)
    acc.dist["meaning_error" if m0[0] == "error" else "meaning_ok"] += 1
    # (c) mutants
    for kind, mtext in mutants(toks, rng, per_prog, [GS_SIG] if gs else [NOGS_SIG]):
        case = {"kind": "mutant", "mutation": kind, "gateset": gs, "text": text, "mutant": mtext, "builder": builder}
        if mtext == text:
            continue
        try:
            cm = parse(mtext, gs, builder)
        except Exception as e:  # noqa
            acc.dist["mutant_rejected"] += 1
            continue
        acc.dist["mutant:" + kind] += 1
        acc.nontrivial.add(mtext)
        dm = dumpc(cm)
        ab, ba = eq_pair(acc, c, cm, d, dm, case, kind)
        mm = meaning(cm)
        dcm = decls(cm)
        differs = (m0 != mm)
        if m0[0] == "error" or mm[0] == "error":
            acc.dist["mutant_meaning_unavailable"] += 1
        else:
            acc.dist["mutant_meaning_differs" if differs else "mutant_meaning_same"] += 1
            if differs:
                acc.check("meaning_changing_mutant_is_unequal", ab is False and ba is False, case,
                          f"meanings differ but a==b is {ab}, b==a is {ba}")
            if ab is True or ba is True:
                acc.dist["mutant_equal"] += 1
                acc.check("equal_implies_same_meaning_and_decls", (not differs) and dc0 == dcm, case,
                          f"equal circuits; meaning differs: {differs}; decls {dc0} vs {dcm}")
    # (b) passes
    for pname in PASSES:
        if not thorough and rng.random() < 0.5:
            continue
        prng = random.Random(f"{seed}:{idx}:{pname}")
        case = {"kind": "pass", "pass": pname, "seed": seed, "idx": idx, "gateset": gs, "text": text, "builder": builder}
        try:
            cp = apply_pass(pname, c, prng)
        except Exception as e:  # noqa
            acc.dist[f"pass_raises:{pname}:{type(e).__name__}"] += 1
            continue
        acc.dist["pass:" + pname] += 1
        dp = dumpc(cp)
        if dp is None:
            acc.dist["pass_result_not_representable:" + pname] += 1
            continue
        gp = py_gen(cp)
        acc.ask("gen", {"circuit": dp}, case, gp)
        acc.dist["pass_gen_" + ("ok" if "ok" in gp else gp["err"])] += 1
        ab, ba = eq_pair(acc, c, cp, d, dp, case, pname)
        rr = py_eq(cp, cp)
        acc.check("eq_reflexive", rr is True, case, f"pass result == itself: {rr}")
        acc.ask("pyeq", {"a": dp, "b": dp}, dict(case, order="p==p"), rr if not isinstance(rr, dict) else rr)
        if ab is True or ba is True:
            acc.dist["pass_result_equal_to_input"] += 1
            mp = meaning(cp)
            if m0[0] != "error" and mp[0] != "error" and pname != "fill_in_let_override":
                acc.check("equal_implies_same_meaning_and_decls", m0 == mp, case, "pass result equal to its input but meaning differs")


def api_oracles(acc, a, b, case):
    """C20 symmetry / no-raise on objects built directly through the constructors"""
    ab, ba = py_eq(a, b), py_eq(b, a)
    acc.check("eq_never_raises_api_objects", isinstance(ab, bool) and isinstance(ba, bool), case, f"a==b: {ab}, b==a: {ba}")
    acc.check("eq_symmetric_api_objects", ab == ba, case, f"a==b is {ab} but b==a is {ba}")


def process_api(acc, seed, idx):
    rng = random.Random(f"{seed}:api:{idx}")
    # values
    for _ in range(10):
        a, b = rand_val_pair(rng)
        if has_const_alias(a) or has_const_alias(b):
            continue
        try:
            da, db = dump.val(a), dump.val(b)
        except Exception:  # noqa
            continue
        case = {"kind": "val", "seed": seed, "idx": idx, "a": da, "b": db}
        if a is b:
            continue  # identity is outside a by-value model; a structurally equal copy is what is compared
        acc.ask("val_eq", {"a": da, "b": db}, dict(case, order="a==b"), py_eq(a, b))
        acc.ask("val_eq", {"a": db, "b": da}, dict(case, order="b==a"), py_eq(b, a))
        api_oracles(acc, a, b, case)
        acc.nontrivial.add(json.dumps([da, db], sort_keys=True))
        acc.dist["api_val_pairs"] += 1
    for _ in range(3):
        sd = rng.random()
        a = rand_stmt(random.Random(f"{sd}"))
        b = rand_stmt(random.Random(f"{sd}")) if rng.random() < 0.35 else rand_stmt(rng)   # structural twin or independent
        da, db = dump.stmt(a), dump.stmt(b)
        case = {"kind": "stmt", "seed": seed, "idx": idx, "a": da, "b": db}
        acc.ask("stmt_eq", {"a": da, "b": db}, dict(case, order="a==b"), py_eq(a, b))
        acc.ask("stmt_eq", {"a": db, "b": da}, dict(case, order="b==a"), py_eq(b, a))
        api_oracles(acc, a, b, case)
        acc.dist["api_stmt_pairs"] += 1
    c1, c2 = rand_api_circuit(rng), rand_api_circuit(rng)
    for c in (c1, c2):
        dc = dumpc(c)
        if dc is None:
            continue
        case = {"kind": "api_circuit", "seed": seed, "idx": idx, "circuit": dc}
        g = py_gen(c)
        acc.ask("gen", {"circuit": dc}, case, g)
        acc.dist["api_gen_" + ("ok" if "ok" in g else g["err"])] += 1
    d1, d2 = dumpc(c1), dumpc(c2)
    if d1 is not None and d2 is not None:
        case = {"kind": "api_circuit_pair", "seed": seed, "idx": idx, "a": d1, "b": d2}
        acc.ask("pyeq", {"a": d1, "b": d2}, dict(case, order="a==b"), py_eq(c1, c2))
        acc.ask("pyeq", {"a": d2, "b": d1}, dict(case, order="b==a"), py_eq(c2, c1))
        api_oracles(acc, c1, c2, case)
        acc.dist["api_circuit_pairs"] += 1


def known_pairs(acc):
    """hand-written pairs on which `==` used to be asymmetric / unsound / raising before the repairs 042b591, dd507cc
    (a fundamental register against an alias of the same name): now False in both orders, no exception"""
    from jaqalpaq.parser.parser import parse_to_sexpression
    from jaqalpaq.core.circuitbuilder import build

    def b(t):
        return build(parse_to_sexpression(t), autoload_pulses=False)

    pairs = [("register r[2]\nregister q[2]\ng r[0]\n", "register q[2]\nmap r q\ng r[0]\n"),
             ("register q[2]\nregister r[1]\ng r[0]\n", "register q[2]\nmap r q[1:2]\ng r[0]\n"),
             ("register r[2]\nmap q r\n", "register q[2]\nmap r q\n"),
             # both accepted by parse_jaqal_string; `a == b` used to RAISE (zero step inside `other.size`), `b == a` was False
             ("let z 0\nregister r[4]\nmap q r\nmacro m { g r }\n", "let z 0\nregister q[4]\nmap r q[0:2:z]\nmacro m { g r }\n")]
    for ta, tb in pairs:
        a, c = b(ta), b(tb)
        da, dc = dumpc(a), dumpc(c)
        case = {"kind": "builder_pair", "a_text": ta, "b_text": tb}
        acc.ask("pyeq", {"a": da, "b": dc}, dict(case, order="a==b"), py_eq(a, c))
        acc.ask("pyeq", {"a": dc, "b": da}, dict(case, order="b==a"), py_eq(c, a))
        acc.dist["builder_multi_register_pairs"] += 1
        acc.check("formerly_asymmetric_pairs_now_false_both_ways", py_eq(a, c) is False and py_eq(c, a) is False, case,
                  f"a==b: {py_eq(a, c)}, b==a: {py_eq(c, a)}")
    from jaqalpaq.core import Constant, Parameter, ParamType
    p, k = Parameter("n", ParamType.INT), Constant("n", 1)
    case = {"kind": "builder_pair", "a_text": "Parameter('n', INT)", "b_text": "Constant('n', 1)"}
    acc.ask("val_eq", {"a": dump.val(p), "b": dump.val(k)}, dict(case, order="a==b"), py_eq(p, k))
    acc.ask("val_eq", {"a": dump.val(k), "b": dump.val(p)}, dict(case, order="b==a"), py_eq(k, p))
    acc.check("formerly_asymmetric_pairs_now_false_both_ways", py_eq(p, k) is False and py_eq(k, p) is False, case,
              f"a==b: {py_eq(p, k)}, b==a: {py_eq(k, p)}")


def run(seed: int, n: int, driver: str = DEFAULT_DRIVER, thorough: bool = False) -> dict:
    global GS_SIG
    _imports()
    GS_SIG = {k: ("nq" if k == "PF" else v) for k, v in SIG.items()}
    acc = Acc()
    acc.driver = driver
    nprog = max(1, n // 12)
    per_prog = 14 if thorough else 8
    for idx in range(nprog):
        process_program(acc, seed, idx, thorough, per_prog)
    for idx in range(max(1, n // 10)):
        process_api(acc, seed, idx)
    known_pairs(acc)
    acc.flush()
    samples = acc.samples
    for op in acc.corr:
        acc.corr[op]["disagreements"] = _trunc(acc.corr[op]["disagreements"])
    for k in acc.oracle:
        acc.oracle[k]["failures"] = _trunc(acc.oracle[k]["failures"])
    return {"corr": acc.corr, "oracle": acc.oracle, "distribution": dict(sorted(acc.dist.items())),
            "samples": samples, "nontrivial": len(acc.nontrivial)}


def replay(case: dict, driver: str = DEFAULT_DRIVER) -> dict:
    """Re-run ONE case of a disagreement / failure entry."""
    global GS_SIG
    _imports()
    GS_SIG = {k: ("nq" if k == "PF" else v) for k, v in SIG.items()}
    kind = case.get("kind")
    if kind in ("val", "stmt", "api_circuit", "api_circuit_pair", "builder_pair"):
        # by-value dumps: the model side can be replayed; the real objects are regenerated from the seed
        acc = Acc()
        if kind == "builder_pair":
            known_pairs(acc)
        else:
            process_api(acc, case["seed"], case["idx"])
        ans = call_driver(driver, acc.reqs)
        bad = [(e, m) for e, m in zip(acc.expect, ans) if m != e[2]]
        return {"model": [m for _, m in bad], "impl": [e[2] for e, _ in bad], "oracle_ok": None,
                "detail": f"{len(bad)} disagreements in the regenerated batch"}
    gs = case["gateset"]
    text = case["text"]
    bld = bool(case.get("builder"))
    a = parse(text, gs, bld)
    if kind == "mutant":
        b = parse(case["mutant"], gs, bld)
    elif kind == "pass":
        b = apply_pass(case["pass"], a, random.Random(f"{case['seed']}:{case['idx']}:{case['pass']}"))
    else:
        b = parse(generate_jaqal_program(a), gs, bld)
    da, db = dumpc(a), dumpc(b)
    ab, ba = py_eq(a, b), py_eq(b, a)
    model = call_driver(driver, [{"op": "pyeq", "a": da, "b": db}, {"op": "pyeq", "a": db, "b": da},
                                 {"op": "gen", "circuit": da}, {"op": "gen", "circuit": db}])
    impl = [ab, ba, py_gen(a), py_gen(b)]
    ma, mb = meaning(a), meaning(b)
    details = []
    ok = True
    if ab != ba:
        ok = False; details.append(f"asymmetric: a==b {ab}, b==a {ba}")
    if ma != mb and (ab is True or ba is True):
        ok = False; details.append("meanings differ but the circuits compare equal")
    if kind == "program" and not (ab is True and ba is True):
        ok = False; details.append("circuit differs from the re-parse of its generated text")
    if model != impl:
        details.append("model and implementation disagree")
    return {"model": model, "impl": impl, "oracle_ok": ok, "detail": "; ".join(details) or "agree"}


def main():
    ap = argparse.ArgumentParser()
    ap.add_argument("--driver", default=DEFAULT_DRIVER)
    ap.add_argument("--n", type=int, default=6000)
    ap.add_argument("--seed", type=int, default=20)
    ap.add_argument("--thorough", action="store_true")
    ap.add_argument("--json", action="store_true")
    args = ap.parse_args()
    res = run(args.seed, args.n, args.driver, args.thorough)
    if args.json:
        print(json.dumps(res, indent=1))
    bad = 0
    for op, d in res["corr"].items():
        print(f"corr   {op}: {d['cases']} cases, {len(d['disagreements'])} disagreements (shown <= 20)")
        for x in d["disagreements"][:5]:
            print("  MISMATCH", json.dumps(x)[:3000])
        bad += len(d["disagreements"])
    for name, d in res["oracle"].items():
        print(f"oracle {name}: {d['cases']} cases, {len(d['failures'])} failures")
        for x in d["failures"][:5]:
            print("  FINDING", json.dumps(x)[:3000])
        bad += len(d["failures"])
    print("distribution:")
    for k, v in res["distribution"].items():
        print("  ", k, v)
    print("nontrivial distinct cases:", res["nontrivial"])
    print("RESULT:", "OK" if bad == 0 else f"{bad} PROBLEMS")
    sys.exit(0 if bad == 0 else 1)


if __name__ == "__main__":
    main()
