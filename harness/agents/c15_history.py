#!/venv/bin/python
"""C15 over HISTORIES: result views judged call after call in ONE process, on objects that are shared and re-read.

`res_diff.py` (and the in-line checks of `props/c15.py`) construct result objects directly or run ONE program per case: no job is
executed twice, no backend / job / circuit / result object is reused, no two programs with the same register name and another
size meet in one process, and the views of an earlier result are never read again after a later run.  A regression that keeps
state between calls (a cache keyed by a register NAME or a subcircuit index, a table shared between subcircuits, a partial reset
between executions of one job, a width remembered by the first readout formatted …) is invisible there.  This script states C15
on histories of 2-6 calls

    run      run_jaqal_circuit(circuit[, backend=<a backend object of the history>])            -> ExecutionResult
    job      <backend object>(expand_macros(fill_in_let(expand_subcircuits(circuit))))          -> job   (what run_jaqal_circuit does)
    exec     <job>.execute()            (repeated on the same job: the results share the job's subcircuit objects)
    parse    parse_jaqal_output_list(circuit, outputs)      outputs chosen by the generator: ints, bit strings or mixed

over 2-4 programs per history which mostly REUSE one register name with DIFFERENT sizes (1..12 qubits, some >= 9), have
different numbers of subcircuits (prepare_all/measure_all blocks, `subcircuit` blocks, loops, nested loops, `let` loop counts,
a macro), gates from the injected Gaussian-dyadic gate set (harness/gates.py: all probabilities are exact dyadics).  Circuit
objects are mostly shared between the calls of a history, sometimes parsed afresh; one or two backend objects are shared.
After EVERY step, every view of EVERY result obtained so far in the history is read again and judged with the register size n
of the program THAT result belongs to.

oracles (real code alone; "corr" is empty).  key(k, n) = the n characters "01"[(k >> i) & 1], i = 0..n-1 (qubit 0 leftmost).
    hist_readout_str_int        every readout r of every result and of every subcircuit: 0 <= r.as_int < 2^n, r.as_str == key(r.as_int, n)
                                (exactly n characters, character i = bit i), int(r.as_str[::-1], 2) == r.as_int
    hist_views_integer_order    every subcircuit: n measured qubits; relative_frequency_by_int (and simulated_probability_by_int when
                                present) has 2^n entries; the keys of every *_by_str view are [key(k, n) for k in range(2^n)] in that
                                order (each outcome once, integer order) and its values are the entries of the *_by_int view;
                                the deprecated probability_by_int/_by_str are the simulated_* views when the subcircuit has them,
                                the relative_frequency_* views otherwise
    hist_freq_are_counts        every subcircuit sc: relative_frequency_by_int[k] == number of readouts r in sc.readouts with
                                r.as_int == k (result.py keeps RAW COUNTS: accept_readout adds 1, nothing divides), hence their sum is
                                len(sc.readouts); every r in sc.readouts has r.subcircuit is sc; every readout of a result belongs to
                                one of the result's subcircuits and is among that subcircuit's recorded readouts
    hist_outputs_str_int_same   parse results: [r.as_int] == the outputs given (bit strings decoded with qubit 0 leftmost), [r.as_str]
                                == their keys, whether an output was given as int or str; per subcircuit (flat order) the frequency
                                table is exactly the histogram of the outputs that fall to it in execution order
    hist_prob_normalised        every subcircuit with simulated probabilities (its constructor did not raise): all >= 0 and
                                |sum - 1| <= 1e-12 (float; the gate set makes them exact dyadics)
    hist_call_returns           every call of the history (valid program, in-range outputs) returns, or raises JaqalError / the documented
                                RuntimeError "Error in probabilities"; any other exception or a hang fails WITH the history as input

A case is one whole history, cut after the step at which the failure shows (replay needs nothing else):
    {"kind": "history", "npseed": int, "backends": B,
     "programs": [{"text", "reg", "n", "nsub", "order": [flat index of the subcircuit of each readout, execution order]}],
     "steps": [{"op": "run", "prog", "backend": b | null, "fresh": bool} | {"op": "job", "prog", "backend", "fresh"} |
               {"op": "exec", "job": j} | {"op": "parse", "prog", "fresh", "outputs": [int | str]}]}

`n` scales the work: max(6, n // 2) histories.  Recommended n: 400 quick, 4000 thorough.

CLI:    PYTHONPATH=/verif /venv/bin/python /verif/harness/agents/c15_history.py [--seed S] [--n N] [--thorough]
Module: harness.agents.c15_history.run(seed, n, driver, thorough) -> dict ; replay(case, driver) -> dict
"""
import os, sys, json, math, random, signal, argparse, warnings

os.environ.setdefault("JAQALPAQ_RUN_EMULATOR", "1")
_ROOT = __import__("os").path.dirname(__import__("os").path.dirname(__import__("os").path.dirname(__import__("os").path.abspath(__file__))))
if _ROOT not in sys.path:
    sys.path.insert(0, _ROOT)

DEFAULT_DRIVER = "/verif/lean/.lake/build/bin/jaqal-model"

ORACLES = [
    "hist_readout_str_int",
    "hist_views_integer_order",
    "hist_freq_are_counts",
    "hist_outputs_str_int_same",
    "hist_prob_normalised",
    "hist_call_returns",
]

_LIB = {}


def lib():
    """Lazy imports (no work at import time)."""
    if _LIB:
        return _LIB
    warnings.filterwarnings("ignore")
    import numpy
    from harness.gates import GATES
    from harness import timeouts
    from jaqalpaq.parser import parse_jaqal_string
    from jaqalpaq.core.algorithm import expand_macros, fill_in_let, expand_subcircuits
    from jaqalpaq.core.result import parse_jaqal_output_list
    from jaqalpaq.emulator import run_jaqal_circuit, UnitarySerializedEmulator
    from jaqalpaq.error import JaqalError

    _LIB.update(locals())
    return _LIB


class Hang(Exception):
    pass


def _alarm(*a):
    raise Hang()


# ------------------------------------------------------------------------------------------------ ground truth

_KEYS = {}


def key(k, n):
    return "".join("1" if (k >> i) & 1 else "0" for i in range(n))


def keys(n):
    if n not in _KEYS:
        _KEYS[n] = [key(k, n) for k in range(2 ** n)]
    return _KEYS[n]


# ------------------------------------------------------------------------------------------------ program generator

REG_POOL = ["q", "r", "reg", "data"]
ONE = ["X", "Y", "Z", "S", "SX"]
TWO = ["CX", "CZ", "SWAP", "ISWAP", "HH", "NS"]
THREE = ["CCX", "ROT3"]


def _gate_line(rng, reg, n, use_macro):
    kinds = ["one", "one", "p"]
    if n >= 2:
        kinds += ["two", "two"]
    if n >= 3:
        kinds += ["three"]
    kd = rng.choice(kinds)
    if kd == "one":
        return f"{rng.choice(ONE)} {reg}[{rng.randrange(n)}]"
    if kd == "p":
        return f"P {reg}[{rng.randrange(n)}] {rng.randrange(0, 8)}"
    if kd == "two":
        a, b = rng.sample(range(n), 2)
        if use_macro and rng.random() < 0.4:
            return f"mk {reg}[{a}] {reg}[{b}]"
        return f"{rng.choice(TWO)} {reg}[{a}] {reg}[{b}]"
    a, b, c = rng.sample(range(n), 3)
    return f"{rng.choice(THREE)} {reg}[{a}] {reg}[{b}] {reg}[{c}]"


def gen_program(rng, reg, n, max_static):
    """-> {"text", "reg", "n", "nsub", "order"}; `order` = flat index of the subcircuit of each readout, in execution order."""
    big = n >= 9
    use_macro = n >= 2 and rng.random() < 0.3
    use_let = rng.random() < 0.3
    let_val = rng.randint(1, 3)
    gmax = 2 if big else 4
    state = {"static": 0, "let_used": False}
    want = rng.randint(1, max_static)

    def gates(indent):
        return [indent + _gate_line(rng, reg, n, use_macro) for _ in range(rng.randint(0, gmax))]

    def sub(indent):
        idx = state["static"]
        state["static"] += 1
        if rng.random() < 0.3:
            cnt = rng.choice(["", "", " 1", " 3", " 10"])
            lines = [f"{indent}subcircuit{cnt} {{"] + (gates(indent + "  ") or [])
            lines.append(indent + "}")
            if len(lines) == 2:  # an empty block is not accepted by the grammar everywhere: always put one gate
                lines.insert(1, f"{indent}  X {reg}[{rng.randrange(n)}]")
        else:
            lines = [indent + "prepare_all"] + gates(indent) + [indent + "measure_all"]
        return lines, [idx]

    def item(indent, depth):
        if depth < 2 and state["static"] < want and rng.random() < 0.4:
            k = rng.randint(1, 3)
            cnt = str(k)
            if use_let and not state["let_used"] and rng.random() < 0.6:
                k, cnt = let_val, "cnt"
                state["let_used"] = True
            lines, body = [f"{indent}loop {cnt} {{"], []
            for _ in range(rng.randint(1, 2)):
                l, o = item(indent + "  ", depth + 1)
                lines += l
                body += o
            lines.append(indent + "}")
            return lines, body * k
        return sub(indent)

    lines, order = [], []
    while state["static"] < want:
        l, o = item("", 0)
        lines += l
        order += o
    head = []
    if use_let:
        head.append(f"let cnt {let_val}")
    head.append(f"register {reg}[{n}]")
    if use_macro:
        head.append(f"macro mk a b {{ {rng.choice(TWO)} a b }}")
    return {"text": "\n".join(head + lines) + "\n", "reg": reg, "n": n, "nsub": state["static"], "order": order}


def _pick_outcome(rng, n):
    m = rng.randrange(6)
    if m == 0:
        return 1 if n > 0 else 0  # only qubit 0 up
    if m == 1:
        return 1 << (n - 1)  # only the last qubit up
    if m == 2:
        return (1 << rng.randrange(n)) | (1 if rng.random() < 0.3 else 0)
    return rng.randrange(2 ** n)


def gen_history(rng, thorough):
    nprog = rng.randint(2, 4)
    main = rng.choice(REG_POOL)
    want_big = rng.random() < (0.55 if thorough else 0.4)
    sizes = []
    for i in range(nprog):
        if want_big and i == nprog - 1 and not any(s >= 9 for s in sizes):
            s = rng.randint(9, 12 if thorough else 11)
        else:
            s = rng.choice([1, 2, 2, 3, 3, 4, 5, 6, 7, 8, 8, rng.randint(9, 12 if thorough else 10)])
        sizes.append(s)
    rng.shuffle(sizes)
    programs = []
    for s in sizes:
        reg = main if rng.random() < 0.8 else rng.choice(REG_POOL)
        programs.append(gen_program(rng, reg, s, 2 if s >= 9 else 4))
    nback = rng.randint(1, 2)
    steps, jobs = [], []  # jobs: [prog, executions]
    length = rng.randint(2, 6)
    theme = rng.randrange(3)  # 0: one job executed again and again; others: free mixture
    while len(steps) < length:
        w = {"run": 2, "job": 2, "parse": 3, "exec": 0}
        if jobs:
            w["exec"] = 8 if (theme == 0 or any(e < 2 for _, e in jobs)) else 3
        if theme == 0 and not jobs:
            w = {"job": 1}
        if len(steps) == length - 1 and "exec" in w and jobs:
            w["job"] = 0  # a job created by the last step is never observed
        op = rng.choices(list(w), weights=list(w.values()))[0]
        p = rng.randrange(nprog)
        fresh = rng.random() < 0.25
        if op == "run":
            steps.append({"op": "run", "prog": p, "backend": rng.choice([None] + list(range(nback))), "fresh": fresh})
        elif op == "job":
            steps.append({"op": "job", "prog": p, "backend": rng.randrange(nback), "fresh": fresh})
            jobs.append([p, 0])
        elif op == "exec":
            cand = [j for j, (_, e) in enumerate(jobs) if e < 2] or list(range(len(jobs)))
            j = rng.choice(cand) if rng.random() < 0.7 else rng.randrange(len(jobs))
            jobs[j][1] += 1
            steps.append({"op": "exec", "job": j})
        else:
            pr = programs[p]
            ints = [_pick_outcome(rng, pr["n"]) for _ in pr["order"]]
            mode = rng.randrange(3)
            outs = [v if (mode == 0 or (mode == 2 and rng.random() < 0.5)) else key(v, pr["n"]) for v in ints]
            steps.append({"op": "parse", "prog": p, "fresh": fresh, "outputs": outs})
    return {"kind": "history", "npseed": rng.randrange(2 ** 31), "backends": nback, "programs": programs, "steps": steps}


# ------------------------------------------------------------------------------------------------ the property on one result


def _arr_eq(np, a, b):
    try:
        a = np.asarray(a)
        b = np.asarray(b)
        return a.shape == b.shape and bool((a == b).all())
    except Exception:
        return False


def check_result(rec):
    """All C15 relations on one result as it is NOW.  -> {oracle: None | detail of the first violation}"""
    L = lib()
    np = L["numpy"]
    n = rec["n"]
    dim = 2 ** n
    K = keys(n)
    R = rec["obj"]
    tag = rec["tag"]
    out = {o: None for o in ORACLES[:5]}

    def fail(o, msg):
        if out[o] is None:
            out[o] = f"{tag}: {msg}"

    def check_readout(r, where):
        v = r.as_int
        s = r.as_str
        if not (isinstance(v, (int, np.integer)) and 0 <= v < dim):
            fail("hist_readout_str_int", f"{where}: as_int = {v!r} outside 0..2^{n}-1")
            return None
        v = int(v)
        if s != K[v]:
            fail("hist_readout_str_int", f"{where}: as_int = {v} has as_str = {s!r}, expected {K[v]!r} ({n} characters, qubit 0 leftmost)")
        elif int(s[::-1], 2) != v:
            fail("hist_readout_str_int", f"{where}: as_str {s!r} does not read back as {v}")
        return v

    subs = list(R.subcircuits)
    sub_ids = {id(sc): sc for sc in subs}
    seen = set()
    for i, r in enumerate(R.readouts):
        seen.add(id(r))
        check_readout(r, f"result readout #{i}")

    for si, sc in enumerate(subs):
        w = f"subcircuit {si}"
        mq = len(sc.measured_qubits)
        if mq != n:
            fail("hist_views_integer_order", f"{w}: {mq} measured qubits, the program has {n}")
        rf = sc.relative_frequency_by_int
        views = [("relative_frequency", rf, sc.relative_frequency_by_str)]
        sim = None
        if hasattr(sc, "simulated_probability_by_int"):
            sim = sc.simulated_probability_by_int
            views.append(("simulated_probability", sim, sc.simulated_probability_by_str))
        for name, by_int, by_str in views:
            if len(by_int) != dim:
                fail("hist_views_integer_order", f"{w}: {name}_by_int has {len(by_int)} entries, expected 2^{n} = {dim}")
            ks = list(by_str.keys())
            if ks != K:
                bad = next((j for j, (a, b) in enumerate(zip(ks, K)) if a != b), min(len(ks), len(K)))
                fail(
                    "hist_views_integer_order",
                    f"{w}: {name}_by_str has {len(ks)} keys (expected {dim}); first wrong key at outcome {bad}: "
                    f"{ks[bad] if bad < len(ks) else None!r} != {K[bad] if bad < len(K) else None!r}",
                )
            if not _arr_eq(np, list(by_str.values()), by_int):
                fail("hist_views_integer_order", f"{w}: the values of {name}_by_str are not the entries of {name}_by_int")
        # deprecated aliases
        want_int, want_name = (sim, "simulated_probability") if sim is not None else (rf, "relative_frequency")
        if not _arr_eq(np, sc.probability_by_int, want_int):
            fail("hist_views_integer_order", f"{w}: probability_by_int differs from {want_name}_by_int")
        pbs = sc.probability_by_str
        if list(pbs.keys()) != K or not _arr_eq(np, list(pbs.values()), want_int):
            fail("hist_views_integer_order", f"{w}: probability_by_str differs from {want_name}_by_str")
        # frequencies = raw counts of the recorded readouts
        counts = [0] * dim
        ok_vals = True
        recorded = list(sc.readouts)
        for j, r in enumerate(recorded):
            if id(r) not in seen:
                v = check_readout(r, f"{w} readout #{j}")
            else:
                v = r.as_int
                v = int(v) if 0 <= v < dim else None
            if v is None:
                ok_vals = False
            else:
                counts[v] += 1
            if getattr(r, "subcircuit", None) is not sc:
                fail("hist_freq_are_counts", f"{w}: its recorded readout #{j} names another subcircuit")
        if ok_vals and len(rf) == dim:
            if not _arr_eq(np, rf, counts):
                k = next(j for j in range(dim) if rf[j] != counts[j])
                fail(
                    "hist_freq_are_counts",
                    f"{w}: relative_frequency_by_int[{k}] = {rf[k]} but {counts[k]} of its {len(recorded)} recorded readouts have as_int == {k} "
                    f"(sum of frequencies {float(np.sum(rf))})",
                )
            elif float(np.sum(rf)) != len(recorded):
                fail("hist_freq_are_counts", f"{w}: frequencies sum to {float(np.sum(rf))}, {len(recorded)} readouts recorded")
        if sim is not None and len(sim) == dim:
            p = [float(x) for x in sim]
            if min(p) < 0 or not abs(math.fsum(p) - 1.0) <= 1e-12:
                fail("hist_prob_normalised", f"{w}: simulated probabilities min {min(p)!r} sum {math.fsum(p)!r}")

    for i, r in enumerate(R.readouts):
        sc = getattr(r, "subcircuit", None)
        if id(sc) not in sub_ids:
            fail("hist_freq_are_counts", f"result readout #{i} belongs to a subcircuit that is not one of the result's subcircuits")
        elif not any(x is r for x in sc.readouts):
            fail("hist_freq_are_counts", f"result readout #{i} (as_int {r.as_int}) is not among the recorded readouts of its subcircuit {sc.index}")

    exp = rec.get("expect")
    if exp is not None:
        o = "hist_outputs_str_int_same"
        got = [r.as_int for r in R.readouts]
        if got != exp:
            fail(o, f"readout as_int {got[:12]} != outputs given {exp[:12]} (given as {rec['given'][:12]})")
        else:
            gs = [r.as_str for r in R.readouts]
            es = [K[v] for v in exp]
            if gs != es:
                j = next(j for j, (a, b) in enumerate(zip(gs, es)) if a != b)
                fail(o, f"output #{j} given as {rec['given'][j]!r}: as_str {gs[j]!r}, expected {es[j]!r}")
        if len(subs) != rec["nsub"]:
            fail(o, f"{len(subs)} subcircuits, the program has {rec['nsub']}")
        else:
            for si, sc in enumerate(subs):
                hist = [0] * dim
                for v, s in zip(exp, rec["order"]):
                    if s == si:
                        hist[v] += 1
                if not _arr_eq(np, sc.relative_frequency_by_int, hist):
                    fail(o, f"subcircuit {si}: frequency table {[float(x) for x in sc.relative_frequency_by_int][:16]} is not the histogram of its outputs {hist[:16]}")
    return out


# ------------------------------------------------------------------------------------------------ running one history


def run_history(case):
    """-> {"evals": {oracle: number of evaluations}, "fails": {oracle: (step, detail)}, "feat": {...}}  (first failure per oracle)"""
    L = lib()
    np, T = L["numpy"], L["timeouts"]
    progs = case["programs"]
    evals = {o: 0 for o in ORACLES}
    fails = {}
    feat = {}

    def bump(k, d=1):
        feat[k] = feat.get(k, 0) + d

    def call(f, *a, **k):
        signal.alarm(int(T.limit()))
        try:
            return f(*a, **k)
        finally:
            signal.alarm(0)

    def parse(p):
        return L["parse_jaqal_string"](progs[p]["text"], inject_pulses=L["GATES"], autoload_pulses=False)

    circuits = {}
    backends = []
    jobs = []  # (prog, job object | None)
    results = []
    old = signal.signal(signal.SIGALRM, _alarm)
    st = np.random.get_state()
    np.random.seed(case.get("npseed", 0))
    try:
        for idx, s in enumerate(case["steps"]):
            op = s["op"]
            tag0 = f"step {idx} {op}"
            evals["hist_call_returns"] += 1
            try:
                if not backends:
                    backends = [call(L["UnitarySerializedEmulator"]) for _ in range(case.get("backends", 1))]
                if op != "exec":
                    p = s["prog"]
                    if s.get("fresh") or p not in circuits:
                        c = call(parse, p)
                        circuits.setdefault(p, c)
                    else:
                        c = circuits[p]
                        bump("circuit_object_reused")
                rec = None
                if op == "run":
                    b = s.get("backend")
                    R = call(L["run_jaqal_circuit"], c) if b is None else call(L["run_jaqal_circuit"], c, backend=backends[b])
                    rec = {"obj": R, "prog": p, "tag": f"result of step {idx} (run, {progs[p]['reg']}[{progs[p]['n']}])"}
                elif op == "job":
                    e = call(lambda: L["expand_macros"](L["fill_in_let"](L["expand_subcircuits"](c))))
                    jobs.append([p, None])
                    jobs[-1][1] = call(backends[s["backend"]], e)
                elif op == "exec":
                    p, job = jobs[s["job"]]
                    if job is None:
                        bump("exec_skipped_job_rejected")
                        continue
                    R = call(job.execute)
                    rec = {"obj": R, "prog": p, "tag": f"result of step {idx} (execute of job {s['job']}, {progs[p]['reg']}[{progs[p]['n']}])", "job": s["job"]}
                elif op == "parse":
                    outs = s["outputs"]
                    R = call(L["parse_jaqal_output_list"], c, list(outs))
                    exp = [int(o[::-1], 2) if isinstance(o, str) else int(o) for o in outs]
                    rec = {"obj": R, "prog": p, "tag": f"result of step {idx} (parse, {progs[p]['reg']}[{progs[p]['n']}])", "expect": exp, "given": list(outs), "order": progs[p]["order"], "nsub": progs[p]["nsub"]}
                else:
                    raise ValueError(op)
                if rec is not None:
                    rec["n"] = progs[p]["n"]
                    rec["step"] = idx
                    results.append(rec)
            except Hang:
                T.saw_hang()
                fails.setdefault("hist_call_returns", (idx, f"{tag0}: no result within the time limit"))
                break
            except L["JaqalError"] as e:
                bump("rejected:JaqalError")
                feat.setdefault("_rejections", []).append(f"{tag0}: {e}"[:200])
            except RuntimeError as e:
                if str(e).startswith("Error in probabilities"):
                    bump("rejected:RuntimeError_probabilities")
                else:
                    fails.setdefault("hist_call_returns", (idx, f"{tag0}: RuntimeError: {e}"[:400]))
                    break
            except Exception as e:
                fails.setdefault("hist_call_returns", (idx, f"{tag0}: {type(e).__name__}: {e}"[:400]))
                break
            # ---- every view of every result obtained so far, as it is now
            for rec in results:
                later = f" re-read after step {idx}" if rec["step"] < idx else ""
                signal.alarm(int(T.limit()))
                try:
                    got = check_result(rec)
                except Hang:
                    T.saw_hang()
                    got = {"hist_call_returns": "reading the views: no result within the time limit"}
                except Exception as e:
                    got = {"hist_call_returns": f"{rec['tag']}: reading the views raised {type(e).__name__}: {e}"[:400]}
                finally:
                    signal.alarm(0)
                for o, d in got.items():
                    if o != "hist_call_returns":
                        if o == "hist_outputs_str_int_same" and "expect" not in rec:
                            continue
                        if o == "hist_prob_normalised" and "expect" in rec:
                            continue
                        evals[o] += 1
                    if d is not None:
                        fails.setdefault(o, (idx, d + later))
                if later:
                    bump("result_reread_after_later_step")
            if fails:
                break  # the objects are inconsistent from here on: one report per history, cut at this step
    finally:
        signal.alarm(0)
        signal.signal(signal.SIGALRM, old)
        np.random.set_state(st)
    return {"evals": evals, "fails": fails, "feat": feat}


def _features(case, dist):
    def bump(k, d=1):
        dist[k] = dist.get(k, 0) + d

    progs, steps = case["programs"], case["steps"]
    bump("history_len=%d" % len(steps))
    bump("programs_per_history=%d" % len(progs))
    by_name = {}
    for p in progs:
        by_name.setdefault(p["reg"], set()).add(p["n"])
        bump("register_size=%s" % (p["n"] if p["n"] < 9 else ">=9:%d" % p["n"]))
        bump("subcircuits_per_program=%d" % p["nsub"])
        bump("readouts_per_run=%s" % (len(p["order"]) if len(p["order"]) < 6 else ">=6"))
        for kw in ("subcircuit", "loop", "let cnt", "macro mk"):
            if kw in p["text"]:
                bump("program_has:" + kw.split()[0])
    if any(len(v) > 1 for v in by_name.values()):
        bump("history:same_register_name_different_sizes")
    if len(by_name) > 1:
        bump("history:several_register_names")
    execs = {}
    used = [s["prog"] for s in steps if "prog" in s]
    for s in steps:
        bump("op:" + s["op"])
        if s["op"] == "exec":
            execs[s["job"]] = execs.get(s["job"], 0) + 1
        if s["op"] == "parse":
            kinds = {type(o).__name__ for o in s["outputs"]}
            bump("parse_outputs:" + ("mixed" if len(kinds) > 1 else kinds.pop() if kinds else "none"))
        if s["op"] == "run":
            bump("run_backend:" + ("default" if s["backend"] is None else "shared_object"))
        if s.get("fresh"):
            bump("circuit_parsed_afresh")
    for j, k in execs.items():
        bump("job_executed_times=%s" % (k if k < 4 else ">=4"))
    if any(k >= 2 for k in execs.values()):
        bump("history:job_executed_more_than_once")
    jb = [s["backend"] for s in steps if s["op"] in ("job", "run") and s.get("backend") is not None]
    if len(jb) > len(set(jb)):
        bump("history:backend_object_used_more_than_once")
    sizes_used = {progs[p]["n"] for p in used}
    if len(sizes_used) > 1:
        bump("history:calls_on_different_sizes")
    if any(progs[p]["n"] >= 9 for p in used):
        bump("history:uses_size>=9")


def _cut(case, step):
    c = dict(case)
    c["steps"] = case["steps"][: step + 1]
    return c


def _merge(hists):
    """Several histories run one after another in one process, as ONE history (same format)."""
    programs, steps, poff, joff = [], [], 0, 0
    for h in hists:
        for s in h["steps"]:
            s = dict(s)
            if "prog" in s:
                s["prog"] += poff
            if "job" in s:
                s["job"] += joff
            steps.append(s)
        poff += len(h["programs"])
        joff += sum(1 for s in h["steps"] if s["op"] == "job")
        programs += h["programs"]
    return {"kind": "history", "npseed": hists[-1]["npseed"], "backends": max(h["backends"] for h in hists), "programs": programs, "steps": steps}


def _fresh_process_fails(case):
    """Does the case still fail in a NEW interpreter (same import path)?  True / False / None (could not tell)."""
    import subprocess

    code = "import sys, json\nfrom harness.agents import c15_history as m\nprint('C15H', json.dumps(m.replay(json.loads(sys.stdin.read()))['oracle_ok']))"
    env = dict(os.environ)
    env["PYTHONPATH"] = os.pathsep.join(p for p in sys.path if p)
    env["JAQALPAQ_RUN_EMULATOR"] = "1"
    try:
        r = subprocess.run([sys.executable, "-W", "ignore", "-c", code], input=json.dumps(case), text=True, capture_output=True, env=env, timeout=300)
    except Exception:
        return None
    for line in r.stdout.splitlines():
        if line.startswith("C15H "):
            return line.split(None, 1)[1].strip() == "false"
    return None


# ------------------------------------------------------------------------------------------------ protocol

CONFIRM_BUDGET = 8  # fresh-interpreter runs per run() used to make reported cases self-contained


def run(seed: int, n: int, driver: str = DEFAULT_DRIVER, thorough: bool = False) -> dict:
    rng = random.Random(f"c15_history:{seed}:{int(bool(thorough))}")
    nhist = max(6, n // 2)
    orc = {o: {"cases": 0, "failures": []} for o in ORACLES}
    dist = {}
    samples = []
    distinct = set()
    ran = []  # what was actually executed in this process, history by history
    failing = []  # (history number, {oracle: (step, detail)})
    for h in range(nhist):
        case = gen_history(rng, thorough)
        distinct.add(json.dumps(case, sort_keys=True))
        _features(case, dist)
        try:
            r = run_history(case)
        except Exception as e:  # never let the script itself crash: report the history
            r = {"evals": {}, "fails": {"hist_call_returns": (len(case["steps"]) - 1, f"harness could not finish the history: {type(e).__name__}: {e}"[:400])}, "feat": {}}
        for o, k in r["evals"].items():
            orc[o]["cases"] += k
        for k, v in r["feat"].items():
            if not k.startswith("_"):
                dist[k] = dist.get(k, 0) + v
        if r["fails"]:
            step = min(s for s, _ in r["fails"].values())
            ran.append(_cut(case, step))
            failing.append((h, r["fails"]))
        else:
            ran.append(case)
        if h < 3:
            samples.append(case)
    # A failure can be due to calls of EARLIER histories of this process (state kept in a module / class).  The reported case
    # must fail on its own: confirm the first few in a fresh interpreter, prepending the preceding histories when needed.
    budget = CONFIRM_BUDGET
    first, rest = {o: [] for o in ORACLES}, {o: [] for o in ORACLES}
    for h, fails in failing:
        case, status = ran[h], "not re-run in a fresh process"
        need = [o for o in fails if len(first[o]) < 2]
        if need and budget > 0:
            for back in (0, 1, 3):
                if back > h or budget <= 0:
                    break
                cand = ran[h] if back == 0 else _merge(ran[h - back : h + 1])
                budget -= 1
                ok = _fresh_process_fails(cand)
                if ok:
                    case = cand
                    status = "reproduced in a fresh process" + (f" together with the {back} preceding histor{'y' if back == 1 else 'ies'} of this run (prepended to the case: the step number above counts from the start of the last one)" if back else "")
                    break
                status = f"NOT reproduced in a fresh process on its own: depends on calls made earlier in this process (history #{h} of run(seed={seed}, n={n}, thorough={thorough}))"
        for o, (step, detail) in fails.items():
            orc[o]["cases"] = max(orc[o]["cases"], 1)
            entry = {"case": case, "detail": (detail[:600] + f"  [{status}]")}
            (first if status.startswith("reproduced") else rest)[o].append(entry)
    for o in ORACLES:
        orc[o]["failures"] = (first[o] + rest[o])[:20]
    if failing:
        dist["failing_histories"] = len(failing)
    dist["histories"] = nhist
    return {"corr": {}, "oracle": orc, "distribution": dist, "samples": samples, "nontrivial": len(distinct)}


def replay(case: dict, driver: str = DEFAULT_DRIVER) -> dict:
    r = run_history(case)
    if r["fails"]:
        return {"oracle_ok": False, "detail": "; ".join(f"{o}: {d}" for o, (s, d) in r["fails"].items())[:3000]}
    return {"oracle_ok": True, "detail": "all relations hold after every step (%d evaluations)" % sum(r["evals"].values())}


def main():
    import time

    ap = argparse.ArgumentParser()
    ap.add_argument("--driver", default=DEFAULT_DRIVER)
    ap.add_argument("--seed", type=int, default=0)
    ap.add_argument("--n", type=int, default=400)
    ap.add_argument("--thorough", action="store_true")
    a = ap.parse_args()
    t0 = time.time()
    res = run(a.seed, a.n, a.driver, a.thorough)
    bad = 0
    for name, e in res["oracle"].items():
        print("oracle %-30s %7d cases %4d failures" % (name, e["cases"], len(e["failures"])))
        for d in e["failures"][:3]:
            print("   FAIL", d["detail"][:500])
            print("        ", json.dumps(d["case"])[:1500])
        bad += len(e["failures"])
    print("distribution:", json.dumps(res["distribution"], sort_keys=True))
    print("nontrivial distinct histories:", res["nontrivial"], " wall %.1fs" % (time.time() - t0))
    sys.exit(1 if bad else 0)


if __name__ == "__main__":
    main()
