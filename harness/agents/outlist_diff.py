#!/venv/bin/python
"""Hardware output lists: `parse_jaqal_output_list` (properties C08, C15, C09) - differential test + direct oracles.

Real code:  `jaqalpaq.core.result.parse_jaqal_output_list` (`OutputParser`, `ReadoutSubcircuit`, `Readout`).
Lean model: `Jaqal.OutputList.outputModel` through the driver op `output_list` (JaqalModel/Model/OutputListOps.lean).

Run:   PYTHONPATH=/verif /venv/bin/python /verif/harness/agents/outlist_diff.py [--driver PATH] [--n N] [--seed S] [--thorough]
       (`--driver ""` runs the direct oracles only)

corr
  output_list : `parse_jaqal_output_list(parse_jaqal_string(text, inject_pulses=GATES|None, autoload_pulses=False), outputs)`
        against the model: `len(result.subcircuits)`, `(r.index, r.subcircuit.index, r.as_int)` for every readout in order, every
        subcircuit's `relative_frequency_by_int`, or the exception class (+ line / column of a JaqalParseError).
        Programs: the runnable programs of `c16_diff.make_runnable` (prepare/measure sections, subcircuit blocks, loops,
        macros, aliases, lets, the violations the walkers reject), character / token damage of them, and fixed edge texts
        (no register, a 1-qubit register, zero visits, zero-count loops, registers of 40 - 100 qubits with and without a
        section).  Output lists, for `v` = the number of visits of the own unrolling: ints; strings (one character per qubit,
        qubit 0 first); mixed; too short (v-1, 0); too long (v+1 .. v+3, the extras possibly malformed); one entry replaced by an
        odd one: 2**n, -1, -2**n, -2**n-1, 2**63-1, 2**63, 2**64-1, 2**64, -2**63, -2**63-1, 10**30, "", a string with a
        character other than 0/1, a string that is too long (with a set / an unset top character), a string that is too short.
        NOT sent (outside the model, see OutputList.lean): bools, strings with whitespace / `_` / sign / `b` / non-ASCII digits.

oracle (the real code alone; reference = the script's own unrolling of the real EXPANDED circuit: a flat walk pairs every
        measure_all with the last prepare_all before it (subcircuit k = the k-th measure_all), an unrolled walk (loops repeated
        `iterations` times) records k whenever the statement at which subcircuit k starts is executed)
  one_readout_per_visit_in_order : for a list of valid outputs of the right length: as many readouts as visits, their
        subcircuit indices are the unrolled visit sequence, their indices 0,1,2,..., the i-th value is the i-th output (a
        string read by the script's own decoder), `len(result.subcircuits)` = the number of sections, `sc.index` = its position,
        `sc.readouts` = the readouts attributed to `sc`, in order
  too_few_outputs_rejected       : fewer valid outputs than visits -> JaqalError
  extra_outputs_ignored          : valid outputs + extras (valid or malformed) -> the observation of the valid outputs alone
  strings_and_ints_agree         : the int list, its string form and a mixed list give the same observation (incl. `as_str` of
        every readout and `relative_frequency_by_str`); every `as_str` has n characters (n >= 1) and reads back as `as_int`
  frequencies_count_own_readouts : every table has 2**n entries; entry v = the number of the subcircuit's own readouts with
        value v; its total = the number of visits of the subcircuit; `relative_frequency_by_str` has the 2**n distinct keys
        `as_str(v)` with the same values
  subcircuit_spelling_agrees     : the program with every `subcircuit [k] { B }` re-spelled `{ prepare_all ; B ; measure_all }`
        (on the script's program tree, rendered again) gives the same observation for the same outputs, and the same
        exception class for a short list
  bool_outputs_count_as_ints     : a bool in the list is the integer 0 / 1 (a bool IS an int in Python; repaired in /repo by 4cb04fc:
        numpy took it for a mask over the whole table); JUDGED
  accepted_odd_outputs_consistent: (MEASURED, NOT JUDGED: negative ints lie outside the outcomes 0..2^n-1 the properties quantify over;
        the library accepts -2^n <= k < 0 and counts it at 2^n + k) when a list with a negative int is ACCEPTED, the result still satisfies the three properties above (`as_str` of n characters, tables
        count own readouts by value)
"""
import argparse
import copy
import json
import os
import random
import sys
import warnings
from collections import Counter

DEFAULT_DRIVER = "/verif/lean/.lake/build/bin/jaqal-model"
ORACLES = ["one_readout_per_visit_in_order", "too_few_outputs_rejected", "extra_outputs_ignored", "strings_and_ints_agree",
           "frequencies_count_own_readouts", "subcircuit_spelling_agrees", "accepted_odd_outputs_consistent", "bool_outputs_count_as_ints"]
BADCH = "23456789acdefxyzXYZ.,/*#"

_loaded = False


def _root():
    root = os.path.dirname(os.path.dirname(os.path.dirname(os.path.abspath(__file__))))
    return root if os.path.isdir(os.path.join(root, "harness")) else "/verif"


def _imports():
    global _loaded
    if _loaded:
        return
    global C16, C01, JaqalError, parse_jaqal_output_list, expand_macros, expand_subcircuits, fill_in_let
    global LoopStatement, BlockStatement, GateStatement
    os.environ["JAQALPAQ_RUN_EMULATOR"] = "1"
    try:
        import harness  # noqa
    except ImportError:
        sys.path.insert(0, _root())
    from harness.agents import c16_diff as C16
    C16._imports()
    C01 = C16.C01
    from jaqalpaq.error import JaqalError
    from jaqalpaq.core.result import parse_jaqal_output_list
    from jaqalpaq.core.algorithm import expand_macros, expand_subcircuits, fill_in_let
    from jaqalpaq.core import LoopStatement, BlockStatement, GateStatement
    warnings.simplefilter("ignore")
    _loaded = True


# ------------------------------------------------------------------------------------------------ the real code

def enc(o):
    return {"s": o} if isinstance(o, str) else {"b": o} if isinstance(o, bool) else {"i": str(o)}


def dec(j):
    return j["s"] if "s" in j else j["b"] if "b" in j else int(j["i"])


def num(v):
    f = float(v)
    return str(int(f)) if f == int(f) else repr(f)


def observe(res):
    """what the model's summary holds"""
    return {"subcircuits": str(len(res.subcircuits)),
            "readouts": [[str(r.index), str(r.subcircuit.index), str(int(r.as_int))] for r in res.readouts],
            "tables": [[num(v) for v in sc.relative_frequency_by_int] for sc in res.subcircuits]}


def observe_full(res):
    """… plus the derived views"""
    o = observe(res)
    o["as_str"] = [r.as_str for r in res.readouts]
    o["by_str"] = [[[k, num(v)] for k, v in sc.relative_frequency_by_str.items()] for sc in res.subcircuits]
    o["own"] = [[str(r.index) for r in sc.readouts] for sc in res.subcircuits]
    return o


def impl_call(c, outs, full=False):
    """-> (json outcome, result | None)"""
    res, e = C16.watched(lambda: parse_jaqal_output_list(c, outs))
    if e is not None:
        return C16.err_json(e), None
    o, e = C16.watched(lambda: (observe_full if full else observe)(res))
    if e is not None:
        return {"err": "observe:" + type(e).__name__}, None
    return {"ok": o}, res


def _text_noise_installed():
    try:
        from harness import textnoise
        return bool(textnoise.installed)
    except Exception:
        return False


def _no_pos(o):
    return {k: v for k, v in o.items() if k != "pos"} if isinstance(o, dict) and "err" in o else o


def impl_outcome(text, gs, outs):
    c, e = C16.watched(lambda: C16.parse(text, gs))
    if e is not None:
        return C16.err_json(e)
    return impl_call(c, outs)[0]


def model_req(text, gs, outs):
    return {"op": "output_list", "text": text, "natives": C16.NATIVES_JSON if gs else None, "outputs": [enc(o) for o in outs]}


# ------------------------------------------------------------------------------------------------ own reference

def reference(c):
    """own unrolling of the real expanded circuit -> (number of sections, visit sequence, n qubits) | None when the passes
    fail or the program is not bracketed"""
    x = expand_macros(fill_in_let(expand_subcircuits(c)))
    nq = sum(len(range(int(r.size))) for r in x.fundamental_registers())
    starts = []
    state = {"cur": None, "bad": False}

    def flat(s, path):
        if isinstance(s, GateStatement):
            if s.name == "prepare_all":
                state["cur"] = path
            elif s.name == "measure_all":
                if state["cur"] is None:
                    state["bad"] = True
                else:
                    starts.append(state["cur"])
                    state["cur"] = None
            elif state["cur"] is None:
                state["bad"] = True
        elif isinstance(s, LoopStatement):
            flat(s.statements, path)
        elif isinstance(s, BlockStatement):
            for i, t in enumerate(s.statements):
                flat(t, path + (i,))
        else:
            state["bad"] = True
    flat(x.body, ())
    if state["bad"]:
        return None
    index = {p: k for k, p in enumerate(starts)}
    visits = []

    def unrolled(s, path):
        if isinstance(s, GateStatement):
            if path in index:
                visits.append(index[path])
        elif isinstance(s, LoopStatement):
            for _ in range(s.iterations):
                unrolled(s.statements, path)
        else:
            for i, t in enumerate(s.statements):
                unrolled(t, path + (i,))
    unrolled(x.body, ())
    return len(starts), visits, nq


def own_str(k, nq):
    """qubit 0 first, one character per qubit (a register of no qubits is written "0")"""
    return "".join(str((k >> i) & 1) for i in range(nq)) if nq else "0"


def own_value(o):
    if isinstance(o, str):
        return sum(1 << i for i, ch in enumerate(o) if ch == "1")
    return o


def respell(s, in_seq=True):
    """-> [stmt]: the statement with every subcircuit block re-spelled; spliced into a sequential parent (a sequential block may
    not be nested directly in a sequential block), a block of its own under a parallel parent"""
    k = s[0]
    if k == "sub":
        inner = [("gate", "prepare_all", [])] + respell_list(s[2], True) + [("gate", "measure_all", [])]
        return inner if in_seq else [("seq", inner)]
    if k in ("seq", "par"):
        return [(k, respell_list(s[1], k == "seq"))]
    if k == "loop":
        return [("loop", s[1], respell(s[2], False)[0])]
    if k == "macro":
        return [("macro", s[1], s[2], respell(s[3], False)[0])]
    return [s]


def respell_list(stmts, in_seq):
    out = []
    for t in stmts:
        out += respell(t, in_seq)
    return out


def has_sub(s):
    k = s[0]
    if k == "sub":
        return True
    if k in ("seq", "par"):
        return any(has_sub(t) for t in s[1])
    if k == "loop":
        return has_sub(s[2])
    if k == "macro":
        return has_sub(s[3])
    return False


# ------------------------------------------------------------------------------------------------ programs and lists

EDGE_TEXTS = [
    "prepare_all\nmeasure_all\n",
    "loop 3 { prepare_all\nmeasure_all }\n",
    "register r[1]\nprepare_all\nmeasure_all\nprepare_all\nmeasure_all\n",
    "register r[2]\n",
    "register r[2]\nprepare_all\n",
    "register r[2]\nloop 0 { prepare_all\nmeasure_all }\nprepare_all\nmeasure_all\n",
    "register r[2]\nloop 0 { prepare_all\nmeasure_all }\n",
    "register r[3]\nprepare_all\nloop 2 { prepare_all }\nmeasure_all\n",
    "register r[3]\nloop 2 { loop 2 { subcircuit 5 { } } subcircuit { } }\n",
    "register r[2]\nsubcircuit 3 { }\nsubcircuit { }\n",
    "let n 2\nregister r[n]\nloop n { subcircuit { } }\n",
    "register r[2]\nmeasure_all\n",
    "register r[2]\nprepare_all\nloop 2 { measure_all\nprepare_all }\nmeasure_all\n",
    "register r[2]\nregister q[2]\nprepare_all\nmeasure_all\n",
    "register r[40]\nprepare_all\nmeasure_all\n",
    "register r[40]\n",
    "register r[40]\nloop 0 { prepare_all\nmeasure_all }\n",
    "register r[62]\nprepare_all\nmeasure_all\n",
    "register r[63]\nprepare_all\nmeasure_all\n",
    "register r[63]\n",
    "register r[64]\n",
    "register r[100]\nprepare_all\nmeasure_all\n",
    "let n 70\nregister r[n]\nprepare_all\nmeasure_all\n",
    "register r[2]\nprepare_all\nmeasure_all\n}",
]


def odd_entries(nq, rng):
    top = 2 ** nq
    ints = [top, top + rng.randrange(1, 9), -1, -top, -top - 1, -rng.randrange(1, top + 1), 2 ** 63 - 1, 2 ** 63, 2 ** 64 - 1,
            2 ** 64, -2 ** 63, -2 ** 63 - 1, 10 ** 30, -10 ** 30, rng.randrange(2 ** 63, 2 ** 64)]
    w = max(nq, 1)
    body = "".join(rng.choice("01") for _ in range(w))
    strs = ["", rng.choice(BADCH), body[:-1] + rng.choice(BADCH), rng.choice(BADCH) + body, body + "1", body + "0" * rng.randrange(1, 4),
            body + "0" * rng.randrange(0, 3) + "1", body[: rng.randrange(0, w)], "0" * 70 + "1", "1" * 64, "0" * 63 + "1"]
    return ints, strs


def make_lists(ref, rng, thorough):
    """[(kind, outputs)]; ref = (sections, visits, nq) | None"""
    if ref is None:
        v, nq = 2, 2
    else:
        v, nq = len(ref[1]), ref[2]
    if nq > 12:
        # tables of 2**nq entries are never built on either side: only the rejection is compared
        return [("big", [0] * v), ("big", [])]
    top = 2 ** nq
    ints = [rng.randrange(top) for _ in range(v)]
    out = [("ints", ints), ("strs", [own_str(k, nq) for k in ints]),
           ("mixed", [own_str(k, nq) if rng.random() < 0.5 else k for k in ints])]
    if v > 0:
        out.append(("short", out[rng.randrange(3)][1][: v - 1]))
        if v > 1:
            out.append(("short", out[rng.randrange(3)][1][: rng.randrange(v - 1)]))
    oi, os_ = odd_entries(nq, rng)
    extra = [rng.choice([rng.randrange(top), own_str(rng.randrange(top), nq), rng.choice(oi), rng.choice(os_)])
             for _ in range(rng.randrange(1, 4))]
    out.append(("long", out[rng.randrange(3)][1] + extra))
    if v > 0:
        for _ in range(3 if thorough else 2):
            l = list(out[rng.randrange(3)][1])
            l[rng.randrange(v)] = rng.choice(oi) if rng.random() < 0.5 else rng.choice(os_)
            out.append(("odd", l))
        l = list(ints)
        l[rng.randrange(v)] = rng.choice([k for k in ints] + [top - 1, 0])
        out.append(("ints", l))
    return out


def own_items(rng, depth, inside):
    """the script's own walk-shaped programs: sections (explicit or subcircuit blocks) in nested loops with counts 0..3, repeated
    prepare_all, a prepare_all inside a loop inside a section, sequential / parallel blocks around gates"""
    out = []
    for _ in range(rng.choice([1, 1, 2, 2, 3])):
        r = rng.random()
        if inside:
            if r < 0.6 or depth >= 3:
                out.append(["g", rng.choice(["gx", "gy", "gz"]), rng.randrange(64)])
            elif r < 0.75:
                out.append(["loop", rng.choice([0, 1, 2, 2, 3]), own_items(rng, depth + 1, True)])
            elif r < 0.85:
                out.append(["loop", rng.choice([0, 1, 2, 3]), own_items(rng, depth + 1, True) + [["p"]]])
            elif r < 0.93:
                out.append(["par", own_items(rng, 3, True)[:1]])
            else:
                out.append(["p"])
        else:
            if r < 0.55 or depth >= 3:
                body = own_items(rng, depth + 1, True) if rng.random() < 0.8 else []
                out.append(["sec", rng.choice(["sub", "sub", "explicit"]), rng.choice([None, None, 1, 2, 5]), body])
            elif r < 0.9:
                out.append(["loop", rng.choice([0, 1, 2, 2, 3, 3]), own_items(rng, depth + 1, False)])
            else:
                out.append(["blk", own_items(rng, depth + 1, False)])
    return out


def own_render(items, nq, explicit, ind=""):
    lines = []
    for it in items:
        k = it[0]
        if k == "g":
            lines.append(ind + "%s r[%d]" % (it[1], it[2] % nq))
        elif k == "p":
            lines.append(ind + "prepare_all")
        elif k == "loop":
            lines += [ind + "loop %d {" % it[1]] + own_render(it[2], nq, explicit, ind + "  ") + [ind + "}"]
        elif k == "par":
            lines += [ind + "<"] + own_render(it[1], nq, explicit, ind + "  ") + [ind + ">"]
        elif k == "blk":
            # a sequential block may not sit directly in a sequential block: wrap it in a parallel one
            # (and a subcircuit block may not sit in a parallel block: the sections inside are spelled out)
            lines += [ind + "< {"] + own_render(it[1], nq, True, ind + "  ") + [ind + "} >"]
        elif k == "sec":
            body = own_render(it[3], nq, explicit, ind + "  ")
            if it[1] == "explicit" or explicit:
                lines += [ind + "prepare_all"] + body + [ind + "measure_all"]
            else:
                lines += [ind + "subcircuit %s{" % ("" if it[2] is None else "%d " % it[2])] + body + [ind + "}"]
    return lines


def make_own(seed, idx):
    rng = random.Random(f"{seed}:outlist:own:{idx}")
    nq = rng.choice([1, 2, 2, 3, 3, 4, 5])
    items = own_items(rng, 0, False)
    head = ["register r[%d]" % nq]
    text = "\n".join(head + own_render(items, nq, False)) + "\n"
    text2 = "\n".join(head + own_render(items, nq, True)) + "\n"
    return text, (text2 if text2 != text else None), rng


class Acc:
    def __init__(self):
        self.corr = {"output_list": {"cases": 0, "disagreements": []}}
        self.oracle = {k: {"cases": 0, "failures": []} for k in ORACLES}
        self.dist = Counter()
        self.samples = []
        self.reqs = []          # (case, impl outcome)
        self.seen = set()

    def fail(self, name, case, detail):
        self.oracle[name]["failures"].append({"case": case, "detail": detail})

    def count(self, name):
        self.oracle[name]["cases"] += 1


def case_of(text, gs, outs, **kw):
    d = {"text": text, "gs": bool(gs), "outputs": [enc(o) for o in outs]}
    d.update(kw)
    return d


def check_valid(acc, c, text, gs, ref, lists):
    """the direct oracles on one accepted program; `lists` = {"ints": …, "strs": …, "mixed": …, …}"""
    nsec, visits, nq = ref
    ints, strs, mixed = lists["ints"], lists["strs"], lists["mixed"]
    outcomes = {}
    for kind in ("ints", "strs", "mixed"):
        outs = lists[kind]
        case = case_of(text, gs, outs)
        o, res = impl_call(c, outs, full=True)
        outcomes[kind] = o
        acc.count("one_readout_per_visit_in_order")
        acc.count("frequencies_count_own_readouts")
        if res is None:
            acc.fail("one_readout_per_visit_in_order", case, "valid outputs refused: %s" % json.dumps(o))
            continue
        problems = []
        if [r.subcircuit.index for r in res.readouts] != visits:
            problems.append("visit sequence %s, unrolled %s" % ([r.subcircuit.index for r in res.readouts], visits))
        if [r.index for r in res.readouts] != list(range(len(visits))):
            problems.append("readout indices %s" % [r.index for r in res.readouts])
        if [r.as_int for r in res.readouts] != [own_value(x) for x in outs]:
            problems.append("values %s, outputs %s" % ([r.as_int for r in res.readouts], outs))
        if len(res.subcircuits) != nsec or [sc.index for sc in res.subcircuits] != list(range(nsec)):
            problems.append("subcircuits %s, sections %d" % ([sc.index for sc in res.subcircuits], nsec))
        for sc in res.subcircuits:
            if [id(r) for r in sc.readouts] != [id(r) for r in res.readouts if r.subcircuit is sc]:
                problems.append("subcircuit %d does not hold its own readouts in order" % sc.index)
        if problems:
            acc.fail("one_readout_per_visit_in_order", case, "; ".join(problems))
        problems = table_problems(res, visits, nq)
        if problems:
            acc.fail("frequencies_count_own_readouts", case, "; ".join(problems))
    # strings / ints
    acc.count("strings_and_ints_agree")
    case = case_of(text, gs, ints, strs=strs, mixed=[enc(o) for o in mixed])
    problems = []
    if not (outcomes["ints"] == outcomes["strs"] == outcomes["mixed"]):
        problems.append("ints %s / strs %s / mixed %s" % tuple(json.dumps(outcomes[k])[:300] for k in ("ints", "strs", "mixed")))
    for kind in ("ints", "strs"):
        o = outcomes[kind]
        if "ok" in o:
            problems += form_problems(o["ok"], nq)
    if problems:
        acc.fail("strings_and_ints_agree", case, "; ".join(problems))
    # short
    if "short" in lists:
        acc.count("too_few_outputs_rejected")
        o, _ = impl_call(c, lists["short"])
        if o != {"err": "JaqalError"}:
            acc.fail("too_few_outputs_rejected", case_of(text, gs, lists["short"]), "%d outputs for %d visits: %s" % (len(lists["short"]), len(visits), json.dumps(o)[:300]))
    # long
    if "long" in lists:
        acc.count("extra_outputs_ignored")
        base = lists["long"][: len(visits)]
        o1, _ = impl_call(c, base, full=True)
        o2, _ = impl_call(c, lists["long"], full=True)
        if o1 != o2 or "ok" not in o1:
            acc.fail("extra_outputs_ignored", case_of(text, gs, lists["long"]), "without extras %s, with %s" % (json.dumps(o1)[:300], json.dumps(o2)[:300]))


def table_problems(res, visits, nq):
    problems = []
    for sc in res.subcircuits:
        tbl = list(sc.relative_frequency_by_int)
        own = [r for r in res.readouts if r.subcircuit is sc]
        if len(tbl) != 2 ** nq:
            problems.append("table of subcircuit %d has %d entries, n = %d" % (sc.index, len(tbl), nq))
            continue
        cnt = Counter(r.as_int for r in own if not isinstance(r.as_int, bool))
        bools = [r for r in own if isinstance(r.as_int, bool)]
        cnt.update(int(r.as_int) for r in bools)
        if any(tbl[v] != cnt.get(v, 0) for v in range(len(tbl))) or any(not (0 <= v < len(tbl)) for v in cnt):
            problems.append("table of subcircuit %d is %s, its readouts %s" % (sc.index, [num(v) for v in tbl], [r.as_int for r in own]))
        if sum(tbl) != visits.count(sc.index) or len(sc.readouts) != visits.count(sc.index):
            problems.append("subcircuit %d: table total %s, %d own readouts, %d visits" % (sc.index, num(sum(tbl)), len(sc.readouts), visits.count(sc.index)))
        bs = sc.relative_frequency_by_str
        if list(bs.keys()) != [own_str(v, nq) for v in range(len(tbl))] or len(set(bs.keys())) != len(tbl) or list(bs.values()) != tbl:
            problems.append("relative_frequency_by_str of subcircuit %d: %s" % (sc.index, list(bs.items())[:8]))
    return problems


def form_problems(ok, nq):
    problems = []
    for r, s in zip(ok["readouts"], ok["as_str"]):
        if nq >= 1 and len(s) != nq:
            problems.append("as_str %r of readout %s has %d characters, n = %d" % (s, r[0], len(s), nq))
        if any(ch not in "01" for ch in s) or own_value(s) != int(r[2]):
            problems.append("as_str %r does not read back as as_int %s" % (s, r[2]))
    return problems


def spelled_text(p, rng):
    """the text of a `c16_diff` program tree with every subcircuit block re-spelled; None when it has none"""
    if not any(has_sub(s) for s in p.top):
        return None
    p2 = copy.copy(p)
    p2.top = respell_list(p.top, True)
    L = C01.Layout(random.Random(rng.random()), plain=True)
    text2, e = C16.watched(lambda: C01.render_program(p2, L))
    return text2 if e is None else None


def check_spelling(acc, text2, text, gs, c, lists):
    acc.count("subcircuit_spelling_agrees")
    acc.dist["spelling_pairs"] += 1
    c2, e = C16.watched(lambda: C16.parse(text2, gs))
    if e is not None:
        acc.fail("subcircuit_spelling_agrees", case_of(text, gs, [], text2=text2), "the explicit spelling is refused: " + json.dumps(C16.err_json(e)))
        return
    for kind in ("ints", "mixed", "short", "long"):
        if kind not in lists:
            continue
        o1, _ = impl_call(c, lists[kind], full=True)
        o2, _ = impl_call(c2, lists[kind], full=True)
        if o1 != o2:
            acc.fail("subcircuit_spelling_agrees", case_of(text, gs, lists[kind], text2=text2),
                     "subcircuit spelling %s, explicit spelling %s" % (json.dumps(o1)[:300], json.dumps(o2)[:300]))
            return


def check_odd_accepted(acc, c, text, gs, ref, rng):
    """negative ints and bools: accepted lists must still satisfy the properties"""
    nsec, visits, nq = ref
    if not visits or nq > 12:
        return
    top = 2 ** nq
    for kind in ("negative", "bool"):
        outs = [rng.randrange(top) for _ in visits]
        outs[rng.randrange(len(outs))] = -rng.randrange(1, top + 1) if kind == "negative" else rng.random() < 0.7
        o, res = impl_call(c, outs, full=True)
        acc.dist["odd_%s_%s" % (kind, "accepted" if res is not None else o.get("err"))] += 1
        if res is None:
            continue
        oname = "bool_outputs_count_as_ints" if kind == "bool" else "accepted_odd_outputs_consistent"
        acc.count(oname)
        problems = form_problems(o["ok"], nq)
        cnt_problems = []
        for sc in res.subcircuits:
            tbl = list(sc.relative_frequency_by_int)
            own = [r.as_int for r in res.readouts if r.subcircuit is sc]
            if any(tbl[v] != sum(1 for k in own if k == v) for v in range(len(tbl))):
                cnt_problems.append("table of subcircuit %d is %s, its readouts %s" % (sc.index, [num(v) for v in tbl], own))
        if problems or cnt_problems:
            acc.fail(oname, case_of(text, gs, outs), "; ".join(problems + cnt_problems))


def one_program(acc, text, gs, text2, rng, thorough, stream):
    acc.dist["programs"] += 1
    acc.dist["stream_" + stream] += 1
    c, e = C16.watched(lambda: C16.parse(text, gs))
    ref = None
    if e is None:
        big, _ = C16.watched(lambda: C16.too_big(c, None))
        if big and stream != "edge":
            acc.dist["skipped_too_big_to_execute"] += 1
            return
        ref, _ = C16.watched(lambda: reference(c))
    else:
        acc.dist["parse_refused"] += 1
    lists = make_lists(ref, rng, thorough)
    if e is not None:
        lists = lists[:2]
    # is the program accepted at all?  (by the real code, with a list of valid outputs)
    accepted = False
    if e is None and ref is not None and ref[2] <= 12:
        o, _ = impl_call(c, lists[0][1])
        accepted = "ok" in o
    if accepted:
        acc.dist["accepted_programs"] += 1
        acc.dist["visits_%s" % (len(ref[1]) if len(ref[1]) < 6 else "6+")] += 1
        acc.dist["qubits_%d" % ref[2]] += 1
        acc.dist["sections_%s" % (ref[0] if ref[0] < 4 else "4+")] += 1
        if any(ref[1].count(k) == 0 for k in range(ref[0])):
            acc.dist["with_unvisited_section"] += 1
        d = {}
        for kind, outs in lists:
            d.setdefault(kind, outs)
        check_valid(acc, c, text, gs, ref, d)
        if text2 is not None:
            check_spelling(acc, text2, text, gs, c, d)
        check_odd_accepted(acc, c, text, gs, ref, rng)
    elif e is None:
        acc.dist["rejected_programs"] += 1
    for kind, outs in lists:
        case = case_of(text, gs, outs, kind=kind, stream=stream)
        impl = impl_call(c, outs)[0] if e is None else C16.err_json(e)
        acc.dist["lists_" + kind] += 1
        acc.dist["impl_" + ("ok" if "ok" in impl else impl.get("err", "?"))] += 1
        acc.reqs.append((case, impl))
        if accepted:
            acc.seen.add(json.dumps([text, case["outputs"]]))
    if len(acc.samples) < 6 and accepted and len(ref[1]) >= 2 and stream != "edge" and acc.dist["programs"] % 7 == 0:
        acc.samples.append(case_of(text, gs, lists[2][1]))


def run(seed: int, n: int, driver: str = DEFAULT_DRIVER, thorough: bool = False) -> dict:
    _imports()
    acc = Acc()
    nprog = max(12, n // 12) * (5 if thorough else 1)
    rng0 = random.Random(f"{seed}:outlist")
    for i, text in enumerate(EDGE_TEXTS):
        one_program(acc, text, False, None, random.Random(f"{seed}:outlist:edge:{i}"), thorough, "edge")
    for idx in range(nprog):
        text, gs, _ov, feat, p = C16.make_runnable(seed, idx)
        rng = random.Random(f"{seed}:outlist:run:{idx}")
        for k, v in feat.items():
            acc.dist["gen_" + k] += v
        one_program(acc, text, gs, spelled_text(p, rng), rng, thorough, "runnable")
        r = rng0.random()
        if r < 0.12:
            one_program(acc, C16.char_noise(text, rng)[0], gs, None, rng, thorough, "char_noise")
        elif r < 0.24:
            one_program(acc, C16.token_damage(text, rng)[0], gs, None, rng, thorough, "token_damage")
    for idx in range(nprog):
        text, text2, rng = make_own(seed, idx)
        one_program(acc, text, False, text2, rng, thorough, "own")
    # the model, one batch
    if driver:
        answers = C16.safe_driver(driver, [model_req(c["text"], c["gs"], [dec(o) for o in c["outputs"]]) for c, _ in acc.reqs])
        d = acc.corr["output_list"]
        noisy = _text_noise_installed()
        for (case, impl), model in zip(acc.reqs, answers):
            d["cases"] += 1
            if noisy:
                # harness/textnoise.py decorates the text the library parses with comments / blank lines, which moves the
                # position of a syntax error; positions are C02's / C16's business (their checks run without the noise)
                model, impl = _no_pos(model), _no_pos(impl)
            if model != impl:
                d["disagreements"].append({"case": case, "model": model, "impl": impl})
    for d in acc.corr.values():
        d["total"] = len(d["disagreements"])
        d["disagreements"] = d["disagreements"][:20]
    for d in acc.oracle.values():
        d["total"] = len(d["failures"])
        d["failures"] = d["failures"][:20]
    return {"corr": acc.corr, "oracle": acc.oracle, "distribution": dict(acc.dist), "samples": acc.samples,
            "nontrivial": len(acc.seen)}


def replay(case: dict, driver: str = DEFAULT_DRIVER) -> dict:
    _imports()
    text, gs = case["text"], case["gs"]
    outs = [dec(o) for o in case["outputs"]]
    impl = impl_outcome(text, gs, outs)
    model = None
    if driver and not any(isinstance(o, bool) for o in outs):
        model = C16.safe_driver(driver, [model_req(text, gs, outs)])[0]
    acc = Acc()
    detail = []
    c, e = C16.watched(lambda: C16.parse(text, gs))
    ok = None
    if e is None:
        ref, _ = C16.watched(lambda: reference(c))
        if ref is not None and ref[2] <= 12:
            nsec, visits, nq = ref
            o, res = impl_call(c, outs, full=True)
            valid = all((isinstance(x, str) and x and set(x) <= set("01") and own_value(x) < 2 ** nq) or
                        (isinstance(x, int) and not isinstance(x, bool) and 0 <= x < 2 ** nq) for x in outs[: len(visits)])
            if res is not None:
                problems = table_problems(res, visits, nq) + form_problems(o["ok"], nq)
                if [r.subcircuit.index for r in res.readouts] != visits:
                    problems.append("visit sequence %s, unrolled %s" % ([r.subcircuit.index for r in res.readouts], visits))
                if [int(r.as_int) for r in res.readouts] != [own_value(x) for x in outs[: len(visits)]]:
                    problems.append("values differ from the outputs")
                if "text2" in case:
                    c2, e2 = C16.watched(lambda: C16.parse(case["text2"], gs))
                    o2 = impl_call(c2, outs, full=True)[0] if e2 is None else C16.err_json(e2)
                    if o2 != o:
                        problems.append("explicit spelling gives " + json.dumps(o2)[:300])
                ok = not problems
                detail += problems
            elif valid and len(outs) >= len(visits):
                ok = False
                detail.append("valid outputs refused: " + json.dumps(o))
            elif valid:
                ok = o == {"err": "JaqalError"}
                detail.append("too few outputs: " + json.dumps(o))
    if model is not None and model != impl:
        detail.append("model and implementation differ")
    return {"model": model, "impl": impl, "oracle_ok": ok, "detail": "; ".join(detail) or "ok"}


def main():
    ap = argparse.ArgumentParser()
    ap.add_argument("--driver", default=DEFAULT_DRIVER)
    ap.add_argument("--seed", type=int, default=1)
    ap.add_argument("--n", type=int, default=2000)
    ap.add_argument("--thorough", action="store_true")
    a = ap.parse_args()
    res = run(a.seed, a.n, a.driver, a.thorough)
    for kind in ("corr", "oracle"):
        for name, d in res[kind].items():
            lst = d["disagreements"] if kind == "corr" else d["failures"]
            print(f"{kind:6} {name:34} cases {d['cases']:6}  {'disagreements' if kind == 'corr' else 'failures'} {d['total']}")
            for x in lst[:3]:
                print("     ", json.dumps(x)[:900])
    print("distribution", json.dumps(res["distribution"], sort_keys=True))
    print("nontrivial", res["nontrivial"])
    for s in res["samples"][:2]:
        print("sample", json.dumps(s)[:600])
    bad = sum(d["total"] for d in res["corr"].values()) + sum(d["total"] for k, d in res["oracle"].items() if k != "accepted_odd_outputs_consistent")
    sys.exit(1 if bad else 0)


if __name__ == "__main__":
    main()
