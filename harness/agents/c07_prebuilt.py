#!/venv/bin/python
"""C07 when the pieces of a program reach the builder ALREADY BUILT (oracles on the real code alone).

    PYTHONPATH=/verif /venv/bin/python /verif/harness/agents/c07_prebuilt.py [--seed 0] [--n 100] [--thorough] [--known]

Why.  Every other C07 stream hands `build` / `parse_jaqal_string` pure S-expressions or text.  The builder documents
more: "in lieu of an s-expression, the appropriate type from the core library will also be accepted", and the
object-oriented interface uses that by default - `CircuitBuilder.macro(...)`, `.let`, `.register`, `.map`, `.loop`
(`unevaluated=False`) build their piece AT ONCE, alone, and put the OBJECT into the expression.  A macro that was built
alone does not know the macros it calls (its calls are bound to placeholder definitions); `build_circuit` re-links
them with `RebuildMacroInContextVisitor`.  `fill_in_let` / `fill_in_map` hand the circuit's own objects back to
`build`.  None of this code (the re-linking visitor, `build` passing objects through, `build_map` / `build_array_item`
/ `build_register` on objects, the gate memo keyed on objects) is reached by text or by pure S-expressions.

C07 says the built form of a statement depends only on its own text and the bindings of the names in it - never on
another statement, so also never on WHICH pieces of the program were built beforehand, alone, in another circuit, or
shared.  This stream generates programs with macros calling macros - the same callee called 2-5 times in one body with
different / equal / permuted arguments, directly and inside nested blocks, loops and parallel blocks, callee twins with
the same signature, the usual name collisions (parameters named like lets / the register / aliases / the callee's
parameters), statement texts re-used in every scope where they are valid - and builds every program along many ROUTES
that must all give the circuit the plain text gives:

  text        parse_jaqal_string (the reference circuit)
  sx          build(pure S-expression)
  cb-default  CircuitBuilder, every method with its default (lets, register, aliases, macros and loops built at once)
  cb-uneval   CircuitBuilder, everything unevaluated=True
  cb-mixed    CircuitBuilder, evaluated / unevaluated chosen per piece
  alone       S-expression whose header objects and macros were all built alone beforehand
  pieces      S-expression macros / main body in which single statements, blocks, loops were built beforehand
  mixed       any piece (let, register, alias, macro, statement inside a macro or the main body) built beforehand
  shared      the macros are objects taken from ANOTHER circuit built from the same program
  rebuild     the whole expression consists of another circuit's own objects (what fill_in_let / fill_in_map do)

A piece is built beforehand either ALONE (`build(piece)`; names that are not bound inside the piece are given as
objects: header objects, `Parameter` objects for the parameters of the enclosing macro; calls of macros are bound to
placeholders) or IN CONTEXT in another ("donor") circuit built from the same program, from which the object is taken.
The same alone-built object is re-used wherever the same text with the same bindings occurs again (object sharing
between macros).  All choices derive from (route, salt) by hashing, so a case replays exactly.

Reference.  The program is a JSON tree (format of c07_edge.py); `lex_program` (imported) evaluates it lexically.

Oracles (all on the real code alone)
* `C07_prebuilt_same_circuit`  a route that returns a circuit returns THE circuit of the text: `==` in both
  directions, the same `harness.dump.circuit` (gate statements bound to the same kind of definition with the same
  parameter names), and walking the real objects gives the lexical reference for the main body and every macro.  The
  donor circuit whose objects were handed to the builder is unchanged by that (same dump before and after).
* `C07_prebuilt_passes`  expand_macros (with / without preserve_definitions), fill_in_let and their compositions on
  the route's circuit give what they give on the text's circuit (`==` both ways) and what the lexical reference
  expansion says (gate applications in order).  A pass that fails on the route's circuit but not on the text's is a
  failure; when it fails on both it is tabulated.
* `C07_prebuilt_accepts`  every generated program is valid and its text is accepted.  A route that refuses (or crashes
  on) it must refuse the same program with all macro parameters renamed to fresh names too, and there must not be two
  different single gate / call statements whose removal makes the route accept - else the refusal depends on a name
  that binds nothing else, or on an unrelated statement.  Other refusals are tabulated, not judged.

Known findings on the unchanged library (excluded from the judged streams; `--known` / `C07_PREBUILT_KNOWN=1` /
`run(..., known=True)` adds them under `C07_prebuilt_known_shapes`, which then FAILS on the unchanged library):
  K1  a macro (or a statement inside a macro) built alone that calls a macro WITHOUT parameters, or one whose parameter
      list is the placeholder's (p0, p1, ... in this order): `build_circuit` dies with AttributeError ('GateDefinition' object
      has no attribute 'body') - `Macro.__eq__` in RebuildMacroInContextVisitor.visit_GateStatement.  With
      `CircuitBuilder`: cb.macro("prep", [], ...); a second cb.macro whose body has gate("prep"); cb.build().
  K2  a main-body statement built alone (`CircuitBuilder.loop` with its default) that calls a macro: the circuit is
      `==` the text's, but the call stays bound to the placeholder, and `expand_macros` substitutes nothing (the macro's
      Parameters end up in the main body).

Sizes: quick n=100 (7-10 s: 100 generated + 6 fixed programs, 10 routes each and 2-3 pass sequences per route: about
1100 built circuits and 3000 judged passes), thorough n=400 (18 routes per program, all 5 pass sequences: about 7300
built circuits and 36500 judged passes, 1.5 min).  Programs are kept small (at most 350 gate applications once every
macro is expanded), else bursts of five calls over four levels of macros dominate the run time.
Importable: `run(seed, n, driver, thorough) -> dict`, `replay(case, driver) -> dict`; `corr` is empty (no Lean model here).
"""
import argparse
import hashlib
import json
import os
import random
import sys

sys.path.insert(0, os.path.dirname(os.path.dirname(os.path.dirname(os.path.abspath(__file__)))))

from harness.agents import c07_edge as E  # noqa: E402   (tree format, renderer, lexical reference, object walker)

DEFAULT_DRIVER = "/verif/lean/.lake/build/bin/jaqal-model"

NAMES = ["r", "q", "a", "b", "i", "n", "x", "s", "c"]
PLACEHOLDER_NAMES = ["p0", "p1", "p2"]
# usage letters: q qubit, r register, f any number, x index (0/1), c count
SIG = {"g": "q", "h": "qq", "u": "qf", "v": "fq", "w": "r", "k": "f", "kk": "ff", "z": ""}
WEIGHT = {"g": 5, "h": 2, "u": 4, "v": 1, "w": 1, "k": 3, "kk": 1, "z": 0.3}
PARAM_SORTS = ["reg", "reg", "qubit", "qubit", "qubit", "idx", "idx", "cnt", "num", "num"]
SORT_USAGE = {"reg": "r", "qubit": "q", "idx": "x", "cnt": "c", "num": "f"}
USAGE_SORTS = {"x": ("idx",), "c": ("idx", "cnt"), "f": ("idx", "cnt", "num")}

PASS_SEQS = [["M"], ["Mp"], ["L"], ["L", "M"], ["M", "L"]]

ROUTES = ["sx", "cb-default", "cb-uneval", "cb-mixed", "alone", "pieces", "mixed", "shared", "rebuild"]
QUICK_ROUTES = ["sx", "cb-default", "cb-uneval", "cb-mixed", "alone", "pieces", "mixed", "mixed", "shared", "rebuild"]
THOROUGH_ROUTES = ["sx", "cb-default", "cb-default", "cb-uneval", "cb-mixed", "cb-mixed", "alone", "alone", "pieces", "pieces",
                   "pieces", "mixed", "mixed", "mixed", "mixed", "shared", "shared", "rebuild"]

# per route: how a header object / a macro / a statement inside a macro / a statement of the main body reaches the
# builder ("sx" S-expression, "alone" built alone beforehand, "donor" taken from another circuit), and how often a
# name that could stay a string is given as an object
PLAN = {
    "sx": dict(hdr={"sx": 1}, macro={"sx": 1}, piece={"sx": 1}, mpiece={"sx": 1}, objref=0.0),
    "alone": dict(hdr={"alone": 1}, macro={"alone": 1}, piece={"sx": 5, "alone": 1}, mpiece={"sx": 3, "alone": 1}, objref=0.3),
    "pieces": dict(hdr={"sx": 2, "alone": 1, "donor": 1}, macro={"sx": 1}, piece={"sx": 5, "alone": 4, "donor": 2},
                   mpiece={"sx": 5, "alone": 3, "donor": 2}, objref=0.3),
    "mixed": dict(hdr={"sx": 1, "alone": 1, "donor": 1}, macro={"sx": 2, "alone": 4, "donor": 2},
                  piece={"sx": 6, "alone": 3, "donor": 1}, mpiece={"sx": 5, "alone": 2, "donor": 2}, objref=0.3),
    "shared": dict(hdr={"sx": 1, "donor": 1}, macro={"donor": 1}, piece={"sx": 1}, mpiece={"sx": 3, "donor": 1}, objref=0.2),
    "rebuild": dict(hdr={"donor": 1}, macro={"donor": 1}, piece={"donor": 1}, mpiece={"donor": 1}, objref=0.0),
}


# ---------------------------------------------------------------------------------------------------------------
# the library, imported lazily

_L = {}


def lib():
    if _L:
        return _L
    L = E.lib()
    from harness import dump
    from jaqalpaq.core.circuitbuilder import SubcircuitBlockBuilder

    _L.update(L)
    _L.update(dump=dump, SubcircuitBlockBuilder=SubcircuitBlockBuilder)
    return _L


guarded = E.guarded
render = E.render
r_stmt = E.r_stmt
py_number = E.py_number


def parse_text(text):
    return lib()["parse"](text, autoload_pulses=False)


# ---------------------------------------------------------------------------------------------------------------
# program trees: helpers

def has_call(s):
    if s[0] == "call":
        return True
    if s[0] == "gate":
        return False
    return any(has_call(x) for x in children(s))


def children(s):
    if s[0] == "loop":
        return s[3]
    if s[0] in ("seq", "par"):
        return s[1]
    if s[0] == "sub":
        return s[2]
    return []


def arg_names(a):
    if a[0] == "num":
        return []
    if a[0] == "id":
        return [a[1]]
    return [a[1]] + arg_names(a[2])


def stmt_names(s):
    """the identifiers (not gate names) that occur in the statement"""
    out = []
    if s[0] in ("gate", "call"):
        for a in s[2]:
            out.extend(arg_names(a))
        return out
    if s[0] == "loop":
        out.extend(arg_names(s[1]))
    if s[0] == "sub" and s[1] is not None:
        out.extend(arg_names(s[1]))
    for x in children(s):
        out.extend(stmt_names(x))
    return out


def expansion_size(prog):
    """the number of gate applications of the main body once every macro call is expanded"""
    sizes = {}

    def size(stmts):
        return sum(1 if s[0] == "gate" else sizes.get(s[1], 1) if s[0] == "call" else size(children(s)) for s in stmts)

    for m in prog["macros"]:
        sizes[m[0]] = size(m[4])
    return size(prog["main"]) + sum(sizes.values())


def simple_places(prog):
    """every gate / call statement: (containing list, position)"""
    out = []

    def walk(stmts):
        for pos, s in enumerate(stmts):
            if s[0] in ("gate", "call"):
                out.append((stmts, pos))
            else:
                walk(children(s))

    for m in prog["macros"]:
        walk(m[4])
    walk(prog["main"])
    return out


# ---------------------------------------------------------------------------------------------------------------
# generator


class Gen:
    def __init__(self, rng, known=False):
        self.rng = rng
        self.known = known

    def pick(self, xs):
        xs = list(xs)
        return xs[self.rng.randrange(len(xs))]

    def wpick(self, pairs):
        pairs = list(pairs)
        tot = sum(w for _x, w in pairs)
        r = self.rng.random() * tot
        for x, w in pairs:
            r -= w
            if r < 0:
                return x
        return pairs[-1][0]

    def chance(self, p):
        return self.rng.random() < p

    # ---- header
    def header(self):
        rng = self.rng
        names = list(NAMES)
        rng.shuffle(names)
        if self.chance(0.6):
            names.remove("r")
            names.insert(0, "r")
        rname = names.pop(0)
        size = rng.randrange(2, 5)
        lets, maps, scope = [], [], {}
        reg = [rname, size]
        if self.chance(0.2):
            nm = names.pop(0)
            lets.append([nm, str(size), "size"])
            scope[nm] = "num"
            reg = [rname, nm]
        scope[rname] = ("reg", size)
        for _ in range(self.pick([1, 2, 2, 3])):
            role = self.pick(["idx", "idx", "cnt", "num", "num"])
            if role == "idx":
                text = self.pick(["0", "1"])
            elif role == "cnt":
                text = self.pick(["0", "1", "2", "3"])
            else:
                text = self.pick(["0.5", "2.5", "-1.5", "0.25", "7", "-1", "3.0"])
            nm = names.pop(0)
            lets.append([nm, text, role])
            scope[nm] = role
        idx_lets = [l[0] for l in lets if l[2] == "idx"]
        for _ in range(self.pick([0, 1, 1, 2])):
            if len(names) <= 2:
                break
            srcs = [(k, v[1]) for k, v in scope.items() if isinstance(v, tuple)]
            src, ssize = self.pick(srcs)
            kind = self.pick(["whole", "slice", "qubit", "qubit"])
            nm = names.pop(0)
            if kind == "slice" and ssize >= 3:
                start = self.pick([None, 0, 1])
                stop = self.pick([None, ssize])
                if len(range(start or 0, ssize)) >= 2:
                    maps.append([nm, "slice", src, start, stop, self.pick([None, None, 1])])
                    scope[nm] = ("reg", len(range(start or 0, ssize)))
                    continue
                kind = "whole"
            if kind == "qubit":
                index = self.pick(idx_lets) if idx_lets and self.chance(0.4) else rng.randrange(2)
                maps.append([nm, "qubit", src, index])
                scope[nm] = "qubit"
            else:
                maps.append([nm, "whole", src])
                scope[nm] = ("reg", ssize)
        return lets, reg, maps, scope

    # ---- validity of a statement text in a scope (so that texts can be re-used)
    def arg_ok(self, a, usage, scope):
        if usage == "q":
            if a[0] == "id":
                return scope.get(a[1]) == "qubit"
            if a[0] != "item" or not isinstance(scope.get(a[1]), tuple):
                return False
            if a[2][0] == "num":
                return 0 <= int(a[2][1]) < scope[a[1]][1]
            return scope.get(a[2][1]) == "idx"
        if usage == "r":
            return a[0] == "id" and isinstance(scope.get(a[1]), tuple)
        if a[0] == "item":
            return False
        if a[0] == "num":
            if usage == "x":
                return a[1] in ("0", "1")
            if usage == "c":
                return a[1] in ("0", "1", "2", "3")
            return True
        return scope.get(a[1]) in USAGE_SORTS[usage]

    def usages(self, s, macros):
        if s[0] == "gate":
            return SIG[s[1]]
        m = macros.get(s[1])
        return None if m is None else [SORT_USAGE[x] for x in m[2]]

    def fits(self, s, scope, macros):
        us = self.usages(s, macros)
        return us is not None and len(us) == len(s[2]) and all(self.arg_ok(a, u, scope) for a, u in zip(s[2], us))

    # ---- arguments
    def ident(self, scope, ok, params, prefer=None):
        c = [(n, (6 if n == prefer else 3 if n in params else 1)) for n, s in scope.items() if ok(s)]
        return self.wpick(c) if c else None

    def gen_arg(self, usage, scope, params, prefer=None):
        if usage == "q":
            qid = self.ident(scope, lambda s: s == "qubit", params, prefer)
            base = self.ident(scope, lambda s: isinstance(s, tuple), params, prefer)
            if qid is not None and (base is None or qid == prefer or self.chance(0.35)):
                return ["id", qid]
            iid = self.ident(scope, lambda s: s == "idx", params)
            if iid is not None and self.chance(0.45):
                return ["item", base, ["id", iid]]
            return ["item", base, ["num", self.pick(["0", "1"])]]
        if usage == "r":
            return ["id", self.ident(scope, lambda s: isinstance(s, tuple), params, prefer)]
        sorts = USAGE_SORTS[usage]
        nm = self.ident(scope, lambda s: s in sorts, params, prefer)
        if nm is not None and (nm == prefer or self.chance(0.45)):
            return ["id", nm]
        if usage == "x":
            return ["num", self.pick(["0", "1"])]
        if usage == "c":
            return ["num", self.pick(["0", "1", "2", "2", "3"])]
        return ["num", self.pick(["0.5", "2.5", "-1.5", "3", "7", "0.25", "1", "0", "1.0"])]

    def gen_gate(self, scope, params):
        name = self.wpick(WEIGHT.items())
        return ["gate", name, [self.gen_arg(u, scope, params) for u in SIG[name]]]

    def gen_call(self, scope, params, m):
        args = []
        for p, srt in zip(m[1], m[2]):
            prefer = p if self.chance(0.4) else None
            args.append(self.gen_arg(SORT_USAGE[srt], scope, params, prefer))
        return ["call", m[0], args]

    def gen_simple(self, scope, params, macros):
        if self.pool and self.chance(0.4):
            c = [s for s in self.pool if self.fits(s, scope, macros)]
            if c:
                self.reused += 1
                return json.loads(json.dumps(self.pick(c)))
        if macros and self.chance(0.35):
            s = self.gen_call(scope, params, self.pick(macros.values()))
        else:
            s = self.gen_gate(scope, params)
        self.pool.append(s)
        return s

    def gen_stmt(self, scope, params, macros, ctx, depth):
        r = self.rng.random()
        if depth <= 0 or r < 0.6:
            return self.gen_simple(scope, params, macros)
        k = self.pick([0, 1, 2, 2, 3])
        if ctx == "par":
            return ["seq", [self.gen_stmt(scope, params, macros, "seq", depth - 1) for _ in range(k)]]
        if r < 0.82:
            kind = "par" if self.chance(0.25) else "seq"
            return ["loop", self.count_arg(scope, params), kind,
                    [self.gen_stmt(scope, params, macros, kind, depth - 1) for _ in range(k)]]
        return ["par", [self.gen_stmt(scope, params, macros, "par", depth - 1) for _ in range(k)]]

    def count_arg(self, scope, params):
        cparams = [p for p in params if scope.get(p) in ("idx", "cnt")]
        prefer = self.pick(cparams) if cparams and self.chance(0.6) else None
        return self.gen_arg("c", scope, params, prefer)

    # ---- bursts: the same callee called several times in one body
    def burst(self, m, scope, params):
        """-> (calls, relations)"""
        first = self.gen_call(scope, params, m)
        calls, rels = [first], []
        for _ in range(self.pick([1, 1, 2, 2, 3, 4])):
            rel = self.pick(["different", "different", "equal", "permuted", "permuted", "one changed"]) if m[1] else "equal"
            c = json.loads(json.dumps(first))
            if rel == "different":
                c = self.gen_call(scope, params, m)
            elif rel == "permuted":
                groups = {}
                for j, srt in enumerate(m[2]):
                    groups.setdefault(SORT_USAGE[srt], []).append(j)
                groups = [g for g in groups.values() if len(g) > 1]
                if groups:
                    g = self.pick(groups)
                    sh = list(g)
                    self.rng.shuffle(sh)
                    for j, j2 in zip(g, sh):
                        c[2][j] = json.loads(json.dumps(first[2][j2]))
                else:
                    rel = "different"
                    c = self.gen_call(scope, params, m)
            elif rel == "one changed":
                j = self.rng.randrange(len(m[1]))
                c[2][j] = self.gen_arg(SORT_USAGE[m[2][j]], scope, params)
            if rel != "equal" and c == first:
                rel = "equal (by chance)"
            calls.append(c)
            rels.append(rel)
        return calls, rels

    def containers(self, stmts, ctx, out, depth=0):
        out.append((stmts, ctx, depth))
        for s in stmts:
            if s[0] == "loop":
                self.containers(s[3], s[2], out, depth + 1)
            elif s[0] in ("seq", "par"):
                self.containers(s[1], s[0], out, depth + 1)
        return out

    def scatter(self, body, kind, calls, scope, params, macros):
        """insert the calls of a burst into the body: directly, into existing nested blocks / loops, or wrapped"""
        for c in calls:
            conts = self.containers(body, kind, [])
            stmts, ctx, depth = self.pick(conts)
            r = self.rng.random()
            if r < 0.5 or depth >= 3:
                item, where = c, ("parallel block" if ctx == "par" else "sequential block") if depth else "macro body / main body"
            elif ctx == "par":
                item, where = ["seq", [c] + ([self.gen_simple(scope, params, macros)] if self.chance(0.5) else [])], "new sequential block in a parallel block"
            elif r < 0.75:
                item, where = ["loop", self.count_arg(scope, params), "seq", [c]], "new loop"
            elif r < 0.88:
                item, where = ["par", [c, self.gen_simple(scope, params, macros)]], "new parallel block"
            else:
                item, where = ["par", [["seq", [c, self.gen_simple(scope, params, macros)]], self.gen_simple(scope, params, macros)]], \
                    "new sequential block in a new parallel block"
            stmts.insert(self.rng.randrange(len(stmts) + 1), item)
            self.placements.append(where if depth == 0 or item is not c else f"{where} (depth {depth})")

    # ---- whole program
    def param_names(self, hnames, earlier, count):
        params = []
        for _ in range(count):
            r = self.rng.random()
            if self.known and r < 0.35:
                p = self.pick(PLACEHOLDER_NAMES)
            elif earlier and r < 0.3:
                p = self.pick(earlier)
            elif r < 0.75:
                p = self.pick(hnames)
            else:
                p = self.pick(NAMES)
            if p not in params:
                params.append(p)
        return params

    def program(self, limit=350):
        """a program whose macro expansion stays small (bursts of 5 calls over 4 levels would give thousands of gates)"""
        for _ in range(12):
            prog = self.program1()
            if expansion_size(prog) <= limit:
                break
        return prog

    def program1(self):
        rng = self.rng
        self.pool, self.reused, self.placements, self.relations, self.bursts = [], 0, [], [], []
        lets, reg, maps, hscope = self.header()
        hnames = list(hscope)
        macros = {}
        self.twins = 0
        for k in range(self.pick([2, 2, 3, 3, 4, 5])):
            earlier = [p for m in macros.values() for p in m[1]]
            twin_of = self.pick(macros.values()) if macros and self.chance(0.35) else None
            if twin_of is not None and twin_of[1]:
                # the same signature as an earlier macro: a call re-linked to the wrong one of the two still type-checks
                sorts = list(twin_of[2])
                params = list(twin_of[1]) if self.chance(0.5) else self.param_names(hnames, earlier, len(sorts))
                while len(params) < len(sorts):
                    p = self.pick(NAMES)
                    if p not in params:
                        params.append(p)
                self.twins += 1
            else:
                params = self.param_names(hnames, earlier, self.pick([0, 1, 1, 2, 2, 2, 3, 3, 4]))
                sorts = [self.pick(PARAM_SORTS) for _ in params]
                for j in range(1, len(sorts)):
                    if self.chance(0.4):  # two parameters of one sort: their arguments can be permuted
                        sorts[j] = sorts[j - 1]
            scope = dict(hscope)
            scope.update({p: (("reg", 2) if s == "reg" else s) for p, s in zip(params, sorts)})
            if not any(isinstance(v, tuple) for v in scope.values()):
                # every register name is shadowed by a parameter of another sort: one of those becomes a register
                j = self.pick([j for j, p in enumerate(params) if isinstance(hscope.get(p), tuple)])
                sorts[j] = "reg"
                scope[params[j]] = ("reg", 2)
            kind = "par" if self.chance(0.12) else "seq"
            body = [self.gen_stmt(scope, params, macros, kind, 2) for _ in range(self.pick([0, 1, 2, 2, 3]))]
            if macros and self.chance(0.85):
                for _ in range(self.pick([1, 1, 2])):
                    callee = self.pick(macros.values())
                    calls, rels = self.burst(callee, scope, params)
                    self.relations.extend(rels)
                    self.bursts.append(len(calls))
                    self.scatter(body, kind, calls, scope, params, macros)
            macros[f"m{k}"] = [f"m{k}", params, sorts, kind, body]
        main = []
        for m in macros.values():
            for _ in range(self.pick([0, 1, 1, 2])):
                main.append(self.gen_call(hscope, [], m))
        for _ in range(self.pick([1, 2, 3])):
            main.append(self.gen_stmt(hscope, [], macros, "seq", 2))
        rng.shuffle(main)
        if self.chance(0.7):
            callee = self.pick(macros.values())
            calls, rels = self.burst(callee, hscope, [])
            self.relations.extend(rels)
            self.bursts.append(len(calls))
            self.scatter(main, "seq", calls, hscope, [], macros)
        main = [s if not self.chance(0.1) else ["sub", self.pick([None, None, self.gen_arg("c", hscope, [])]),
                                                 [s] if s[0] != "seq" else s[1]] for s in main]
        return {"lets": lets, "reg": reg, "maps": maps, "macros": list(macros.values()), "main": main}


def _n(t):
    return ["num", t]


def _id(n):
    return ["id", n]


def _it(a, i):
    return ["item", a, _n(i) if i[:1] in "0123456789-+" else _id(i)]


def _G(name, *args):
    return ["gate", name, list(args)]


def _C(name, *args):
    return ["call", name, list(args)]


def fixed_programs():
    P = []

    def prog(lets, reg, maps, macros, main):
        P.append({"lets": lets, "reg": reg, "maps": maps, "macros": macros, "main": main})

    # one callee, three calls with three arguments, one of them in a parallel block (the shape of the missed seed)
    prog([], ["r", 3], [],
         [["inner", ["c"], ["qubit"], "seq", [_G("g", _id("c"))]],
          ["outer", ["x", "y", "z"], ["qubit", "qubit", "qubit"], "seq",
           [_C("inner", _id("x")), _C("inner", _id("y")), ["par", [_C("inner", _id("z")), _G("g", _id("x"))]]]]],
         [_C("outer", _it("r", "0"), _it("r", "1"), _it("r", "2"))])
    # numeric arguments, equal first and last
    prog([], ["r", 2], [],
         [["rot", ["a"], ["num"], "seq", [_G("k", _id("a"))]],
          ["twice", [], [], "seq", [_C("rot", _n("1")), _C("rot", _n("2")), _C("rot", _n("1"))]]],
         [_C("twice"), _C("rot", _n("3")), _C("rot", _n("1"))])
    # twins with one signature called alternately; permuted arguments; calls inside loops with different counts
    prog([["n", "2", "cnt"], ["i", "1", "idx"]], ["r", 3], [["q", "qubit", "r", "i"]],
         [["ma", ["a", "b"], ["qubit", "qubit"], "seq", [_G("h", _id("a"), _id("b"))]],
          ["mb", ["a", "b"], ["qubit", "qubit"], "seq", [_G("h", _id("b"), _id("a")), _G("g", _id("a"))]],
          ["top", ["r", "n"], ["reg", "cnt"], "seq",
           [_C("ma", _it("r", "0"), _it("r", "1")), _C("mb", _it("r", "0"), _it("r", "1")), _C("ma", _it("r", "1"), _it("r", "0")),
            ["loop", _id("n"), "seq", [_C("mb", _it("r", "1"), _it("r", "0"))]],
            ["loop", _n("3"), "seq", [_C("mb", _it("r", "1"), _it("r", "0")), ["par", [_C("ma", _it("r", "i"), _it("r", "0")), _G("g", _id("q"))]]]],
            _C("ma", _it("r", "0"), _it("r", "1"))]]],
         [_C("top", _id("r"), _id("n")), _C("top", _id("r"), _n("0")), _C("ma", _id("q"), _it("r", "0")), _C("mb", _id("q"), _it("r", "0")),
          ["loop", _id("n"), "seq", [_C("ma", _it("r", "0"), _id("q"))]]])
    # three levels; the same statement text `low x` in two macros and the main body with three bindings of x
    prog([["x", "0.5", "num"], ["a", "1", "idx"]], ["r", 2], [],
         [["low", ["x"], ["num"], "seq", [_G("k", _id("x")), _G("u", _it("r", "a"), _id("x"))]],
          ["mid", ["x", "a"], ["num", "idx"], "seq", [_C("low", _id("x")), _C("low", _n("2.5")), _G("u", _it("r", "a"), _id("x")), _C("low", _id("x"))]],
          ["hi", ["a"], ["num"], "par", [_C("mid", _id("a"), _n("0")), ["seq", [_C("mid", _id("x"), _n("1")), _C("low", _id("x")), _C("mid", _id("a"), _n("1"))]]]]],
         [_C("low", _id("x")), _C("mid", _id("x"), _id("a")), _C("hi", _n("7")), _C("hi", _id("x")), _C("low", _id("x"))])
    # a parallel macro body, empty macro, register parameters named like the register and an alias
    prog([["c", "3", "cnt"]], ["r", 4], [["s", "slice", "r", 1, None, None], ["w2", "whole", "r"]],
         [["e", [], [], "seq", []],
          ["on", ["s", "c"], ["reg", "idx"], "par", [_G("g", _it("s", "c")), _G("g", _it("s", "0"))]],
          ["all", ["r"], ["reg"], "seq",
           [_C("on", _id("r"), _n("1")), _C("e"), _C("on", _id("s"), _n("1")), _C("on", _id("r"), _n("0")), _C("e"),
            ["loop", _id("c"), "seq", [_C("on", _id("r"), _n("1")), _C("on", _id("w2"), _n("1"))]]]]],
         [_C("all", _id("s")), _C("all", _id("r")), _C("on", _id("s"), _n("0")), _C("e"), ["sub", _id("c"), [_C("all", _id("w2")), _C("on", _id("r"), _n("1"))]]])
    # the register's size is a let; a qubit alias indexed by a let; calls as the only statements of nested blocks
    prog([["n", "3", "size"], ["i", "0", "idx"]], ["r", "n"], [["q", "qubit", "r", "i"], ["t", "qubit", "r", 1]],
         [["one", ["q"], ["qubit"], "seq", [_G("g", _id("q"))]],
          ["two", ["q", "t"], ["qubit", "qubit"], "seq",
           [["par", [["seq", [_C("one", _id("q"))]], ["seq", [_C("one", _id("t"))]]]], ["loop", _n("2"), "par", [_C("one", _id("t")), ["seq", [_C("one", _id("q"))]]]]]]],
         [_C("two", _id("q"), _id("t")), _C("two", _id("t"), _id("q")), _C("one", _id("q")), _C("two", _it("r", "2"), _it("r", "i"))])
    return P


def known_programs():
    """the shapes of the two known findings (see the module docstring), as fixed programs"""
    return [
        {"lets": [], "reg": ["r", 2], "maps": [],
         "macros": [["inner", ["p0"], ["qubit"], "seq", [_G("g", _id("p0"))]],
                    ["outer", ["x"], ["qubit"], "seq", [_C("inner", _id("x"))]]],
         "main": [_C("outer", _it("r", "0"))]},
        {"lets": [["a", "1", "idx"]], "reg": ["r", 3], "maps": [],
         "macros": [["inner", ["c", "d"], ["qubit", "num"], "seq", [_G("g", _id("c")), _G("k", _id("d"))]]],
         "main": [["loop", _n("2"), "seq", [_C("inner", _it("r", "a"), _n("5"))]]]},
    ]


# ---------------------------------------------------------------------------------------------------------------
# assembling a program along a route


class Asm:
    """builds `prog` along `route`; every choice is a hash of (salt, position), so the same (route, salt) gives the same build"""

    def __init__(self, prog, route, salt, known=False):
        self.L = lib()
        self.prog, self.route, self.salt, self.known = prog, route, salt, known
        self.plan = PLAN.get(route, PLAN["mixed"])
        self.trace, self.counts = [], {}
        self.donor, self.donor_kind, self.donor_dump = None, None, None
        self.hobj, self.pobj, self.shared, self.pcount = {}, {}, {}, 0
        # known finding K1: a call that is bound to a placeholder (because the piece around it was built alone) cannot be
        # re-linked to a macro whose parameter list equals the placeholder's: no parameters at all, or p0, p1, ...
        self.k1_callees = {m[0] for m in prog["macros"] if list(m[1]) == [f"p{j}" for j in range(len(m[1]))]}

    def k1(self, s):
        """the statement contains a call that hits known finding K1 when the piece around it is built alone"""
        if self.known:
            return False
        if s[0] == "call":
            return s[1] in self.k1_callees
        return any(self.k1(x) for x in children(s))

    # ---- choices
    def rnd(self, key):
        h = hashlib.blake2b(f"{self.salt}|{self.route}|{key}".encode(), digest_size=8).digest()
        return int.from_bytes(h, "big") / 2.0 ** 64

    def chance(self, key, p):
        return self.rnd(key) < p

    def choose(self, key, weights):
        items = sorted(weights.items())
        tot = sum(w for _c, w in items)
        r = self.rnd(key) * tot
        for c, w in items:
            r -= w
            if r < 0:
                return c
        return items[-1][0]

    def note(self, what, line=None):
        self.counts[what] = self.counts.get(what, 0) + 1
        if line and len(self.trace) < 40:
            self.trace.append(line)

    # ---- the donor circuit (another circuit built from the same program, whose objects are handed to the builder)
    def get_donor(self):
        if self.donor is None:
            L = self.L
            kind = self.choose("donor", {"sx": 6, "text": 1, "rebuilt": 1, "cb": 2})
            sx = E.to_sexpr(self.prog, None)
            if kind == "sx":
                d = L["build"](sx)
            elif kind == "text":
                d = parse_text(render(self.prog))
            elif kind == "cb":
                d = E.to_circuitbuilder(self.prog, None).build()
            else:
                d0 = L["build"](sx)
                d = L["build"](("circuit", *d0.constants.values(), *d0.registers.values(), *d0.macros.values(),
                                *d0.body.statements))
            self.donor, self.donor_kind = d, kind
            try:
                self.donor_dump = L["dump"].circuit(d)
            except L["dump"].Undumpable:
                self.donor_dump = None
            self.note(f"donor circuit: {kind}")
        return self.donor

    # ---- names as objects
    def hdr_obj(self, nm):
        o = self.hobj.get(nm)
        if o is None:
            d = self.get_donor()
            o = d.constants[nm] if nm in d.constants else d.registers[nm]
            self.note("header name given as the donor's object although the circuit gets its own (equal) one")
        return o

    def param_obj(self, k, nm):
        key = (k, nm)
        self.pcount += 1
        if key not in self.pobj or self.chance(f"freshparam|{k}|{nm}|{self.pcount}", 0.2):
            self.pobj[key] = self.L["Parameter"](nm, None)  # equal Parameters of one macro need not be one object
        return self.pobj[key]

    def ref(self, nm, level, k, params, key):
        """level 0: built inside the circuit (names may stay strings); 1: inside a macro that is built alone (its
        parameters may stay strings, header names must be objects); 2: inside a piece built alone (all objects)"""
        is_param = params is not None and nm in params
        if level == 0:
            as_obj = self.chance("ref|" + key, self.plan["objref"])
        elif level == 1:
            as_obj = (not is_param) or self.chance("ref|" + key, 0.3)
        else:
            as_obj = True
        if not as_obj:
            return nm
        self.note("name given as an object: " + ("macro parameter" if is_param else "header name"))
        return self.param_obj(k, nm) if is_param else self.hdr_obj(nm)

    def arg(self, a, level, k, params, key):
        if a[0] == "num":
            return py_number(a[1])
        if a[0] == "id":
            return self.ref(a[1], level, k, params, key)
        base = self.ref(a[1], level, k, params, key + "|b")
        idx = self.arg(a[2], level, k, params, key + "|i")
        if not isinstance(base, str) and not isinstance(idx, str) and self.chance("ix|" + key, 0.4):
            self.note("array item given as object[index]")
            return base[idx]
        return ("array_item", base, idx)

    # ---- statements
    def navigate(self, k, path):
        d = self.get_donor()
        if k is None:
            objs, tree = d.body.statements, self.prog["main"]
        else:
            m = self.prog["macros"][k]
            objs, tree = d.macros[m[0]].body.statements, m[4]
        o = None
        for depth, j in enumerate(path):
            if j >= len(objs):
                raise IndexError(f"the donor circuit ({self.donor_kind}) itself is not the program: no statement at "
                                 + ("main" if k is None else self.prog["macros"][k][0]) + "/" + "/".join(map(str, path)))
            s, o = tree[j], objs[j]
            if depth + 1 < len(path):
                tree = children(s)
                objs = o.statements.statements if s[0] == "loop" else o.statements
        return o

    def plain(self, s, level, k, params, key, path, weights):
        """the S-expression of the statement itself; its children may again be pre-built"""
        if s[0] in ("gate", "call"):
            return ("gate", s[1], *[self.arg(a, level, k, params, f"{key}|a{j}") for j, a in enumerate(s[2])])
        kids = [self.stmt(x, level, k, params, path + [j], weights) for j, x in enumerate(children(s))]
        if s[0] == "loop":
            return ("loop", self.arg(s[1], level, k, params, key + "|n"), ("parallel_block" if s[2] == "par" else "sequential_block", *kids))
        if s[0] in ("seq", "par"):
            return ("parallel_block" if s[0] == "par" else "sequential_block", *kids)
        return ("subcircuit_block", "" if s[1] is None else self.arg(s[1], level, k, params, key + "|n"), *kids)

    def stmt(self, s, level, k, params, path, weights):
        where = ("main" if k is None else self.prog["macros"][k][0]) + "/" + "/".join(map(str, path))
        key = "stmt|" + where
        mode = self.choose(key, weights)
        if mode == "alone" and k is None and has_call(s) and not self.known:
            mode = "donor" if "donor" in weights else "sx"  # known finding K2
            self.note("piece: a main-body statement with a call is not built alone (known finding K2)")
        if mode == "alone" and self.k1(s):
            mode = "donor" if "donor" in weights else "sx"
            self.note("piece: a statement that calls a macro without parameters is not built alone (known finding K1)")
        if mode == "donor":
            self.note("piece: taken from the donor circuit", f"{where} `{r_stmt(s)[:60]}`: the donor's object")
            return self.navigate(k, path)
        if mode == "alone":
            names = stmt_names(s)
            sig = (r_stmt(s), tuple(sorted({(nm, params is not None and nm in params) for nm in names})))
            if sig in self.shared and self.chance("share|" + key, 0.7):
                self.note("piece: the object built alone for the same text elsewhere is used again",
                          f"{where} `{r_stmt(s)[:60]}`: the SAME object as at {self.shared[sig][1]}")
                return self.shared[sig][0]
            expr = self.plain(s, 2, k, params, key, path, weights)
            obj = self.L["build"](expr)
            self.shared[sig] = (obj, where)
            self.note("piece: built alone" + (" (contains a call)" if has_call(s) else ""),
                      f"{where} `{r_stmt(s)[:60]}`: built alone")
            return obj
        return self.plain(s, level, k, params, key, path, weights)

    # ---- header
    def header(self):
        L, prog = self.L, self.prog
        out = []

        def place(name, what, sx_expr, alone_expr, donor_get):
            mode = self.choose(f"hdr|{name}", self.plan["hdr"])
            if mode == "sx":
                out.append(sx_expr())
                return
            if mode == "alone":
                o = L["build"](alone_expr())
            else:
                o = donor_get(self.get_donor())
            self.hobj[name] = o
            self.note(f"header: {what} " + ("built alone" if mode == "alone" else "taken from the donor circuit"),
                      f"{what} {name}: " + ("built alone" if mode == "alone" else "the donor's object"))
            out.append(o)

        for name, text, _role in prog["lets"]:
            e = ("let", name, py_number(text))
            place(name, "let", lambda e=e: e, lambda e=e: e, lambda d, name=name: d.constants[name])
        rname, size = prog["reg"]
        place(rname, "register", lambda: ("register", rname, size),
              lambda: ("register", rname, self.hdr_obj(size) if isinstance(size, str) else size),
              lambda d: d.registers[rname])
        for m in prog["maps"]:
            def names_expr(m=m):
                return ("map", m[0], m[2]) if m[1] == "whole" else ("map", m[0], m[2], m[3]) if m[1] == "qubit" else ("map", m[0], m[2], m[3], m[4], m[5])

            def objs_expr(m=m):
                src = self.hdr_obj(m[2])
                if m[1] == "whole":
                    return ("map", m[0], src)
                if m[1] == "qubit":
                    return ("map", m[0], src, self.hdr_obj(m[3]) if isinstance(m[3], str) else m[3])
                return ("map", m[0], src, m[3], m[4], m[5])

            place(m[0], "alias", names_expr, objs_expr, lambda d, m=m: d.registers[m[0]])
        return out

    # ---- macros
    def macro(self, k):
        L = self.L
        name, params, _sorts, kind, body = self.prog["macros"][k]
        mode = self.choose(f"macro|{k}", self.plan["macro"])
        if mode == "donor":
            self.note("macro: taken from the donor circuit", f"macro {name}: the donor's object")
            return self.get_donor().macros[name]
        if mode == "alone" and any(self.k1(s) for s in body):
            mode = "sx"
            self.note("macro: a macro that calls a macro without parameters is not built alone (known finding K1)")
        level = 1 if mode == "alone" else 0
        plist = [self.param_obj(k, p) if self.chance(f"plist|{k}|{p}", 0.3 if level else self.plan["objref"]) else p for p in params]
        stmts = [self.stmt(s, level, k, set(params), [j], self.plan["piece"]) for j, s in enumerate(body)]
        expr = ("macro", name, *plist, ("parallel_block" if kind == "par" else "sequential_block", *stmts))
        if mode == "alone":
            calls = sum(1 for s in body if has_call(s))
            self.note("macro: built alone" + (" (calls other macros)" if calls else ""), f"macro {name}: built alone")
            return L["build"](expr)
        return expr

    def sexpr_route(self):
        out = ["circuit"] + self.header()
        for k in range(len(self.prog["macros"])):
            out.append(self.macro(k))
        for j, s in enumerate(self.prog["main"]):
            out.append(self.stmt(s, 0, None, None, [j], self.plan["mpiece"]))
        return self.L["build"](tuple(out))

    # ---- CircuitBuilder routes
    def evaluated(self, key):
        if self.route == "cb-default":
            return True
        if self.route == "cb-uneval":
            return False
        return self.chance("eval|" + key, 0.55)

    def cb_fill(self, b, stmts, level, k, params, path):
        L = self.L
        for j, s in enumerate(stmts):
            p = path + [j]
            key = "cb|" + ("main" if k is None else str(k)) + "/" + "/".join(map(str, p))
            if s[0] in ("gate", "call"):
                b.gate(s[1], *[self.arg(a, level, k, params, f"{key}|a{i}") for i, a in enumerate(s[2])])
            elif s[0] in ("seq", "par"):
                self.cb_fill(b.block(parallel=(s[0] == "par")), s[1], level, k, params, p)
            elif s[0] == "sub":
                it = None if s[1] is None else self.arg(s[1], level, k, params, key + "|n")
                self.cb_fill(b.subcircuit(it), s[2], level, k, params, p)
            else:
                ev = self.evaluated(key)
                if ev and k is None and has_call(s) and not self.known:
                    ev = False  # known finding K2
                    self.note("cb: a main-body loop with a call is given unevaluated (known finding K2)")
                if ev and self.k1(s):
                    ev = False
                    self.note("cb: a loop that calls a macro without parameters is given unevaluated (known finding K1)")
                inner = L["ParallelBlockBuilder"]() if s[2] == "par" else L["SequentialBlockBuilder"]()
                lvl = 2 if ev else level
                self.cb_fill(inner, s[3], lvl, k, params, p)
                b.loop(self.arg(s[1], lvl, k, params, key + "|n"), inner, unevaluated=not ev)
                self.note("cb: loop " + ("built at once" + (" (contains a call)" if has_call(s) else "") if ev else "unevaluated"),
                          f"{key[3:]} loop: built at once" if ev else None)

    def cb_route(self):
        L, prog = self.L, self.prog
        cb = L["CircuitBuilder"]()

        def keep(name, what, ev, o):
            self.note(f"cb: {what} " + ("built at once" if ev else "unevaluated"))
            if ev:
                self.hobj[name] = o

        for name, text, _role in prog["lets"]:
            ev = self.evaluated("let|" + name)
            keep(name, "let", ev, cb.let(name, py_number(text), unevaluated=not ev))
        rname, size = prog["reg"]
        ev = self.evaluated("reg")
        keep(rname, "register", ev, cb.register(rname, (self.hdr_obj(size) if ev else size) if isinstance(size, str) else size,
                                                unevaluated=not ev))
        for m in prog["maps"]:
            ev = self.evaluated("map|" + m[0])
            src = self.hdr_obj(m[2]) if ev or self.chance("mapsrc|" + m[0], 0.3) else m[2]
            if m[1] == "whole":
                o = cb.map(m[0], src, unevaluated=not ev)
            elif m[1] == "qubit":
                o = cb.map(m[0], src, (self.hdr_obj(m[3]) if ev else m[3]) if isinstance(m[3], str) else m[3], unevaluated=not ev)
            else:
                o = cb.map(m[0], src, slice(m[3], m[4], m[5]), unevaluated=not ev)
            keep(m[0], "alias", ev, o)
        for k, (name, params, _sorts, kind, body) in enumerate(prog["macros"]):
            ev = self.evaluated(f"macro|{k}")
            if ev and any(self.k1(s) for s in body):
                ev = False
                self.note("cb: a macro that calls a macro without parameters is given unevaluated (known finding K1)")
            bb = L["ParallelBlockBuilder"]() if kind == "par" else L["SequentialBlockBuilder"]()
            self.cb_fill(bb, body, 1 if ev else 0, k, set(params), [])
            plist = [self.param_obj(k, p) if self.chance(f"plist|{k}|{p}", 0.25) else p for p in params]
            cb.macro(name, plist, bb, unevaluated=not ev)
            self.note("cb: macro " + ("built at once" + (" (calls other macros)" if any(has_call(s) for s in body) else "") if ev else "unevaluated"),
                      f"macro {name}: built at once (CircuitBuilder default)" if ev else None)
        self.cb_fill(cb, prog["main"], 0, None, None, [])
        return cb.build()

    def build(self):
        if self.route == "text":
            return parse_text(render(self.prog))
        if self.route.startswith("cb"):
            return self.cb_route()
        return self.sexpr_route()

    def how(self):
        t = self.trace[:14]
        return f"route {self.route}" + (f" (donor circuit: {self.donor_kind})" if self.donor_kind else "") + \
            (": " + "; ".join(t) + (" ..." if len(self.trace) > 14 else "") if t else "")


# ---------------------------------------------------------------------------------------------------------------
# oracles

ORACLES = ("C07_prebuilt_same_circuit", "C07_prebuilt_passes", "C07_prebuilt_accepts")
KNOWN_ORACLE = "C07_prebuilt_known_shapes"


def safe_eq(a, b):
    """-> True | False | "exception text" """
    out = guarded(lambda: a == b)
    if out[0] == "ok":
        return bool(out[1])
    return " ".join(map(str, out))[:200]


def safe_dump(c):
    L = lib()
    try:
        return L["dump"].circuit(c)
    except L["dump"].Undumpable:
        return None
    except Exception as e:  # noqa: BLE001
        return {"undumpable": f"{type(e).__name__}: {e}"[:200]}


def dump_difference(got, want):
    """where two circuit dumps differ, in words"""
    for part in ("keys", "constants", "registers", "natives", "usepulses"):
        if got.get(part) != want.get(part):
            return f"{part}: built {json.dumps(got.get(part))[:200]}, the text gives {json.dumps(want.get(part))[:200]}"
    for mg, mw in zip(got["macros"], want["macros"]):
        if mg != mw:
            d = stmt_dump_difference(mg["body"], mw["body"])
            return f"macro {mw['m']}" + (f" (parameters {mg['params']} against {mw['params']})" if mg["params"] != mw["params"] else "") + ": " + d
    return "main body: " + stmt_dump_difference(got["body"], want["body"])


def stmt_dump_difference(g, w):
    if g == w:
        return "(no difference)"
    if "b" in g and "b" in w and len(g["b"]) == len(w["b"]) and all(g.get(x) == w.get(x) for x in ("par", "sub", "it")):
        for j, (a, b) in enumerate(zip(g["b"], w["b"])):
            if a != b:
                return f"statement {j}: " + stmt_dump_difference(a, b)
    if "l" in g and "l" in w and g["l"] == w["l"]:
        return "loop body: " + stmt_dump_difference(g["body"], w["body"])
    return f"built {json.dumps(g)[:260]}, the text gives {json.dumps(w)[:260]}"


class Reference:
    """the text's circuit, the lexical reference and (lazily) what every pass sequence gives on the text's circuit"""

    def __init__(self, prog):
        self.prog = prog
        self.text = render(prog)
        self.error = self.text_violation = None
        self.lx = None
        try:
            self.lx = E.lex_program(prog, "text")
        except (E.LexError, ValueError) as e:
            self.error = f"generator: invalid program ({e})"
            return
        out = guarded(lambda: parse_text(self.text))
        if out[0] != "ok":
            self.error = "text refused: " + " ".join(map(str, out))[:200]
            return
        self.circuit = out[1]
        self.dump = safe_dump(self.circuit)
        self.passes = {}
        bad = E.judge_semantics(prog, self.lx, (), [], self.circuit)
        if bad:
            self.error = self.text_violation = "the text's own circuit is not the lexical reference: " + bad[0][:600]

    def after(self, seq):
        key = tuple(seq)
        if key not in self.passes:
            if not seq:
                self.passes[key] = ("ok", self.circuit)
            else:
                prev = self.after(seq[:-1])
                self.passes[key] = prev if prev[0] != "ok" else guarded(lambda: E.do_pass(prev[1], seq[-1]))
        return self.passes[key]


def check_same(ref, asm, c):
    """-> list of failure details for C07_prebuilt_same_circuit"""
    fails = []
    for d in E.judge_semantics(ref.prog, ref.lx, (), [], c)[:1]:
        fails.append("walking the built objects: " + d)
    for what, x, y in (("built == text's circuit", c, ref.circuit), ("text's circuit == built", ref.circuit, c)):
        r = safe_eq(x, y)
        if r is not True:
            fails.append(f"`{what}` is {r}")
            break
    if ref.dump is not None:
        d = safe_dump(c)
        if d is not None and d != ref.dump:
            fails.append("the dump differs, " + (dump_difference(d, ref.dump) if "undumpable" not in d else str(d)))
    if asm.donor is not None:
        r = safe_eq(asm.donor, ref.circuit)
        if r is not True:
            fails.append(f"after its objects were handed to the builder, the donor circuit ({asm.donor_kind}) == the text's circuit is {r}")
        if asm.donor_dump is not None:
            d = safe_dump(asm.donor)
            if d != asm.donor_dump:
                fails.append(f"handing the donor circuit's ({asm.donor_kind}) objects to the builder changed the donor circuit, "
                             + (dump_difference(d, asm.donor_dump) if d and "undumpable" not in d else str(d)))
    return fails


def check_passes(ref, c, seq):
    """-> (list of failure details for C07_prebuilt_passes, tag for the distribution)"""
    want = ref.after(seq)
    cur = ("ok", c)
    for p in seq:
        cur = guarded(lambda cur=cur: E.do_pass(cur[1], p))
        if cur[0] != "ok":
            break
    name = ".".join(seq)
    if cur[0] != "ok":
        what = " ".join(map(str, cur))[:260]
        if want[0] == "ok":
            return [f"{name} fails on the built circuit ({what}) but not on the text's circuit"], "pass fails on the built circuit only"
        return [], f"pass {name} fails on the text's circuit too ({want[0]}): not judged"
    if want[0] != "ok":
        return [f"{name} fails on the text's circuit ({' '.join(map(str, want))[:200]}) but not on the built one"], "pass fails on the text's circuit only"
    fails = []
    for d in E.judge_semantics(ref.prog, ref.lx, (), seq, cur[1])[:1]:
        fails.append(f"after {name} on the built circuit: " + d)
    for what, x, y in ((f"{name}(built) == {name}(text's circuit)", cur[1], want[1]), (f"{name}(text's circuit) == {name}(built)", want[1], cur[1])):
        r = safe_eq(x, y)
        if r is not True:
            fails.append(f"`{what}` is {r}")
            break
    return fails, f"pass judged: {name}"


def delete_place(prog, index):
    p2 = json.loads(json.dumps(prog))
    stmts, pos = simple_places(p2)[index]
    gone = stmts.pop(pos)
    return p2, gone


def judge_rejection(prog, route, salt, known, out):
    """the route did not return a circuit although the text is accepted -> (failure detail | None, tag)"""
    what = " ".join(map(str, out))[:300]
    alpha = guarded(Asm(E.alpha_prog(prog), route, salt, known).build)
    if alpha[0] == "ok":
        return (f"the route gives `{what}` but accepts the same program with its macro parameters renamed to fresh names"), "refused: judged (renaming)"
    accepted = []
    places = simple_places(prog)
    for index in range(min(len(places), 40)):
        p2, gone = delete_place(prog, index)
        if guarded(lambda p2=p2: parse_text(render(p2)))[0] != "ok":
            continue
        if guarded(Asm(p2, route, salt, known).build)[0] == "ok":
            accepted.append(r_stmt(gone))
            if len(set(accepted)) >= 2:
                a, b = sorted(set(accepted))[:2]
                return (f"the route gives `{what}`, but accepts the program without its statement `{a}` and also without its "
                        f"statement `{b}`: the refusal depends on a statement that is unrelated to the other"), "refused: judged (unrelated statement)"
    return None, f"refused: {out[0]}" + (f" {out[1]}" if out[0] == "exc" else "") + ", also when renamed (not judged)"


def _bump(res, key, by=1):
    res["distribution"][key] = res["distribution"].get(key, 0) + by


def _fail(res, oracle, case, detail):
    _bump(res, f"FAILURES recorded or dropped: {oracle}")
    lst = res["oracle"][oracle]["failures"]
    if len(lst) < 20:
        lst.append({"case": case, "detail": detail})


def _case(oracle, prog, route, salt, passes, known, how):
    text = render(prog)
    return {"oracle": oracle, "prog": prog, "route": route, "salt": salt, "passes": list(passes), "known": bool(known),
            "how": how[:1500], "text": text if len(text) < 3000 else text[:3000] + " ..."}


def run_variant(res, ref, route, salt, pass_seqs, known=False, names=ORACLES):
    same_name, pass_name, acc_name = names
    prog = ref.prog
    asm = Asm(prog, route, salt, known)
    out = guarded(asm.build)
    _bump(res, f"route: {route}")
    for k, v in asm.counts.items():
        _bump(res, k, v)
    if out[0] != "ok":
        res["oracle"][acc_name]["cases"] += 1
        detail, tag = judge_rejection(prog, route, salt, known, out)
        _bump(res, tag)
        if detail:
            _fail(res, acc_name, _case(acc_name, prog, route, salt, [], known, asm.how()), f"{asm.how()}: {detail}")
        return
    c = out[1]
    res["oracle"][same_name]["cases"] += 1
    fails = check_same(ref, asm, c)
    if fails:
        _fail(res, same_name, _case(same_name, prog, route, salt, [], known, asm.how()), f"{'; '.join(fails[:3])}   [{asm.how()}]")
    for seq in pass_seqs:
        res["oracle"][pass_name]["cases"] += 1
        fails, tag = check_passes(ref, c, seq)
        _bump(res, tag)
        if fails:
            _fail(res, pass_name, _case(pass_name, prog, route, salt, seq, known, asm.how()), f"{'; '.join(fails[:3])}   [{asm.how()}]")


def features(prog):
    f = []
    lets = {l[0] for l in prog["lets"]}
    regs = {prog["reg"][0]}
    als = {m[0] for m in prog["maps"]}
    allparams = {}
    for k, m in enumerate(prog["macros"]):
        for p, s in zip(m[1], m[2]):
            if p in lets:
                f.append(f"collision: {s} parameter named like a let")
            if p in regs:
                f.append(f"collision: {s} parameter named like the register")
            if p in als:
                f.append(f"collision: {s} parameter named like an alias")
            if p in allparams:
                f.append("collision: two macros share a parameter name")
            if p in PLACEHOLDER_NAMES:
                f.append("collision: parameter named like a placeholder (p0, p1, ...)")
        for p in m[1]:
            allparams.setdefault(p, k)
        counts = {}

        def walk(stmts, nest):
            for s in stmts:
                if s[0] == "call":
                    counts.setdefault(s[1], []).append((r_stmt(s), nest))
                    callee = next(x for x in prog["macros"] if x[0] == s[1])
                    for a, p in zip(s[2], callee[1]):
                        if a[0] == "id" and a[1] == p:
                            f.append("call: argument named like the callee's parameter")
                elif s[0] != "gate":
                    walk(children(s), nest + [s[0] if s[0] != "loop" else "loop"])

        walk(m[4], [])
        for callee, lst in counts.items():
            if len(lst) >= 2:
                f.append(f"macro body: one callee called {min(len(lst), 6)}{'+' if len(lst) > 6 else ''} times")
                texts = [t for t, _n2 in lst]
                f.append("macro body: the calls of one callee are " + ("all the same text" if len(set(texts)) == 1 else
                                                                       "all different" if len(set(texts)) == len(texts) else "partly the same text"))
                if any(n2 for _t, n2 in lst):
                    f.append("macro body: repeated callee inside " + "/".join(sorted({x for _t, n2 in lst for x in n2})))
        if len(counts) >= 2:
            f.append("macro body: calls of two or more different callees")
    sigs = {}
    for m in prog["macros"]:
        if m[1]:
            sigs.setdefault(tuple(m[2]), []).append(m[0])
    if any(len(v) > 1 for v in sigs.values()):
        f.append("two macros with the same signature")
    depth = {}
    for m in prog["macros"]:
        called = [s for s in _all_calls(m[4])]
        depth[m[0]] = 1 + max([depth.get(c, 0) for c in called], default=0)
    f.append(f"macro call depth: {min(max(depth.values(), default=0), 5)}")
    return E.dedupe(f)


def _all_calls(stmts):
    for s in stmts:
        if s[0] == "call":
            yield s[1]
        elif s[0] != "gate":
            yield from _all_calls(children(s))


# ---------------------------------------------------------------------------------------------------------------
# main entry points


def known_default():
    return os.environ.get("C07_PREBUILT_KNOWN", "") not in ("", "0")


def run(seed: int, n: int, driver: str = DEFAULT_DRIVER, thorough: bool = False, known=None) -> dict:
    lib()
    if known is None:
        known = known_default()
    rng = random.Random(seed)
    names = ORACLES + ((KNOWN_ORACLE,) if known else ())
    res = {"corr": {}, "oracle": {o: {"cases": 0, "failures": []} for o in names},
           "distribution": {}, "samples": [], "nontrivial": 0}
    routes = THOROUGH_ROUTES if thorough else QUICK_ROUTES
    distinct = set()

    def one(prog, k, fixed):
        ref = Reference(prog)
        if ref.text_violation:  # C07 on plain text: the business of the other C07 streams, but a violation all the same
            res["oracle"][ORACLES[0]]["cases"] += 1
            _fail(res, ORACLES[0], _case(ORACLES[0], prog, "text", 0, [], False, "route text"), ref.text_violation)
        if ref.error:
            _bump(res, ref.error[:120])
            return
        distinct.add(ref.text)
        _bump(res, "programs: fixed" if fixed else "programs: generated")
        for j, route in enumerate(routes + (ROUTES if fixed and not thorough else [])):
            salt = rng.randrange(1 << 30)
            if thorough or fixed:
                seqs = PASS_SEQS
            else:
                seqs = [PASS_SEQS[0], PASS_SEQS[1 + (k + j) % (len(PASS_SEQS) - 1)]] + ([PASS_SEQS[3]] if j % 3 == 0 else [])
            run_variant(res, ref, route, salt, seqs)

    for k, prog in enumerate(fixed_programs()):
        one(prog, k, True)
    for k in range(n):
        gen = Gen(rng)
        prog = gen.program()
        _bump(res, f"macros per program: {len(prog['macros'])}")
        _bump(res, "statement texts re-used from the pool", gen.reused)
        _bump(res, "macro twins (same signature as an earlier macro)", gen.twins)
        for b in gen.bursts:
            _bump(res, f"burst: {b} calls of one callee planted in one body")
        for r in gen.relations:
            _bump(res, f"burst: a later call against the first - {r}")
        for w in gen.placements:
            _bump(res, f"burst call placed in: {w}")
        for f in features(prog):
            _bump(res, f)
        one(prog, k, False)
        if k < 4:
            res["samples"].append({"text": render(prog)[:2000]})
    if known:
        # the shapes of the known findings: judged with the same three rules, reported under one separate oracle
        kres = {"oracle": {o: {"cases": 0, "failures": []} for o in ORACLES}, "distribution": {}}
        progs = known_programs()
        for k in range(max(4, n // 4)):
            progs.append(Gen(rng, known=True).program())
        for prog in progs:
            ref = Reference(prog)
            if ref.error:
                _bump(res, "known shapes: " + ref.error[:100])
                continue
            distinct.add(ref.text)
            for route in ("cb-default", "cb-mixed", "alone", "mixed", "pieces"):
                run_variant(kres, ref, route, rng.randrange(1 << 30), PASS_SEQS[:2], known=True)
        for o in ORACLES:
            res["oracle"][KNOWN_ORACLE]["cases"] += kres["oracle"][o]["cases"]
            for f in kres["oracle"][o]["failures"]:
                f["case"]["oracle"] = KNOWN_ORACLE
                f["case"]["rule"] = o
                if len(res["oracle"][KNOWN_ORACLE]["failures"]) < 20:
                    res["oracle"][KNOWN_ORACLE]["failures"].append(f)
        _bump(res, "known shapes: programs", len(progs))
    res["nontrivial"] = len(distinct)
    return res


def replay(case: dict, driver: str = DEFAULT_DRIVER) -> dict:
    lib()
    prog, route, salt = case["prog"], case["route"], case["salt"]
    known = bool(case.get("known"))
    oracle = case.get("rule") or case.get("oracle", ORACLES[0])
    seq = list(case.get("passes", []))
    ref = Reference(prog)
    if ref.error:
        return {"oracle_ok": False if ref.text_violation else None, "detail": ref.error}
    asm = Asm(prog, route, salt, known)
    out = guarded(asm.build)
    impl = {"outcome": "accepted" if out[0] == "ok" else out[0], "message": "" if out[0] == "ok" else " ".join(map(str, out[1:]))[:300],
            "how": asm.how()[:1500]}
    if oracle.endswith("_accepts"):
        if out[0] == "ok":
            return {"oracle_ok": True, "detail": "the route accepts the program", "impl": impl}
        detail, tag = judge_rejection(prog, route, salt, known, out)
        return {"oracle_ok": detail is None, "detail": detail or tag, "impl": impl}
    if out[0] != "ok":
        return {"oracle_ok": None, "detail": f"the route does not return a circuit: {impl}", "impl": impl}
    if oracle.endswith("_passes"):
        fails, _tag = check_passes(ref, out[1], seq)
    else:
        fails = check_same(ref, asm, out[1])
    return {"oracle_ok": not fails, "detail": "; ".join(fails)[:2000], "impl": impl}


def main():
    ap = argparse.ArgumentParser()
    ap.add_argument("--driver", default=DEFAULT_DRIVER)
    ap.add_argument("--seed", type=int, default=0)
    ap.add_argument("--n", type=int, default=100)
    ap.add_argument("--thorough", action="store_true")
    ap.add_argument("--known", action="store_true")
    ap.add_argument("--json", action="store_true")
    a = ap.parse_args()
    res = run(a.seed, a.n, a.driver, a.thorough, known=True if a.known else None)
    if a.json:
        print(json.dumps(res, indent=1))
    bad = 0
    for name, r in res["oracle"].items():
        print(f"oracle {name}: {r['cases']} cases, {len(r['failures'])} failures (first 20 kept)")
        for d in r["failures"][:4]:
            print("  FAIL", d["detail"][:900])
            print("       " + d["case"]["text"][:1500].replace("\n", "\n       "))
            rp = replay(d["case"])
            print("       replay:", rp["oracle_ok"], str(rp["detail"])[:300])
        bad += len(r["failures"])
    print("distinct programs:", res["nontrivial"])
    for k in sorted(res["distribution"]):
        print(f"  {res['distribution'][k]:7d}  {k}")
    sys.exit(1 if bad else 0)


if __name__ == "__main__":
    main()
