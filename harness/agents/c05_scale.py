#!/venv/bin/python
"""C05, fourth strengthening round: SCALE, IDENTIFIER SPELLINGS and DEFAULTS / ENTRY POINTS of let substitution.

    PYTHONPATH=/verif /venv/bin/python /verif/harness/agents/c05_scale.py [--seed 0] [--n 150] [--thorough]

Oracles only (`corr` is empty).  A case is a small SPEC (stream, dimension, size, a random seed) from which the program is
rebuilt deterministically (so a 1000-statement / depth-257 program never has to be stored), a list of override
dictionaries applied one after the other to ONE parsed circuit, and an entry point.  The REFERENCE is this script's: the
syntax tree of the program evaluated in the environment (override value if given, else declared value) with registers
and aliases as arithmetic progressions over the fundamental register (the interpreter of c05_edge.py, generalised here
to any register name and any typed gate set).  Nothing of the library's let machinery is used to compute it.

streams
  scale     programs whose size along ONE dimension crosses 8 / 16 / 32 / 64 / 128 / 200 / 256 (/ 1000 where cheap) while
            everything else stays small:
              statements   one block (top level, loop body, subcircuit, macro body, parallel block, nested block) with that
                           many statements; the constants are mentioned by no statement of the block / the first / the
                           middle / the last / every one / a few of them, while the register size and the alias bounds the
                           statements index with literals ARE constants (the override moves / shrinks / grows them)
              depth        nesting depth of loop / sequential / parallel blocks, constants at the bottom and as counts
              lets         number of declared constants (plain, dotted, look-alike pairs c7 / cal.c7), override dictionaries
                           over every 2nd / the first / the last / the upper half / all of them
              aliases      number of map aliases over the register (single qubits, slices, whole) with constant bounds
              chain        length of a chain of aliases of aliases with constant starts / steps (<= 130; the library is cubic
                           in it: the quick tier stops at 66, the thorough tier runs 100 .. 130)
              macros       number of macros whose bodies use constants;  mchain: depth of a chain of macros calling macros
                           with parameters that shadow constants half-way
              params/args  number of macro parameters (some shadowing constants) / of arguments of one gate
              namelen      identifier length (.. 255 / 256 / 257 / 1000), pairs that differ only in the LAST character
              regsize      overridden register size with the index size-1 and the alias stop size
              history      that many successive fill_in_let calls on ONE parsed circuit
              emu          registers of 10 .. 14 qubits through the real emulator (X on constant qubits, constant loop
                           count) against the closed form and against the program with literals
  ident     the fixed one-constant-per-position program of c05_edge (17 constants) and generated programs, with EVERY
            identifier (constants, register, aliases, macros, macro parameters, gates) respelt through an injective renaming,
            and "family" programs whose 20 .. 30 constants ALL belong to one look-alike family, about half of them overridden:
            look-alike families over one base (x, cal.x, x.cal, cal.x.x, ns.cal.x, __x, x__, __x__, _x, X, x.0, x0 ..),
            prefixes / extensions of keywords (le, lets, let.x, loo, loops, ma, reg, sub, fro ..), of prepare_all /
            measure_all, the builder's S-expression tags (gate, circuit, sequential_block, array_item, ..), anonymous
            parameter names (p0, p1, p10), __in_context__, dunder names (__macro__, __c10, __r0); the grammar accepts all of
            them in all positions (IDENTIFIER = [a-zA-Z_](\\.?[a-zA-Z0-9_])*)
  defaults  generated programs x every way of calling the pass: fill_in_let(c) / (c, None) / (c, {}) / (c, ov) /
            (circuit=, override_dict=), parse_jaqal_string(expand_let=True[, override_dict omitted / None / {} / ov])
            [x return_usepulses=True] [x expand_macro=True] [expand_let_map=True], parse_jaqal_file; override values int,
            float, numpy.float64 and numpy integers (int64 / int32 / uint8: accepted values must be exact, acceptance itself
            is not demanded), one to three usepulses statements

oracle (names as in c05_edge.py)
  no_constant_left        no gate argument, qubit index, register size, alias bound, loop count or subcircuit count of the
                          result (body, macro bodies, registers, the registers the qubits of the body belong to, and the macro
                          definition each call statement of the result is bound to) is a Constant
  value_exact             every such position holds exactly the value of ITS constant in the chosen environment, every qubit
                          resolves to the fundamental index the reference computes within the new register size, every alias
                          denotes the progression the reference computes; macro parameters are left alone
  frame_preserved         block kinds, subcircuit flags, loop / gate skeleton, macro names and parameter names, native gates,
                          usepulses, register names are those of the original
  meaning_expanded        expand_macros(result) (resp. the result of expand_let + expand_macro), normalised, equals the
                          call-by-value interpretation of the program in the environment; for expand_let_map: the result
                          equals the library's own result for the program with the numbers written as literals
  invalid_env_rejected    an environment in which the program has no meaning (index outside the new size, size < 1, step 0,
                          non-integral value in an integer position) is refused, by every entry point
  rejection_is_jaqal_error  ... with JaqalError (informational, as in c05_edge)
  valid_env_accepted      an environment in which the reference evaluates every position is not refused
  emulated_register       emulator outcome of the filled-in circuit on 10 .. 14 qubits == closed form == program with literals
  terminates              every library call returns within the alarm

Not generated (open finding defaulted-stop-frozen): defaulted slice stops over aliases.  Grey zones as in c05_edge.
"""
import argparse
import json
import os
import random
import signal
import sys
import tempfile
import warnings
from collections import Counter

from harness.agents import c05_edge as E

DEFAULT_DRIVER = "/verif/lean/.lake/build/bin/jaqal-model"
NPINT = ("int64", "int32", "uint8", "int16", "uint64")

L, I = E.L, E.I


def _imports():
    global np, T, GATES, parse_jaqal_string, parse_jaqal_file, fill_in_let, expand_macros, JaqalError
    global GateStatement, BlockStatement, LoopStatement, Parameter, Constant, NamedQubit, Register, GateDefinition, ParamType, Macro
    E._imports()
    import numpy as np
    from harness import timeouts as T
    from harness.gates import GATES
    from jaqalpaq.parser import parse_jaqal_string, parse_jaqal_file
    from jaqalpaq.core.algorithm import expand_macros, fill_in_let
    from jaqalpaq.core.gate import GateStatement
    from jaqalpaq.core.block import BlockStatement, LoopStatement
    from jaqalpaq.core.parameter import Parameter, ParamType
    from jaqalpaq.core.constant import Constant
    from jaqalpaq.core.register import NamedQubit, Register
    from jaqalpaq.core import GateDefinition
    from jaqalpaq.core.macro import Macro
    from jaqalpaq.error import JaqalError


# ------------------------------------------------------------------------------------------------
# values

def enc(v):
    tn = type(v).__name__
    if tn in NPINT:
        return {"npint": [tn, str(int(v))]}
    return E.enc(v)


def dec(e):
    if "npint" in e:
        return getattr(np, e["npint"][0])(int(e["npint"][1]))
    return E.dec(e)


def plain(v):
    """the number an override value denotes (numpy integers are integers)"""
    return int(v) if type(v).__name__ in NPINT else v


def ov_enc(ov):
    return [[k, enc(v)] for k, v in ov.items()]


def ov_dec(l):
    return {k: dec(v) for k, v in l}


# ------------------------------------------------------------------------------------------------
# programs (the syntax tree of c05_edge, plus  "reg": name of the fundamental register,  "sig": {gate: "qif.."} typed
# gate set,  "usepulses": number of usepulses lines)

def g(name, *a):
    return ["gate", name, list(a)]


def q(src, e):
    return ["q", src, e]


def num(e):
    return ["num", e]


def render(prog):
    reg = prog.get("reg", "r")
    out = []
    for j in range(int(prog.get("usepulses") or 0)):
        out.append("from c05edge.pulses usepulses *" if j == 0 else f"from c05scale.p{j % 2} usepulses *")
    for name, v in prog["lets"]:
        out.append(f"let {name} {E.lit_text(E.dec(v))}")
    out.append(f"register {reg}[{E.r_expr(prog['size'])}]")
    for m in prog["maps"]:
        if m[1] == "whole":
            out.append(f"map {m[0]} {m[2]}")
        elif m[1] == "single":
            out.append(f"map {m[0]} {m[2]}[{E.r_expr(m[3])}]")
        else:
            a, e, s = E.r_expr(m[3]), E.r_expr(m[4]), E.r_expr(m[5])
            out.append(f"map {m[0]} {m[2]}[{a}:{e}" + (f":{s}" if m[5] is not None else "") + "]")
    for name, params, body in prog["macros"]:
        out.append(f"macro {name} " + "".join(p + " " for p in params) + E.r_stmt(body))
    for s in prog["body"]:
        out.append(E.r_stmt(s))
    return "\n".join(out) + "\n"


def literal_text(prog, env):
    """the program with every constant written as a literal (no let line left)"""
    def ex(e, params):
        if e is None or e[0] == "lit" or e[1] in params or e[1] not in env:
            return e
        v = env[e[1]]
        if isinstance(v, float):
            v = float(v)                      # numpy.float64 prints as np.float64(..)
            if v == int(v):
                v = int(v)
        return L(v)

    def arg(a, params):
        if a[0] == "num":
            return ["num", ex(a[1], params)]
        if a[0] == "q":
            return ["q", a[1], ex(a[2], params)]
        if a[1] in params or a[1] not in env:
            return a
        return ["num", ex(a, params)]

    def st(s, params):
        if s[0] == "gate":
            return ["gate", s[1], [arg(a, params) for a in s[2]]]
        if s[0] == "loop":
            return ["loop", ex(s[1], params), st(s[2], params)]
        if s[0] == "sub":
            return ["sub", ex(s[1], params), [st(x, params) for x in s[2]]]
        return [s[0], [st(x, params) for x in s[1]]]

    p = dict(prog)
    p["lets"] = []
    p["size"] = ex(prog["size"], ())
    p["maps"] = [m[:3] + [ex(e, ()) for e in m[3:]] for m in prog["maps"]]
    p["macros"] = [[n, ps, st(b, ps)] for n, ps, b in prog["macros"]]
    p["body"] = [st(s, ()) for s in prog["body"]]
    return render(p)


class Ref(E.Ref):
    """c05_edge's interpreter over any register name and any typed gate set"""

    def __init__(self, prog, env):
        self.regname = prog.get("reg", "r")
        super().__init__(prog, env)

    def sigs(self):
        if "sig" in self.prog:
            return self.prog["sig"]
        return E.Ref.sigs(self)

    def stmt(self, s, params=(), in_macro=False):
        # as c05_edge's, with list comprehensions (a generator expression per level costs C stack: depth 256 must fit)
        k = s[0]
        if k == "gate":
            return self.gate(s, params, in_macro)
        if k == "loop":
            return ("l", self.count(s[1], params, "loop count"), self.stmt(s[2], params, in_macro))
        if k == "sub":
            return ("b", False, True, self.count(s[1], params, "subcircuit count"), tuple([self.stmt(x, params, in_macro) for x in s[2]]))
        return ("b", k == "par", False, ("n", 1), tuple([self.stmt(x, params, in_macro) for x in s[1]]))

    def header(self):
        Invalid, int_pos, Reg, Qb, rlen = E.Invalid, E.int_pos, E.Reg, E.Qb, E.rlen
        n = int_pos(self.val(self.prog["size"]), "register size")
        if n < 1:
            raise Invalid(f"register size {n}")
        self.N = n
        self.regs[self.regname] = Reg(self.regname, n, fund_size=n)
        for m in self.prog["maps"]:
            name, kind, src = m[0], m[1], self.regs[m[2]]
            if isinstance(src, Qb):
                raise Invalid(f"map {name}: {m[2]} is a qubit")
            if kind == "whole":
                self.regs[name] = Reg(name, src.size, src.base, src.step, n)
            elif kind == "single":
                i = int_pos(self.val(m[3]), f"index of map {name}")
                if not 0 <= i < src.size:
                    raise Invalid(f"map {name} {m[2]}[{i}] outside size {src.size}")
                self.regs[name] = Qb(name, src.elem(i), n)
            else:
                a = 0 if m[3] is None else int_pos(self.val(m[3]), f"start of map {name}")
                s = 1 if m[5] is None else int_pos(self.val(m[5]), f"step of map {name}")
                e = src.size if m[4] is None else int_pos(self.val(m[4]), f"stop of map {name}")
                if s == 0:
                    raise Invalid(f"map {name}: step 0")
                k = rlen(a, e, s)
                if k > 0:
                    first, last = a, a + (k - 1) * s
                    if not (0 <= first < src.size and 0 <= last < src.size):
                        raise Invalid(f"map {name} {m[2]}[{a}:{e}:{s}] leaves size {src.size}")
                if a < 0 or e > src.size:
                    self.grey.append(f"slice {a}:{e}:{s} with a bound outside size {src.size} selecting inside")
                self.regs[name] = Reg(name, k, src.elem(a) if k else 0, src.step * s, n)


_CLOSE = object()


def cflat(t):
    """canonical form of a tree as a FLAT token list (numbers by value: 2.0 == 2; no recursion: trees are up to 800 deep)"""
    out = []
    stack = [t]
    while stack:
        x = stack.pop()
        if x is _CLOSE:
            out.append(")")
        elif isinstance(x, (tuple, list)):
            if len(x) == 2 and x[0] == "n" and not isinstance(x[1], (tuple, list)):
                v = x[1]
                if isinstance(v, float) and v != v:
                    v = "nan"
                elif isinstance(v, float) and E.finite(v) and v == int(v):
                    v = int(v)
                out.append(("n", v))
            else:
                out.append("(")
                stack.append(_CLOSE)
                stack.extend(reversed(x))
        else:
            out.append(x)
    return out


def sflat(t):
    """the skeleton (kinds, flags, gate names, arities) of a statement tree as a flat token list"""
    out = []
    stack = [t]
    while stack:
        x = stack.pop()
        if x is _CLOSE:
            out.append(")")
        elif x[0] == "g":
            out.append(("g", x[1], len(x[2])))
        elif x[0] == "l":
            out.append("loop(")
            stack.append(_CLOSE)
            stack.append(x[2])
        elif x[0] == "b":
            out.append(("b", x[1], x[2]))
            out.append("(")
            stack.append(_CLOSE)
            stack.extend(reversed(x[4]))
        else:
            out.append(("?",) + tuple(x[1:2]))
    return out


def explain(f, *a):
    """a diff message of c05_edge (recursive) — or a plain statement when the trees are too deep for it"""
    try:
        return f(*a)
    except RecursionError:
        return "the trees differ (too deep to print the first difference)"


# ------------------------------------------------------------------------------------------------
# reading the library's result (c05_edge's reader over any register name)

def _size_of(r, consts):
    s = r.size
    if isinstance(s, Constant):
        consts.append(f"size of {r.name} is the constant {s.name}")
        s = s.value
    return int(s)


def impl_reg(r, consts, regname, light=False):
    size = _size_of(r, consts)
    idx = [] if light else sorted({i for i in (0, 1, 2, size - 1, size // 2) if 0 <= i < size})
    el = []
    fs = None
    for i in idx:
        fr, fi = r.resolve_qubit(i)
        fs = _size_of(fr, consts) if fr.name == regname else ("not the register", fr.name)
        el.append((i, fi))
    if fs is None:
        f = r
        while not f.fundamental:
            f = f.alias_from
        fs = _size_of(f, consts)
    return ("reg", fs, size, tuple(el))


def impl_arg(v, consts, regname):
    if isinstance(v, NamedQubit):
        E.scan_reg_consts(v, consts)
        af, ai = v.alias_from, v.alias_index
        if isinstance(af, Parameter):
            return ("qp", af.name, E.impl_num(ai, consts, f"index of {v.name}"))
        if isinstance(ai, Parameter):
            return ("qi", impl_reg(af, consts, regname), ("p", ai.name))
        if isinstance(ai, Constant):
            fr, fi = af.resolve_qubit(int(ai.value))
        else:
            fr, fi = v.resolve_qubit()
        fsz = fr.size
        if isinstance(fsz, Constant):
            fsz = fsz.value
        if not fr.fundamental or fr.name != regname:
            return ("?", "resolves to", fr.name)
        return ("q", int(fsz), fi)
    if isinstance(v, Register):
        E.scan_reg_consts(v, consts)
        return impl_reg(v, consts, regname)
    return E.impl_num(v, consts, "gate argument")


_SEEN = {}


def impl_stmt(s, consts, regname):
    if isinstance(s, GateStatement):
        gd = getattr(s, "gate_def", None)
        if isinstance(gd, Macro) and id(gd) not in _SEEN:
            # the definition a call is bound to belongs to the result as well (walkers follow it): no constant there either
            _SEEN[id(gd)] = gd
            sub = []
            impl_stmt(gd.body, sub, regname)
            consts.extend(x if "a call of the result is bound to" in x else
                          f"{x} (in the definition of {gd.name} a call of the result is bound to)" for x in sub)
        return ("g", s.name, tuple([impl_arg(v, consts, regname) for v in s.parameters.values()]))
    if isinstance(s, LoopStatement):
        return ("l", E.impl_num(s.iterations, consts, "loop count"), impl_stmt(s.statements, consts, regname))
    if isinstance(s, BlockStatement):
        it = E.impl_num(s.iterations, consts, "subcircuit count") if s.subcircuit else ("n", 1)
        return ("b", bool(s.parallel), bool(s.subcircuit), it, tuple([impl_stmt(x, consts, regname) for x in s.statements]))
    return ("?", type(s).__name__)


def light_names(names):
    """with more than 40 registers (resolve_qubit is quadratic in the length of an alias chain) the elements of most
    of them are not sampled: sizes of all, elements of the first / last three and of every 8th"""
    names = list(names)
    if len(names) <= 40:
        return set()
    return {n for i, n in enumerate(names) if not (i < 3 or i >= len(names) - 3 or i % 8 == 0)}


def lighten(regs, light):
    return tuple((n, (d[0], d[1], d[2], ()) if (n in light and d[0] == "reg") else d) for n, d in regs)


def impl_tree(c, regname):
    _SEEN.clear()
    consts = []
    regs = []
    light = light_names(c.registers)
    for name, r in c.registers.items():
        E.scan_reg_consts(r, consts)
        if isinstance(r, NamedQubit):
            regs.append((name, impl_arg(r, consts, regname)))
        else:
            regs.append((name, impl_reg(r, consts, regname, name in light)))
    macros = []
    for name, m in c.macros.items():
        macros.append((name, tuple(p.name for p in m.parameters), impl_stmt(m.body, consts, regname)))
    body = impl_stmt(c.body, consts, regname)
    return (tuple(regs), tuple(macros), body), consts


_GD = {}


def gates_of(prog):
    if "sig" in prog:
        key = json.dumps(sorted(prog["sig"].items()))
        if key not in _GD:
            ty = {"q": ParamType.QUBIT, "i": ParamType.INT, "f": ParamType.FLOAT}
            _GD[key] = {name: GateDefinition(name, [Parameter(f"a{j}", ty[ch]) for j, ch in enumerate(s)])
                        for name, s in prog["sig"].items()}
        return _GD[key]
    return E.gates_for(prog["mode"])


def parse_kw(prog):
    kw = {"autoload_pulses": False}
    gs = gates_of(prog)
    if gs is not None:
        kw["inject_pulses"] = gs
    return kw


# ------------------------------------------------------------------------------------------------
# stream "scale"

SIZES = [7, 8, 9, 15, 16, 17, 31, 32, 33, 40, 48, 49, 63, 64, 65, 100, 127, 128, 129, 199, 200, 201, 255, 256, 257]
DIM_SIZES = {
    "statements": SIZES + [300, 1000],
    "depth": SIZES,
    "lets": SIZES + [1000],
    "aliases": SIZES + [500],
    "chain": [7, 8, 9, 15, 16, 17, 31, 32, 33, 34, 40, 63, 64, 65, 66, 100, 127, 128, 129, 130],
    "macros": SIZES + [1000],
    "mchain": SIZES,
    "params": SIZES,
    "args": SIZES + [1000],
    "namelen": [8, 16, 32, 63, 64, 65, 127, 128, 129, 254, 255, 256, 257, 300, 1000],
    "regsize": SIZES + [1000, 4096, 65536],
    "history": [8, 9, 16, 17, 32, 33, 34, 64, 65, 128, 130],
    "emu": [10, 11, 12, 13, 14],
}
DIMS = list(DIM_SIZES)
# what a dimension costs per case grows with the size: the quick tier samples the big ones less often
HEAVY = {"chain": 40, "emu": 13, "history": 65, "aliases": 257}


def _mk(lets, size, maps, macros, body, mode="gates", **kw):
    p = {"mode": mode, "usepulses": 0, "lets": [[k, E.enc(v)] for k, v in lets], "size": size, "maps": maps, "macros": macros,
         "body": body}
    p.update(kw)
    return p


def _names(mode):
    """gate names for (qubit), (float, qubit), (qubit, int)"""
    return ("X", "PF", "P") if mode == "gates" else ("Ga", "Gb", "Gc")


def b_statements(s, rng, forced=None):
    mode = "gates" if rng.random() < 0.65 else "nogates"
    GX, GPF, GP = _names(mode)
    loc = rng.choice(["top", "top", "loop", "sub", "macro", "par", "inner", "loop"])
    pat = forced or rng.choice(["none", "none", "none", "first", "middle", "last", "all", "sparse"])
    lets = [("n", 6), ("a", 1), ("e", 5), ("k", 1), ("th", 0.5), ("c", 2)]
    which = rng.choice(["size", "alias", "both", "both"])
    size = I("n") if which in ("size", "both") else L(6)
    if which in ("alias", "both"):
        a0, a1 = rng.choice([(I("a"), I("e")), (I("a"), L(5)), (L(1), I("e"))])
    else:
        a0, a1 = L(1), L(5)
    maps = [["al", "slice", "r", a0, a1, None]]
    has_b = rng.random() < 0.4
    if has_b:
        maps.append(["b", "slice", "al", L(0), L(2), None])
    has_q1 = rng.random() < 0.3
    if has_q1:
        # (a qubit alias with a constant index is itself a mention of a constant wherever it is used)
        maps.append(["q1", "single", "r", I("k") if (rng.random() < 0.5 and pat != "none") else L(2)])
    edge_last = rng.random() < 0.6

    def lit(i):
        if edge_last and i == s - 1:
            return rng.choice([g(GX, q("r", L(5))), g(GX, q("al", L(3)))])
        c = (i * 7 + 3) % 5
        if c == 0:
            return g(GX, q("al", L(i % 2)))
        if c == 1:
            return g(GX, q("r", L(i % 3)))
        if c == 2:
            return g(GPF, num(L(0.25)), q("al", L(1)))
        if c == 3:
            return g(GP, q("r", L(2)), num(L(1)))
        if has_b:
            return g(GX, q("b", L(i % 2)))
        if has_q1:
            return g(GX, I("q1"))
        return g(GX, q("al", L(2)))

    def con(i):
        c = i % 4
        if c == 0:
            return g(GPF, num(I("th")), q("r", L(i % 2)))
        if c == 1:
            return g(GX, q("al", I("k")))
        if c == 2:
            return g(GP, q("r", L(0)), num(I("c")))
        return g(GX, q("r", I("k")))

    mention = {"none": set(), "first": {0}, "middle": {s // 2}, "last": {s - 1}, "all": set(range(s)),
               "sparse": {i for i in range(s) if i % 37 == 5}}[pat]
    stmts = [con(i) if i in mention else lit(i) for i in range(s)]
    macros = []
    cnt = rng.choice([I("c"), L(2), L(3)])
    if loc == "top":
        body = stmts
    elif loc == "loop":
        body = [g(GX, q("r", L(0))), ["loop", cnt, ["seq", stmts]]]
    elif loc == "sub":
        body = [["sub", rng.choice([I("c"), None, L(2)] if pat != "none" else [None, L(2)]), stmts], g(GX, q("r", I("k")))]
    elif loc == "macro":
        macros = [["M", ["x"], ["seq", stmts + [g(GX, I("x"))]]]]
        body = [g("M", q("r", L(0))), ["loop", cnt, ["seq", [g("M", q("al", L(0)))]]]]
    elif loc == "par":
        body = [["par", stmts], g(GX, q("al", I("k")))]
    else:
        body = [["par", [g(GX, q("r", L(0))), ["seq", stmts]]]]
    prog = _mk(lets, size, maps, macros, body, mode)
    cand = {"n": [5, 6, 7, 8, 3, 100, 7.0], "a": [0, 2, 3, 2.0], "e": [4, 6, 5, 3, 4.0], "k": [0, 2, 3, 0.0], "th": [0.75, 2, 1.5, -0.0],
            "c": [0, 1, 3, 3.0]}
    pri = [x for x, e in (("n", size), ("a", a0), ("e", a1)) if e[0] == "id"]
    return prog, cand, pri, {"block": loc, "constants mentioned by": pat, "constant in": which, "mode": mode}


def b_depth(d, rng):
    mode = "gates" if rng.random() < 0.6 else "nogates"
    GX, GPF, GP = _names(mode)
    lets = [("n", 4), ("k", 1), ("th", 0.5), ("c", 2), ("c1", 1), ("a", 1)]
    maps = [["al", "slice", "r", I("a"), L(4), None]]
    inner = ["seq", [g(GPF, num(I("th")), q("r", I("k"))), g(GX, q("al", I("k"))), g(GP, q("r", L(0)), num(I("c")))]]
    where = rng.randrange(d)
    style = rng.choice(["loops", "mixed", "mixed", "par"])
    cur = inner
    for lev in range(d - 1):
        sib = [g(GX, q("r", I("k")))] if lev == where else ([g(GX, q("r", L(lev % 3)))] if lev % 5 == 0 else [])
        cnt = I(rng.choice(["c", "c1"])) if (lev % 3 == 0 or lev == where) else L(1 + lev % 2)
        kind = "loop" if style == "loops" else ("par" if style == "par" and lev % 2 else ("loop", "par", "loop")[lev % 3])
        if kind == "loop":
            if cur[0] in ("seq", "par"):
                if sib and cur[0] == "seq":
                    cur = ["loop", cnt, ["seq", sib + [["loop", L(1), cur]]]]
                else:
                    cur = ["loop", cnt, cur]
            else:
                cur = ["loop", cnt, ["seq", sib + [cur]]]
        else:
            if cur[0] != "seq":
                cur = ["seq", [cur]]
            cur = ["par", sib + [cur]]
    macros = []
    if rng.random() < 0.3:
        macros = [["M", ["x"], cur if cur[0] in ("seq", "par") else ["seq", [cur]]]]
        body = [g("M", q("r", L(0)))]
    elif rng.random() < 0.3 and style != "par":
        body = [["sub", I("c"), [cur]]]
    else:
        body = [cur, g(GX, q("r", I("k")))]
    prog = _mk(lets, I("n"), maps, macros, body, mode)
    cand = {"n": [4, 5, 8, 4.0], "k": [0, 2, 1.0, 3], "th": [0.75, 2, -1.5], "c": [0, 1, 3, 3.0], "c1": [2, 0, 1.0], "a": [0, 1, 2]}
    return prog, cand, ["k", "c", "th"], {"nesting": style, "mode": mode}


def _let_name(style, i):
    if style == "plain":
        return f"c{i}"
    if style == "dotted":
        return f"cal.c{i}"
    if style == "suffix":
        return f"c{i}.v"
    if style == "pairs":            # c0, cal.c0, c1, cal.c1, …: neighbours differ by the dotted prefix only
        return f"c{i // 2}" if i % 2 == 0 else f"cal.c{i // 2}"
    if style == "dunder":
        return f"__c{i}"
    return (f"c{i}", f"cal.c{i}", f"c{i}.x", f"__c{i}", f"c{i}__", f"ns.cal.c{i}")[i % 6]


def b_lets(s, rng):
    style = rng.choice(["plain", "dotted", "suffix", "pairs", "pairs", "dunder", "mixed"])
    names = [_let_name(style, i) for i in range(s)]
    vals = [(i + 0.5) if i % 3 == 2 else (i * 7 + i // 4) % 4 for i in range(s)]
    ints = [i for i in range(s) if i % 3 != 2]
    body = []
    step = 1 if s <= 300 else 3
    for i in range(0, s, step):
        j = ints[(i * 5 + 1) % len(ints)]
        st = g("PF", num(I(names[i])), q("r", I(names[j])))
        if i % 10 == 9:
            st = ["loop", I(names[j]), ["seq", [st, g("P", q("r", L(0)), num(I(names[ints[(i * 3) % len(ints)]])))]]]
        body.append(st)
    if step > 1:
        body.append(["par", [g("PF", num(I(names[i])), q("r", L(i % 4))) for i in range(s) if i % step]])
    prog = _mk(list(zip(names, vals)), L(4), [], [], body, "gates")
    prof = rng.choice(["alternate", "last", "first", "upper half", "all", "one in the middle", "beyond 64", "none"])
    sel = {"alternate": range(0, s, 2), "last": [s - 1], "first": [0], "upper half": range(s // 2, s), "all": range(s),
           "one in the middle": [s // 2], "beyond 64": range(min(64, s - 1), s), "none": []}[prof]
    bad = rng.random() < 0.12
    ov = {}
    for i in sel:
        if i % 3 == 2:
            ov[names[i]] = vals[i] + 0.25
        else:
            ov[names[i]] = (vals[i] + 1) % 4 if not (bad and i == list(sel)[-1]) else 4
        if rng.random() < 0.05 and isinstance(ov[names[i]], int):
            ov[names[i]] = float(ov[names[i]])
    return prog, ov, {"let names": style, "override profile": prof}


def b_aliases(s, rng):
    dotted = rng.random() < 0.4
    nm = (lambda p, i: f"cal.{p}{i}") if dotted else (lambda p, i: f"{p}{i}")
    lets = [("k0", 0), ("k1", 1), ("k2", 2), ("k3", 3), ("e", 8), ("s1", 1), ("n", 8)]
    maps = []
    body = []
    last_slice = None
    for i in range(s):
        kind = i % 3
        kk = I(f"k{i % 4}") if i % 2 == 0 else L(i % 4)
        if kind == 0:
            maps.append([nm("q", i), "single", "r", kk])
            body.append(g("X", I(nm("q", i))))
        elif kind == 1 or last_slice is None:
            stop = I("e") if i % 5 == 0 else L(4 + i % 5)
            stp = I("s1") if i % 7 == 0 else (None if i % 2 else L(1))
            maps.append([nm("a", i), "slice", "r", kk, stop, stp])
            last_slice = nm("a", i)
            body.append(g("PF", num(L(i)), q(nm("a", i), L(0))))
        else:
            maps.append([nm("w", i), "whole", last_slice])
            body.append(g("X", q(nm("w", i), L(0))))
    if s > 130:
        body = body[::3] + [["par", body[1::3]]] + body[2::3]
    prog = _mk(lets, I("n"), maps, [], body, "gates")
    cand = {"k0": [1, 2, 0.0, 3], "k1": [0, 2, 3], "k2": [0, 1, 3, 3.0], "k3": [0, 1, 2, 9], "e": [7, 6, 8.0, 9], "s1": [1.0, 2], "n": [8, 9, 16, 7]}
    return prog, cand, ["k0", "k2", "e"], {"alias names": "dotted" if dotted else "plain"}


def b_chain(s, rng):
    lets = [("n", 1), ("z", 0), ("s1", 1), ("j", 1), ("th", 0.5), ("R", 3 * s + 40)]
    R = 3 * s + 40
    size = I("R") if rng.random() < 0.5 else L(R)
    maps = [["a0", "slice", "r", I("z"), L(R), None]]
    cur = R
    every = rng.choice([1, 2, 4, 8])
    for i in range(s):
        lo_let = i % every == 0
        lov = 1 if lo_let else rng.choice([0, 1])
        lo = I("n") if lo_let else L(lov)
        drop_end = rng.random() < 0.3
        hi = cur - 1 if drop_end else cur
        stp = None
        if i % 9 == 4:
            stp = I("s1")
        elif cur > 3 * (s - i) + 30 and rng.random() < 0.15:
            stp = L(2)
        maps.append([f"a{i + 1}", "slice", f"a{i}", lo, L(hi), stp])
        cur = E.rlen(lov, hi, 2 if (stp is not None and stp[0] == "lit") else 1)
    body = [g("X", q(f"a{s}", L(0))), g("X", q(f"a{s}", I("j"))), g("PF", num(I("th")), q(f"a{s // 2}", L(1))), g("X", q("a1", I("j")))]
    prog = _mk(lets, size, maps, [], body, "gates")
    cand = {"n": [0, 1.0, 0.0, 2, 0], "z": [0.0, 0], "s1": [1.0, 1], "j": [0, 2, 1.0], "th": [0.25], "R": [R, R + 5, float(R), R - 1]}
    return prog, cand, ["n", "j"], {"chain links bounded by a constant: every": every}


def b_macros(s, rng):
    lets = [("c0", 0), ("c1", 1), ("c2", 2), ("c3", 3), ("th", 0.5), ("n", 4)]
    dotted = rng.random() < 0.4
    nm = (lambda i: f"lib.M{i}") if dotted else (lambda i: f"M{i}")
    macros = []
    for i in range(s):
        macros.append([nm(i), ["x"], ["seq", [g("PF", num(I(f"c{i % 4}") if i % 2 else I("th")), I("x")), g("X", q("r", I(f"c{(i + 1) % 4}")))]]])
    called = range(s) if s <= 300 else range(0, s, 4)
    body = [g(nm(i), q("r", I(f"c{i % 4}") if i % 3 == 0 else L(i % 4))) for i in called]
    prog = _mk(lets, I("n"), [], macros, body, "gates")
    cand = {"c0": [1, 3, 0.0], "c1": [0, 2, 1.0, 4], "c2": [3, 0], "c3": [0, 2, 3.0], "th": [0.75, 2], "n": [4, 5, 4.0]}
    return prog, cand, ["c1", "c3", "th"], {"macro names": "dotted" if dotted else "plain"}


def b_mchain(s, rng):
    lets = [("k", 1), ("th", 0.5), ("c", 2), ("n", 4)]
    macros = [["M0", ["a", "b"], ["seq", [g("PF", num(I("b")), I("a")), g("X", q("r", I("k"))), g("P", I("a"), num(I("c")))]]]]
    j1, j2 = s // 2, max(1, s // 3)
    for i in range(1, s + 1):
        if i == j1:
            macros.append([f"M{i}", ["a", "th"], ["seq", [g(f"M{i - 1}", I("a"), I("th")), g("PF", num(I("th")), I("a"))]]])
        elif i == j2:
            macros.append([f"M{i}", ["k", "b"], ["seq", [g(f"M{i - 1}", I("k"), I("b"))]]])
        elif i % 11 == 5:
            macros.append([f"M{i}", ["a", "b"], ["seq", [g(f"M{i - 1}", I("a"), I("b")), g("X", q("r", I("k")))]]])
        else:
            macros.append([f"M{i}", ["a", "b"], ["seq", [g(f"M{i - 1}", I("a"), I("b"))]]])
    body = [g(f"M{s}", q("r", I("k")), I("th")), ["loop", I("c"), ["seq", [g(f"M{s // 2}", q("r", L(0)), num(L(0.25)))]]]]
    prog = _mk(lets, I("n"), [], macros, body, "gates")
    cand = {"k": [0, 2, 3, 2.0], "th": [0.75, 2, 1.5], "c": [0, 1, 3], "n": [4, 6]}
    return prog, cand, ["k", "th"], {}


def b_params(s, rng):
    lets = [("k", 1), ("th", 0.5), ("c", 2), ("n", 4), ("w", 0.25)]
    params = [f"p{j}" for j in range(s)]
    shadow = {}
    for nm_, pos in (("th", 1), ("k", 2 * (s // 4)), ("w", s - 1 if (s - 1) % 2 else s - 2), ("n", 0)):
        if rng.random() < 0.7 and 0 <= pos < s:
            params[pos] = nm_
            shadow[nm_] = pos
    # even positions are qubits, odd positions numbers
    stm = []
    for j in range(0, s - 1, 2):
        stm.append(g("PF", num(I(params[j + 1])), I(params[j])))
    for nm_ in ("th", "w"):
        stm.append(g("PF", num(I(nm_)), q("r", L(0))))            # the parameter if shadowed, else the constant
    stm.append(g("X", q("r", I("k"))) if "k" not in shadow else g("X", I("k")))
    stm.append(g("P", q("r", L(1)), num(I("c"))))
    macros = [["M", params, ["seq", stm]]]
    args = []
    for j in range(s):
        if j % 2 == 0:
            args.append(q("r", I("k")) if j % 3 == 0 else q("r", L(j % 4)))
        else:
            args.append(I(rng.choice(["th", "w"])) if j % 3 else num(L(j * 0.5)))
    body = [g("M", *args), g("PF", num(I("th")), q("r", I("k")))]
    prog = _mk(lets, I("n"), [], macros, body, "gates")
    cand = {"k": [0, 2, 3, 2.0], "th": [0.75, 2, 1.5], "c": [0, 1, 3], "n": [4, 6], "w": [0.5, 3]}
    return prog, cand, list(shadow) or ["k"], {"parameters shadowing constants": len(shadow)}


def b_args(s, rng):
    lets = [("k", 1), ("th", 0.5), ("c", 2), ("n", 4), ("a", 1)]
    maps = [["al", "slice", "r", I("a"), L(4), None]]

    def args(off):
        out = []
        for j in range(s):
            c = (j + off) % 6
            out.append([num(I("th")), q("r", I("k")), num(L(j)), q("al", L(j % 2)), I("c"), q("al", I("k"))][c])
        return out
    body = [g("GW", *args(0)), ["loop", I("c"), ["seq", [g("GW", *args(3))]]]]
    prog = _mk(lets, I("n"), maps, [], body, "nogates")
    cand = {"k": [0, 2, 1.0], "th": [0.75, 2, 1.5], "c": [0, 1, 3], "n": [4, 6], "a": [0, 2, 1]}
    return prog, cand, ["k", "th", "a"], {}


def b_regsize(s, rng):
    lets = [("n", 4), ("i", 3), ("e", 4), ("j", 1), ("m", 2), ("th", 0.5)]
    maps = [["al", "slice", "r", I("j"), I("e"), None], ["top", "single", "r", I("i")]]
    macros = [["M", ["x"], ["seq", [g("X", q("r", I("i"))), g("PF", num(I("th")), I("x"))]]]]
    body = [g("X", q("r", I("i"))), g("X", q("al", I("m"))), g("X", I("top")), g("M", q("al", L(0))), ["loop", I("m"), ["seq", [g("X", q("r", L(3)))]]]]
    prog = _mk(lets, I("n"), maps, macros, body, "gates")
    fl = rng.random() < 0.25
    v = (lambda x: float(x)) if fl else (lambda x: x)
    ov = rng.choice([{"n": v(s), "i": v(s - 1), "e": v(s)}, {"n": v(s), "i": s - 1, "e": s, "m": s - 2}, {"n": s}, {"n": s, "e": s, "m": s - 2, "j": 1},
                     {"n": s, "i": s}, {"n": s, "e": s + 1}, {"n": s - 1, "i": s - 1}, {"n": v(s + 1), "i": v(s)}])
    return prog, dict(ov), {"float sizes": fl}


def mini_prog():
    return E.roles_prog()


MINI_CAND = {"n": [4, 5, 6, 4.0], "i": [0, 2, 3, 1.0], "j": [0, 1, 2], "a0": [0, 1], "a1": [3, 4, 4.0], "a2": [1, 2, 1.0], "si": [0, 1, 3],
             "c": [0, 1, 3, 3.0], "sc": [0, 1, 2, 5], "th": [0.75, 2, -1.5, 0.0], "ki": [0, 1, 3, 2.0], "mi": [0, 1, 2], "mj": [0, 2, 3],
             "mc": [0, 1, 5], "z": [0, 1, 0.5, -0.0], "w": [0.5, 3, 1e-12], "e0": [0, 1, 2]}


def b_history(s, rng):
    prog = mini_prog()
    steps = []
    names = list(MINI_CAND)
    for t in range(s):
        ov = {}
        for k in rng.sample(names, rng.choice([0, 1, 1, 2, 3])):
            ov[k] = rng.choice(MINI_CAND[k])
        steps.append(ov)
    return prog, steps, {}


def b_emu(s, rng):
    lets = [("n", 3), ("i", 1), ("j", 2), ("c", 3), ("a", 1)]
    maps = [["al", "slice", "r", I("a"), I("n"), None]]
    macros = [["M", ["x"], ["seq", [g("X", I("x")), g("X", q("r", I("i")))]]]]
    body = [g("prepare_all"), g("X", q("r", I("i"))), ["loop", I("c"), ["seq", [g("X", q("r", I("j")))]]], g("X", q("al", L(0))),
            g("M", q("r", L(0))), g("measure_all")]
    prog = _mk(lets, I("n"), maps, macros, body, "gates")
    i = rng.choice([s - 1, s - 2, s // 2, 1])
    j = rng.choice([x for x in (s - 1, 0, 2, s - 3) if x != i])
    ov = {"n": s, "i": i, "j": j, "c": rng.choice([1, 2, 3, 3.0]), "a": rng.choice([1, 3, s - 2])}
    if rng.random() < 0.3:
        ov["n"] = float(s)
    return prog, ov, {}


def pick_overrides(rng, cand, pri, declared):
    """one to three constants, the ones the dimension is about first; sometimes nothing at all"""
    c = rng.random()
    if c < 0.1:
        return {}
    names = []
    if pri and c < 0.8:
        names.append(rng.choice(pri))
    for k in rng.sample(list(cand), rng.choice([0, 1, 1, 2])):
        if k not in names:
            names.append(k)
    if not names:
        names = [rng.choice(list(cand))]
    ov = {k: rng.choice(cand[k]) for k in names}
    return ov


def build_scale(spec):
    """-> prog, steps (list of override dicts), features"""
    rng = random.Random(f"c05_scale/{spec['dim']}/{spec['size']}/{spec['rs']}")
    dim, s = spec["dim"], spec["size"]
    if dim in ("statements", "depth", "aliases", "chain", "macros", "mchain", "params", "args"):
        if dim == "statements":
            prog, cand, pri, feat = b_statements(s, rng, spec.get("pat"))
        else:
            prog, cand, pri, feat = {"depth": b_depth, "aliases": b_aliases, "chain": b_chain, "macros": b_macros,
                                     "mchain": b_mchain, "params": b_params, "args": b_args}[dim](s, rng)
        declared = dict((k, E.dec(v)) for k, v in prog["lets"])
        steps = [pick_overrides(rng, cand, pri, declared)]
        if rng.random() < 0.35:
            steps.append(pick_overrides(rng, cand, pri, declared))
        return prog, steps, feat
    if dim == "lets":
        prog, ov, feat = b_lets(s, rng)
        return prog, [ov], feat
    if dim == "regsize":
        prog, ov, feat = b_regsize(s, rng)
        return prog, [ov], feat
    if dim == "history":
        return b_history(s, rng)
    if dim == "emu":
        prog, ov, feat = b_emu(s, rng)
        return prog, [ov], feat
    if dim == "namelen":
        return build_namelen(s, rng)
    raise ValueError(dim)


# ------------------------------------------------------------------------------------------------
# renaming (streams "ident" and scale/namelen)

def prog_names(prog):
    """(global names in order of appearance: constants, register, aliases, macros, parameters;  gate names)"""
    glob, gates = [], []

    def add(l, x):
        if x not in l:
            l.append(x)
    for k, _ in prog["lets"]:
        add(glob, k)
    add(glob, prog.get("reg", "r"))
    for m in prog["maps"]:
        add(glob, m[0])
    mac = {m[0] for m in prog["macros"]}
    for name, params, _ in prog["macros"]:
        add(glob, name)
        for p in params:
            add(glob, p)

    def st(s):
        if s[0] == "gate":
            if s[1] not in mac:
                add(gates, s[1])
        elif s[0] == "loop":
            st(s[2])
        elif s[0] == "sub":
            for x in s[2]:
                st(x)
        else:
            for x in s[1]:
                st(x)
    for _, _, b in prog["macros"]:
        st(b)
    for s in prog["body"]:
        st(s)
    return glob, gates


def rename_prog(prog, gm, gg):
    reg0 = prog.get("reg", "r")
    mac = {m[0] for m in prog["macros"]}
    nm = lambda x: gm.get(x, x)

    def ex(e):
        return e if (e is None or e[0] == "lit") else ["id", nm(e[1])]

    def arg(a):
        if a[0] == "num":
            return ["num", ex(a[1])]
        if a[0] == "q":
            return ["q", nm(a[1]), ex(a[2])]
        return ["id", nm(a[1])]

    def st(s):
        if s[0] == "gate":
            return ["gate", nm(s[1]) if s[1] in mac else gg.get(s[1], s[1]), [arg(a) for a in s[2]]]
        if s[0] == "loop":
            return ["loop", ex(s[1]), st(s[2])]
        if s[0] == "sub":
            return ["sub", ex(s[1]), [st(x) for x in s[2]]]
        return [s[0], [st(x) for x in s[1]]]

    p = dict(prog)
    p["lets"] = [[nm(k), v] for k, v in prog["lets"]]
    p["reg"] = nm(reg0)
    p["size"] = ex(prog["size"])
    p["maps"] = [[nm(m[0]), m[1], nm(m[2])] + [ex(e) for e in m[3:]] for m in prog["maps"]]
    p["macros"] = [[nm(n), [nm(x) for x in ps], st(b)] for n, ps, b in prog["macros"]]
    p["body"] = [st(s) for s in prog["body"]]
    if prog["mode"] in ("gates", "rx") or "sig" in prog:
        base = prog["sig"] if "sig" in prog else E.Ref.sigs(None)
        _, used = prog_names(prog)
        p["sig"] = {gg.get(k, k): v for k, v in base.items() if k in used or k in ("X", "P", "PF")}
        p["mode"] = "gates"
    return p


def lookalikes(b):
    return _uniq(_lookalikes(b))


def _uniq(l):
    out = []
    for x in l:
        if x not in out:
            out.append(x)
    return out


def _lookalikes(b):
    return [b, f"cal.{b}", f"{b}.cal", f"cal.{b}.{b}", f"{b}.{b}", f"ns.cal.{b}", f"cal.ns.{b}", f"__{b}", f"{b}__", f"__{b}__", f"_{b}",
            f"{b}_", b.upper() if b.upper() != b else b.lower(), f"{b}.0", f"{b}0", f"{b}.x", f"x.{b}", f"cal.__{b}", f"{b}.cal.{b}",
            f"cal_{b}", f"cal.{b}_", f"_cal.{b}", f"{b}._", f"{b}1", f"{b}.1", f"c.{b}", f"al.{b}", f"ca.l.{b}", f"{b}{b}", f"{b}.{b}.{b}",
            f"cal.{b}.cal", f"Cal.{b}", f"cal.{b.upper()}z", f"{b}.c.a.l", f"l.{b}"]


ODD = ["le", "lets", "let_", "let.x", "loo", "loops", "loop.n", "ma", "maps", "map.r", "reg", "registers", "register.r", "macros", "macro_", "sub",
       "subcircuits", "subcircuit.n", "branch_", "bran", "fro", "from_", "as_", "a.s", "import_", "impor", "usepulse", "usepulses_", "prepare_al",
       "prepare_all_", "prepare_all.x", "prepare", "measure_al", "measure_all.x", "measure_all2", "gate", "circuit", "sequential_block",
       "parallel_block", "subcircuit_block", "array_item", "case", "__in_context__", "p0", "p1", "p10", "p2", "__macro__", "__c10", "__r0", "pi",
       "e", "e5", "E1", "inf", "nan", "True", "None", "_", "__", "_0", "x.1", "x.1a", "lambda", "I", "O0", "l", "self", "alias_from", "iterations"]
GATE_DECOR = [lambda x: f"cal.{x}", lambda x: f"{x}.cal", lambda x: f"__{x}__", lambda x: f"{x}_", lambda x: f"g.{x}.v", lambda x: x.lower() + "_g",
              lambda x: f"prepare_all.{x}", lambda x: f"measure_all_{x}", lambda x: f"__{x}", lambda x: f"loop.{x}", lambda x: f"let_{x}"]


def make_renaming(rng, prog, scheme):
    glob, gates = prog_names(prog)
    if scheme == "lookalike":
        pool = lookalikes(rng.choice(["x", "n", "q", "th", "cal", "r", "a"]))
        head, tail = pool[:7], pool[7:]
        rng.shuffle(tail)
        pool = head + tail                       # the closest family (x, cal.x, x.cal, cal.x.x, x.x, ns.cal.x, cal.ns.x) always present
        rng.shuffle(pool[:7])
    elif scheme == "odd":
        pool = list(ODD)
        rng.shuffle(pool)
    else:
        pool = lookalikes(rng.choice(["x", "n", "k"]))[:12] + rng.sample(ODD, 24)
        rng.shuffle(pool)
    if len(pool) < len(glob):
        pool = pool + [f"cal.v{i}" for i in range(len(glob) - len(pool))]
    order = list(glob)
    rng.shuffle(order)
    gm = dict(zip(order, pool))
    # constants first: the look-alike family must land on the constants (they are what the override dictionary names)
    lets = [k for k, _ in prog["lets"]]
    if scheme == "lookalike":
        rest = [x for x in glob if x not in lets]
        rng.shuffle(lets)
        rng.shuffle(rest)
        gm = dict(zip(lets + rest, pool))
    dec_ = rng.sample(GATE_DECOR, len(GATE_DECOR))
    gg = {}
    for i, x in enumerate(gates):
        if x in ("prepare_all", "measure_all"):
            continue
        gg[x] = dec_[i % len(dec_)](x)
    taken = set(gm.values())
    for x in list(gg):
        while gg[x] in taken:
            gg[x] = gg[x] + "_"
        taken.add(gg[x])
    return gm, gg


def build_namelen(s, rng):
    prog = mini_prog()
    glob, gates = prog_names(prog)
    gm = {}
    fam = rng.choice(["tail", "tail", "dotted", "head"])
    for i, x in enumerate(glob):
        tag = f"{i:02d}"
        if fam == "tail":        # all names share the first s-2 characters
            gm[x] = "v" * (s - 2) + tag
        elif fam == "head":
            gm[x] = tag.replace("0", "a").replace("1", "b").replace("2", "c").replace("3", "d").replace("4", "e").replace("5", "f") \
                .replace("6", "g").replace("7", "h").replace("8", "i").replace("9", "j") + "v" * (s - 2)
        else:
            gm[x] = ("cal." * (s // 4))[: max(0, s - 3)].rstrip(".") + ".n" + tag if s >= 8 else "v" * (s - 2) + tag
    gg = {x: "G" * max(1, s - len(x)) + x for x in gates if x not in ("prepare_all", "measure_all")}
    p = rename_prog(prog, gm, gg)
    steps = []
    for _ in range(rng.choice([1, 2])):
        ov = {}
        for k in rng.sample(list(MINI_CAND), rng.choice([1, 2, 3])):
            ov[gm[k]] = rng.choice(MINI_CAND[k])
        steps.append(ov)
    return p, steps, {"long names": fam}


def finite_steps(steps):
    out = []
    for st in steps:
        o = {}
        for k, v in st:
            x = E.dec(v)
            if not E.finite(x) or (isinstance(x, int) and abs(x) > 10**30):
                v = E.enc(1.5)
            o[k] = v
        out.append([[k, v] for k, v in o.items()])
    return out


def build_family(rng, scheme):
    """every constant of the program is a member of ONE look-alike family (or an odd spelling); each is used as a gate
    argument, the integer ones also as index / loop count; about half of them are overridden"""
    if scheme == "odd":
        names = rng.sample(ODD, 30)
    else:
        fam = lookalikes(rng.choice(["x", "n", "q", "th", "cal", "r", "a", "k"]))
        names = fam[:7] + rng.sample(fam[7:], 14) + (rng.sample(ODD, 8) if scheme == "mixed" else [])
        names = _uniq(names)
    rng.shuffle(names)
    k = len(names)
    vals = [(i + 0.5) if i % 3 == 2 else (i * 7 + i // 4) % 4 for i in range(k)]
    ints = [i for i in range(k) if i % 3 != 2]
    GPF, GP = rng.choice([("PF", "P"), ("cal.PF", "cal.P"), ("__PF", "P__")])
    R = next(x for x in ("cal.r", "r", "cal.reg", "zz.r") if x not in names)
    body = []
    for i in range(k):
        j = ints[(i * 5 + 1) % len(ints)]
        st = g(GPF, num(I(names[i])), q(R, I(names[j])))
        if i % 6 == 5:
            st = ["loop", I(names[j]), ["seq", [st, g(GP, q(R, L(0)), num(I(names[ints[(i * 3) % len(ints)]])))]]]
        body.append(st)
    macros = [["cal.M", [names[0], "y"], ["seq", [g(GPF, num(I(names[0])), I("y")), g(GPF, num(I(names[1])), I("y"))]]]]
    body.append(g("cal.M", num(I(names[2])), q(R, I(names[ints[0]]))))
    prog = _mk(list(zip(names, vals)), L(4), [], macros, body, "gates", reg=R, sig={GPF: "fq", GP: "qi"})
    ov = {}
    for i in range(k):
        if rng.random() < 0.45:
            ov[names[i]] = vals[i] + 0.25 if i % 3 == 2 else (vals[i] + 1 + i % 2) % 4
    return prog, [ov_enc(ov)]


def build_ident(spec):
    rng = random.Random(f"c05_scale/ident/{spec['rs']}")
    base = spec["base"]
    if base == "family":
        prog, steps = build_family(rng, spec["scheme"])
        return prog, steps, {"renaming": spec["scheme"], "base program": base}
    if base == "roles":
        prog = mini_prog()
        steps = []
        for _ in range(rng.choice([1, 1, 2])):
            ov = {}
            for k in rng.sample(list(MINI_CAND), rng.choice([1, 2, 3, 5, 8])):
                ov[k] = rng.choice(MINI_CAND[k])
            steps.append(ov)
        steps = [ov_enc(o) for o in steps]
    else:
        case = E.gen_random(rng, 0, False)
        prog = case["prog"]
        steps = finite_steps(case["steps"])
    gm, gg = make_renaming(rng, prog, spec["scheme"])
    p = rename_prog(prog, gm, gg)
    p["usepulses"] = int(bool(prog.get("usepulses")))
    steps = [[[gm.get(k, k), v] for k, v in st] for st in steps]
    return p, steps, {"renaming": spec["scheme"], "base program": base}


def build_defaults(spec):
    rng = random.Random(f"c05_scale/defaults/{spec['rs']}")
    if rng.random() < 0.35:
        prog = mini_prog()
        steps = []
        ov = {}
        if rng.random() < 0.8:
            for k in rng.sample(list(MINI_CAND), rng.choice([1, 1, 2, 3])):
                ov[k] = rng.choice(MINI_CAND[k])
        steps = [ov_enc(ov)]
    else:
        case = E.gen_random(rng, 0, False)
        prog = case["prog"]
        steps = finite_steps(case["steps"])[:1]
    if spec.get("nothing"):
        steps = [[]]
    prog = dict(prog)
    prog["usepulses"] = rng.choice([0, 1, 1, 2, 3])
    # value kinds
    kinds = rng.choice(["as is", "as is", "numpy integers", "numpy.float64", "floats"])
    out = []
    for st in steps:
        o = []
        for k, v in st:
            x = E.dec(v)
            if kinds == "numpy integers" and isinstance(x, int) and not isinstance(x, bool) and 0 <= x < 200:
                v = {"npint": [rng.choice(["int64", "int32", "uint8", "int16"]), str(x)]}
            elif kinds == "numpy integers" and isinstance(x, int) and abs(x) < 2**62:
                v = {"npint": ["int64", str(x)]}
            elif kinds == "numpy.float64" and isinstance(x, (int, float)) and abs(x) < 2**53:
                v = {"npfloat": repr(float(x))}
            elif kinds == "floats" and isinstance(x, int) and abs(x) < 2**53:
                v = {"float": repr(float(x))}
            o.append([k, v])
        out.append(o)
    return prog, out, {"override value kinds": kinds, "usepulses statements": prog["usepulses"]}


def build(case):
    """-> prog, steps (encoded), features"""
    spec = case["spec"]
    if spec["kind"] == "scale":
        prog, steps, feat = build_scale(spec)
        steps = [ov_enc(o) for o in steps]
    elif spec["kind"] == "ident":
        prog, steps, feat = build_ident(spec)
    else:
        prog, steps, feat = build_defaults(spec)
    return prog, steps, feat


# ------------------------------------------------------------------------------------------------
# running one case

FILL_ENTRIES = ["fill", "fill_kw"]
PARSE_ENTRIES = ["parse", "parse_up", "parse_file", "parse_macro", "parse_map"]
EMPTY = ["omit", "none", "empty"]


def lib_call(entry, emptyv, c0, text, ov, kw, call):
    if entry == "fill":
        if not ov:
            if emptyv == "omit":
                return call(fill_in_let, c0)
            return call(fill_in_let, c0, None if emptyv == "none" else {})
        return call(fill_in_let, c0, dict(ov))
    if entry == "fill_kw":
        if not ov and emptyv == "omit":
            return call(fill_in_let, circuit=c0)
        return call(fill_in_let, circuit=c0, override_dict=(dict(ov) if (ov or emptyv == "empty") else None))
    extra = dict(kw)
    if ov or emptyv != "omit":
        extra["override_dict"] = dict(ov) if (ov or emptyv == "empty") else None
    if entry == "parse":
        return call(parse_jaqal_string, text, expand_let=True, **extra)
    if entry == "parse_up":
        r = call(parse_jaqal_string, text, expand_let=True, return_usepulses=True, **extra)
        if not (isinstance(r, tuple) and len(r) == 2 and isinstance(r[1], dict) and "usepulses" in r[1]):
            raise TypeError(f"return_usepulses=True returned {type(r).__name__}")
        return r[0]
    if entry == "parse_file":
        fd, path = tempfile.mkstemp(suffix=".jaqal", prefix="c05scale")
        try:
            with os.fdopen(fd, "w") as fh:
                fh.write(text)
            return call(parse_jaqal_file, path, expand_let=True, **extra)
        finally:
            try:
                os.unlink(path)
            except OSError:
                pass
    if entry == "parse_macro":
        return call(parse_jaqal_string, text, expand_let=True, expand_macro=True, **extra)
    if entry == "parse_map":
        return call(parse_jaqal_string, text, expand_let_map=True, expand_let=(len(text) % 2 == 0), **extra)
    raise ValueError(entry)


def used_x(prog, env):
    """emu dimension: set of fundamental qubits flipped an odd number of times (this script's interpretation)"""
    ref = Ref(prog, env)
    t = ref.run()
    par = Counter()

    def walk(s, mult):
        if s[0] == "g":
            if s[1] == "X":
                par[s[2][0][2]] += mult
        elif s[0] == "l":
            walk(s[2], mult * s[1][1])
        else:
            for x in s[4]:
                walk(x, mult * (s[3][1] if s[2] else 1))
    walk(t, 1)
    return sorted(k for k, v in par.items() if v % 2), ref.N


def run_case(case, rec, dist):
    prog, steps, feat = build(case)
    for k, v in feat.items():
        dist[f"feature: {k} = {v}"] += 1
    text = render(prog)
    case["text"] = text if len(text) < 3000 else text[:1800] + "\n…\n" + text[-1000:]
    case["steps"] = steps
    regname = prog.get("reg", "r")
    decl = {k: E.dec(v) for k, v in prog["lets"]}
    entry0 = case["entry"]
    emptyv = case.get("empty", "omit")
    kw = parse_kw(prog)
    Invalid, Grey = E.Invalid, E.Grey

    def call(f, *a, **k):
        signal.alarm(int(T.limit()))
        try:
            return f(*a, **k)
        finally:
            signal.alarm(0)

    old = signal.signal(signal.SIGALRM, E._alarm)
    try:
        try:
            with warnings.catch_warnings():
                warnings.simplefilter("ignore")
                c0 = call(parse_jaqal_string, text, **kw)
        except E.Hang:
            T.saw_hang()
            rec("terminates", False, "parse_jaqal_string: no result within the time limit")
            return
        except JaqalError as e:
            # the declared program itself is not accepted (generated programs may be ill-typed as declared): not a case
            dist[f"front end rejects the declared program ({case['spec']['kind']})"] += 1
            if case["spec"]["kind"] == "scale":
                dist[f"front end rejects the declared program: {case['spec']['dim']}: {str(e)[:60]}"] += 1
            return
        frame0 = E.frame_of(c0)
        for si, step in enumerate(steps):
            raw = ov_dec(step)
            ov = dict(raw)
            env = dict(decl)
            env.update({k: plain(v) for k, v in raw.items()})
            has_npint = any(type(v).__name__ in NPINT for v in raw.values())
            tag = (f"step {si} " if len(steps) > 1 else "") + f"overrides {show_ov(raw)}: "
            for v in raw.values():
                dist["override value kind: " + type(v).__name__] += 1
            dist["override dictionary size: " + bucket(len(raw))] += 1
            entry = entry0 if (si == 0 or entry0 in FILL_ENTRIES) else "fill"
            dist["entry: " + entry + (" (nothing to override: " + emptyv + ")" if not ov else "")] += 1
            ref = None
            try:
                ref = Ref(prog, env)
                want = ("ok", ref.tree())
            except Invalid as e:
                want = ("invalid", str(e), e.nonfinite)
                if ref is not None and entry == "parse_macro" and prog["macros"]:
                    # expand_macro runs first: an argument of a call that the macro never uses is gone before the constants
                    # are looked at (only what is wrong in the header is wrong whatever the order)
                    want = ("grey", "expand_let + expand_macro: invalid in the body of a program with macros")
                ref = None
            except Grey as e:
                want = ("grey", str(e))
            except RecursionError:
                want = ("grey", "too deep for the reference")
            try:
                with warnings.catch_warnings():
                    warnings.simplefilter("ignore")
                    f = lib_call(entry, emptyv, c0, text, ov, kw, call)
                got = ("ok", f)
            except E.Hang:
                T.saw_hang()
                rec("terminates", False, tag + f"{entry}: no result within the time limit")
                return
            except JaqalError as e:
                got = ("err", "JaqalError", str(e)[:120])
            except Exception as e:  # noqa
                got = ("err", type(e).__name__, str(e)[:120])
            rec("terminates", True)
            dist[f"{case['spec']['kind']}/{entry}: reference {want[0]}, library {'ok' if got[0] == 'ok' else got[1]}"] += 1
            if want[0] == "invalid":
                rec("invalid_env_rejected", got[0] == "err", tag + f"[{entry}] no meaning in this environment ({want[1]}), but a circuit was returned")
                if got[0] == "err":
                    rec("rejection_is_jaqal_error", got[1] == "JaqalError", tag + f"({want[1]}) raised {got[1]}: {got[2]}")
                continue
            if want[0] == "grey":
                dist["grey: " + want[1].split(":")[0][:50]] += 1
                if got[0] == "ok":
                    try:
                        _, consts = call(impl_tree, got[1], regname)
                        rec("no_constant_left", not consts, tag + f"[{entry}] {consts[:3]}")
                    except E.Hang:
                        T.saw_hang()
                    except Exception:  # noqa
                        pass
                continue
            if got[0] == "err":
                if has_npint:
                    dist[f"numpy integer override refused ({got[1]}): not demanded"] += 1
                    continue
                if entry == "parse_macro":
                    # expand_macro runs first: a call that is ill-typed / out of range once its arguments are bound has no
                    # call-by-value meaning (the statement-wise reference above does not look into calls)
                    try:
                        ref.run()
                        Ref(prog, decl).run()       # … and expand_macro sees the DECLARED values (it runs before the overrides apply)
                    except (Grey, Invalid, RecursionError) as e:
                        dist["expand_let + expand_macro refused, no call-by-value meaning: " + str(e).split(":")[0][:40]] += 1
                        continue
                if entry == "parse_map":
                    # fill_in_map has preconditions of its own: decided against the program with literals below
                    try:
                        with warnings.catch_warnings():
                            warnings.simplefilter("ignore")
                            call(parse_jaqal_string, literal_text(prog, env), expand_let_map=True, **kw)
                        lit_ok = True
                    except E.Hang:
                        T.saw_hang()
                        return
                    except Exception:  # noqa
                        lit_ok = False
                    if not lit_ok:
                        dist["expand_let_map: the program with literals is refused too (fill_in_map's preconditions)"] += 1
                        continue
                rec("valid_env_accepted", False, tag + f"every position evaluates in this environment, but {entry} raised {got[1]}: {got[2]}")
                continue
            rec("valid_env_accepted", True)
            f = got[1]
            try:
                have, consts = call(impl_tree, f, regname)
            except E.Hang:
                T.saw_hang()
                rec("terminates", False, tag + "reading the result: no result within the time limit")
                return
            except Exception as e:  # noqa
                rec("value_exact", False, tag + f"[{entry}] the result cannot be read: {type(e).__name__}: {str(e)[:200]}")
                continue
            rec("no_constant_left", not consts, tag + f"[{entry}] {consts[:3]}")
            wt = want[1]
            wt = (lighten(wt[0], light_names([n for n, _ in wt[0]])),) + tuple(wt[1:])
            fr = E.frame_of(f)
            if entry == "parse_map":
                # after fill_in_map: compare with the library's own treatment of the program with the numbers as literals
                try:
                    with warnings.catch_warnings():
                        warnings.simplefilter("ignore")
                        fl = call(parse_jaqal_string, literal_text(prog, env), expand_let_map=True, **kw)
                        hl, _ = call(impl_tree, fl, regname)
                    same = cflat(have) == cflat(hl)
                    rec("meaning_expanded", same, tag + "[expand_let_map] differs from the program with literals: " +
                        ("" if same else explain(lambda: E.diff3(E.canon(have), E.canon(hl)))))
                except E.Hang:
                    T.saw_hang()
                    return
                except Exception as e:  # noqa
                    dist[f"expand_let_map: program with literals raised {type(e).__name__}"] += 1
                    if os.environ.get("C05_SCALE_DEBUG"):
                        print("LITERAL", type(e).__name__, e, "\n", literal_text(prog, env), "\n", text, raw)
                continue
            if entry == "parse_macro":
                fr_ok = all(fr[k] == frame0[k] for k in ("natives", "usepulses", "registers"))
                rec("frame_preserved", fr_ok, tag + "[expand_let + expand_macro] natives / usepulses / register names differ from the original")
                same = cflat(have[0]) == cflat(wt[0])
                rec("value_exact", same, tag + "[expand_let + expand_macro] " +
                    ("" if same else explain(lambda: E.first_diff(E.canon(tuple(have[0])), E.canon(tuple(wt[0])), "registers"))))
            else:
                hs = ([n for n, _ in have[0]], [(m[0], m[1], sflat(m[2])) for m in have[1]], sflat(have[2]))
                ws = ([n for n, _ in wt[0]], [(m[0], m[1], sflat(m[2])) for m in wt[1]], sflat(wt[2]))
                fr_ok = hs == ws and all(fr[k] == frame0[k] for k in ("natives", "usepulses", "macros", "registers"))
                fr_ok = fr_ok and all(fr["native_defs"].get(k) is v or fr["native_defs"].get(k) == v for k, v in frame0["native_defs"].items())
                rec("frame_preserved", fr_ok, tag + f"[{entry}] " + (f"skeleton {E.show(hs, 300)} / expected {E.show(ws, 300)}" if hs != ws else
                                                                     "natives / usepulses / macro signatures / register names differ from the original: " +
                                                                     E.show({k: (fr[k], frame0[k]) for k in ("natives", "usepulses", "macros", "registers") if fr[k] != frame0[k]}, 400)))
                if hs == ws:
                    same = cflat(have) == cflat(wt)
                    rec("value_exact", same, "" if same else (tag + f"[{entry}] " + explain(lambda: E.diff3(E.canon(have), E.canon(wt)))))
            # --- expanded meaning
            try:
                wmt = ref.run()
                wm = ("ok", cflat(wmt))
            except (Grey, Invalid) as e:
                wm = ("grey", str(e))
            except RecursionError:
                wm = ("grey", "too deep for the call-by-value interpreter")
            if wm[0] == "ok":
                try:
                    with warnings.catch_warnings():
                        warnings.simplefilter("ignore")
                        e1 = call(expand_macros, f) if entry != "parse_macro" else f
                        hm, _ = call(impl_tree, e1, regname)
                    hmt = E.norm(hm[2])
                    same = cflat(hmt) == wm[1]
                    rec("meaning_expanded", same, "" if same else (tag + f"[{entry}] expanded: " +
                                                                  explain(lambda: E.first_diff(E.canon(hmt), E.canon(wmt), "body"))))
                except E.Hang:
                    T.saw_hang()
                    rec("terminates", False, tag + "expand_macros: no result within the time limit")
                    return
                except Exception as e:  # noqa
                    dist[f"expand_macros of the result raised {type(e).__name__}"] += 1
            else:
                dist["meaning_expanded not evaluated: " + wm[1][:40]] += 1
            # --- emulator on a register of 10 .. 14 qubits
            if case["spec"].get("dim") == "emu":
                try:
                    flipped, n = used_x(prog, env)
                    p = call(E.emu_probs, f)
                    pl = call(E.emu_probs, call(parse_jaqal_string, literal_text(prog, env), **kw))
                    top = int(np.argmax(p))
                    lsb = sum(1 << k for k in flipped)
                    msb = sum(1 << (n - 1 - k) for k in flipped)
                    ok = len(p) == 2**n and abs(p[top] - 1) < 1e-9 and top in (lsb, msb) and bool(np.allclose(p, pl, atol=1e-12, rtol=0))
                    rec("emulated_register", ok, tag + f"{n} qubits, flipped {flipped}: all probability expected on outcome {lsb} (or {msb} "
                        f"in the other bit order), got {len(p)} outcomes with the maximum {p[top]} on {top}; with literals on {int(np.argmax(pl))}")
                except E.Hang:
                    T.saw_hang()
                    rec("terminates", False, tag + "emulator: no result within the time limit")
                    return
    finally:
        signal.alarm(0)
        signal.signal(signal.SIGALRM, old)


def show_ov(raw):
    items = list(raw.items())
    s = ", ".join(f"{k[:40] + ('…' if len(k) > 40 else '')}={v!r}" for k, v in items[:8])
    return "{" + s + (f", … {len(items)} in all" if len(items) > 8 else "") + "}"


def bucket(k):
    if k <= 3:
        return str(k)
    lo = 4
    for b in (8, 16, 32, 64, 128, 200, 256, 1000):
        if k < b:
            return f"{lo} .. {b - 1}"
        lo = b
    return ">= 1000"


# ------------------------------------------------------------------------------------------------

def scale_entry(rng, dim):
    if dim in ("history",):
        return rng.choice(["fill", "fill", "fill_kw"])
    if dim == "emu":
        return rng.choice(["fill", "parse", "parse_up"])
    return rng.choice(["fill", "fill", "fill", "parse", "parse", "fill_kw", "parse_up", "parse_file", "parse_macro", "parse_map"])


def gen_cases(seed, n, thorough):
    rng = random.Random(f"c05_scale:{seed}")
    cases = []
    k_scale = max(len(DIMS), int(round(n * 0.48)))
    k_ident = max(6, int(round(n * 0.3)))
    k_def = max(6, int(round(n * 0.22)))
    seen = Counter()
    cyc = DIMS + ["statements", "statements", "lets", "statements"]
    rot = rng.randrange(len(cyc))
    for i in range(k_scale):
        dim = cyc[(i + rot) % len(cyc)]
        sizes = DIM_SIZES[dim]
        if not thorough and dim in HEAVY:
            # the expensive sizes once per run (the first case of the dimension), the others below the cut
            first = not any(c["spec"]["dim"] == dim for c in cases)
            sizes = [s for s in sizes if (s > HEAVY[dim]) == first] or sizes
            if dim == "chain" and first:
                sizes = [65, 66]                    # cubic in the library: 100 .. 130 in the thorough tier only
        if not thorough and dim == "emu" and i >= 2 * len(cyc):
            dim = "statements"                      # two emulator runs are enough for the quick tier
            sizes = [199, 200, 201, 255, 256, 257, 300, 1000]
        j = seen[dim]
        seen[dim] += 1
        if j % 2 == 0 and dim == "statements":
            sizes = [199, 200, 201, 255, 256, 257, 300, 1000]
        elif j % 2 == 0 and dim == "namelen":
            sizes = [255, 256, 257, 300, 1000]
        elif j % 2 == 0 and len(sizes) > 4:
            sizes = sizes[len(sizes) // 2:]         # every other case of a dimension in the upper half of its sizes
        s = rng.choice(sizes)
        spec = {"kind": "scale", "dim": dim, "size": s, "rs": rng.randrange(1 << 30)}
        if dim == "statements":
            if j % 2 == 0:                          # the long blocks: half of them mention no constant at all
                spec["pat"] = ("none", "none", "last", "none", "middle", "none", "all", "none", "first", "sparse")[(j // 2) % 10]
        cases.append({"id": f"scale-{dim}-{s}-{seed}-{i}", "spec": spec, "entry": scale_entry(rng, dim), "empty": rng.choice(EMPTY)})
    for i in range(k_ident):
        cases.append({"id": f"ident-{seed}-{i}", "spec": {"kind": "ident", "base": ("roles", "random", "family")[i % 3],
                                                          "scheme": ("lookalike", "lookalike", "odd", "mixed")[(i // 3) % 4], "rs": rng.randrange(1 << 30)},
                      "entry": rng.choice(["fill", "fill", "parse", "parse", "fill_kw", "parse_up", "parse_file", "parse_macro", "parse_map"]),
                      "empty": rng.choice(EMPTY)})
    allent = FILL_ENTRIES + PARSE_ENTRIES
    for i in range(k_def):
        cases.append({"id": f"defaults-{seed}-{i}", "spec": {"kind": "defaults", "rs": rng.randrange(1 << 30), "nothing": int(i % 3 == 0)},
                      "entry": allent[(i + i // 21) % len(allent)], "empty": EMPTY[(i // 3) % 3]})
    if thorough:
        # the whole grid: every dimension x every size
        for dim in DIMS:
            for s in DIM_SIZES[dim]:
                reps = 2 if dim in ("statements", "lets") else 1
                for r in range(reps):
                    cases.append({"id": f"grid-{dim}-{s}-{r}", "spec": {"kind": "scale", "dim": dim, "size": s, "rs": rng.randrange(1 << 30)},
                                  "entry": scale_entry(rng, dim), "empty": rng.choice(EMPTY)})
    return cases


def slim(case):
    return {k: case[k] for k in ("id", "spec", "entry", "empty", "text", "steps") if k in case}


def run(seed: int, n: int, driver: str = DEFAULT_DRIVER, thorough: bool = False) -> dict:
    _imports()
    sys.setrecursionlimit(max(sys.getrecursionlimit(), 6000))
    if thorough:
        n = n * 3
    cases = gen_cases(seed, n, thorough)
    oracle = {}
    dist = Counter()
    nontrivial = set()
    for case in cases:
        def rec(name, ok, detail="", case=case):
            o = oracle.setdefault(name, {"cases": 0, "failures": []})
            o["cases"] += 1
            if not ok:
                # at most two failures per case and oracle (a history of 130 steps must not hide the other cases)
                mine = sum(1 for x in o["failures"] if x["case"]["id"] == case["id"])
                if mine < 2 and len(o["failures"]) < 40:
                    o["failures"].append({"case": slim(case), "detail": detail[:1500]})
        sp = case["spec"]
        dist["stream: " + sp["kind"]] += 1
        if sp["kind"] == "scale":
            dist[f"scale dimension: {sp['dim']}"] += 1
            dist[f"scale: {sp['dim']} size {bucket(sp['size'])}"] += 1
        run_case(case, rec, dist)
        nontrivial.add(json.dumps(case["spec"], sort_keys=True) + case["entry"])
    for v in oracle.values():
        v["failures"] = v["failures"][:20]
    samples = []
    seen = set()
    for c in cases:
        key = c["spec"]["kind"] + c["spec"].get("dim", "")
        if key not in seen and len(samples) < 6:
            seen.add(key)
            s = slim(c)
            s["text"] = s.get("text", "")[:600]
            s["steps"] = s.get("steps", [])[:2]
            samples.append(s)
    return {"corr": {}, "oracle": oracle, "distribution": dict(sorted(dist.items())), "samples": samples, "nontrivial": len(nontrivial)}


def replay(case: dict, driver: str = DEFAULT_DRIVER) -> dict:
    _imports()
    sys.setrecursionlimit(max(sys.getrecursionlimit(), 6000))
    case = {k: v for k, v in case.items() if k not in ("text", "steps")}       # both are rebuilt from the spec
    oracle = {}
    dist = Counter()

    def rec(name, ok, detail=""):
        o = oracle.setdefault(name, {"cases": 0, "failures": []})
        o["cases"] += 1
        if not ok:
            o["failures"].append(detail)

    run_case(case, rec, dist)
    fails = {k: v["failures"][0] for k, v in oracle.items() if v["failures"] and k != "rejection_is_jaqal_error"}
    return {"oracle_ok": not fails, "detail": json.dumps(fails) if fails else "all oracles hold", "info": dict(dist),
            "text": case.get("text", "")[:3000]}


def main():
    ap = argparse.ArgumentParser()
    ap.add_argument("--driver", default=DEFAULT_DRIVER)
    ap.add_argument("--seed", type=int, default=0)
    ap.add_argument("--n", type=int, default=150)
    ap.add_argument("--thorough", action="store_true")
    ap.add_argument("--dist", action="store_true")
    a = ap.parse_args()
    r = run(a.seed, a.n, a.driver, a.thorough)
    bad = 0
    for k, v in r["oracle"].items():
        print(f"oracle {k}: {v['cases']} cases, {len(v['failures'])} failures (first 20 kept)")
        if k != "rejection_is_jaqal_error":
            bad += len(v["failures"])
        for d in v["failures"][:3]:
            c = dict(d["case"])
            c["text"] = c.get("text", "")[:500]
            c["steps"] = c.get("steps", [])[:1]
            print("  FAIL", json.dumps(c)[:1500], "\n     ", d["detail"][:900])
    if a.dist:
        for k, v in r["distribution"].items():
            print(f"  {k}: {v}")
    print("nontrivial:", r["nontrivial"])
    sys.exit(1 if bad else 0)


if __name__ == "__main__":
    main()
