#!/venv/bin/python
"""C20 on pairs of programs that differ in ONE token whose VALUE is an edge value, delivered along every PATH.

Why (third-round seeded regressions missed by gen_diff / c20_pairs): their mutants take counts, indices and arguments from
small "ordinary" pools (1, 2, 3 ...) and deliver them as literals at one place.  A falsy idiom in a shared helper
(`iterations or 1` in the BlockStatement constructor: `subcircuit 0 {..}` becomes `subcircuit 1 {..}` = `subcircuit {..}`),
a comparison through float / modulo 2**k, or a tolerance in `==` is invisible to them.

Real code: `parse_jaqal_string`, `generate_jaqal_program`, every `__eq__` of `jaqalpaq.core` reached from `Circuit.__eq__`.
Oracles only (no Lean driver).  The script builds each program from a SPEC, prints the text itself and computes from the
spec -- independently of the library -- the declarations (value of every let; size of the register; fundamental register,
first index, length and stride of every alias) and the gate-level meaning (macros expanded, lets and parameters substituted,
qubits resolved to (fundamental register, index), loops unrolled up to 12 repetitions and kept as (count, body) beyond,
same-kind blocks spliced, one-statement blocks = the statement, numbers compared BY VALUE with Python's exact int/float `==`).
Where the script cannot give a program a meaning (a negative count, a float as index, an index out of range ...) it makes
NO claim about it.

A pair = two programs A, B differing in one token (or in the presence of one optional token: a subcircuit count, a slice
bound, a trailing gate argument).  It is the product of

  role     what the token is: qubit index (first / second argument / index into a macro's register parameter), loop count
           (sequential / parallel / empty body), subcircuit count (gate / empty / loop body), gate argument (only / first /
           last / middle / after a 0), index of a single-qubit alias (of the register / of a slice), slice start / stop /
           step (of the register / of a slice / reversed), register size, value of an unused let
  route    how the value gets there: literal | let | reference to one of two lets | macro parameter | let handed to a macro
           | parameter handed on to a second macro | second macro parameter beside a register parameter
  context  where the statement stands: top level | between gates | loop | parallel loop | < > | { } | { } inside < > |
           subcircuit | counted subcircuit | macro body | loop inside subcircuit | subcircuit inside loop | zero-count loop |
           behind a copy of side A's statement ([s(a), s(a)] against [s(a), s(b)]: a too coarse cache of built statements)
  values   FALSY / ZERO  0 against 1, 2, "absent"; 0 spelled 0, -0, +0, 00;  0.0, -0.0, 1.0e-400 against 5.0e-324
           WRAP-AROUND   v against v + 2**16, 2**32, 2**64, 2**61-1 (equal Python hashes)
           ADJACENT      65535|65536, 2**31, 2**32, 2**53 (float precision), 2**63, 2**64 (machine words), 10**30,
                         4299- and 4300-digit literals (the longest Python converts)
           FLOATS        last-ulp neighbours (0.1|0.10000000000000002, 1.0|1.0000000000000002, DBL_MAX|its predecessor,
                         the two smallest subnormals), int against integral float (9007199254740993 | 9007199254740992.0),
                         respellings of one value (1.0e5 | 100000 | 1.0E5): no claim, but symmetry / re-parse
  combined with a second, unrelated fragment (another role / route / context) in the same program, with or without a
  `usepulses` line, with or without the injected gate set (typed gates P = integer argument, PF = float argument).

Oracles (C20 on the real code alone; names as in c20_pairs)
  eq_never_raises / eq_symmetric / eq_reflexive            both argument orders; c == c; c == an independent parse of the same text
  reparse_equal                                           c == parse(generate(c)) in both orders
  equal_pair_has_same_declarations_and_meaning            `==` True (either order) => script declarations and meaning agree
  declaration_change_is_unequal                           script declarations differ => False in both orders
  meaning_change_is_unequal                               script gate-level meaning differs => False in both orders
  different_declarations_or_meaning_different_text        both generate => the generated texts differ
Not judged, only counted in `distribution` (C20 quantifies over PROGRAMS and parser-produced circuits, not over circuits
rewritten by passes): `measured(not judged):after_fill_in_let:*` -- the pair after `fill_in_let`.

Run: PYTHONPATH=/verif /venv/bin/python /verif/harness/agents/c20_edge.py [--n N] [--seed S] [--thorough]
"""
import argparse
import json
import random
import re
import signal
import sys
from collections import Counter

DEFAULT_DRIVER = "/verif/lean/.lake/build/bin/jaqal-model"


def _imports():
    global JaqalError, parse_jaqal_string, generate_jaqal_program, fill_in_let, GATES, T
    from jaqalpaq.error import JaqalError
    from jaqalpaq.parser import parse_jaqal_string
    from jaqalpaq.generator import generate_jaqal_program
    from jaqalpaq.core.algorithm import fill_in_let
    from harness.gates import GATES
    from harness import timeouts as T


# ------------------------------------------------------------------------------------------------ guarded calls

class Hang(Exception):
    pass


def _alarm(signum, frame):
    raise Hang()


_installed = False


class alarm_handler:
    """installs the SIGALRM handler once around a whole run"""

    def __enter__(self):
        global _installed
        self.old = signal.signal(signal.SIGALRM, _alarm)
        self.was, _installed = _installed, True

    def __exit__(self, *exc):
        global _installed
        signal.alarm(0)
        signal.signal(signal.SIGALRM, self.old)
        _installed = self.was


def guarded(fn, *args):
    """-> ("ok", value) | ("jaqal", message) | ("raise", class name) | ("hang", None)"""
    if not _installed:
        with alarm_handler():
            return guarded(fn, *args)
    signal.alarm(int(T.limit()))
    try:
        try:
            return ("ok", fn(*args))
        finally:
            signal.alarm(0)
    except Hang:
        T.saw_hang()
        return ("hang", None)
    except JaqalError as e:
        return ("jaqal", str(e)[:200])
    except Exception as e:  # noqa
        return ("raise", type(e).__name__)


def py_eq(a, b):
    """True / False, or a dict describing the exception / hang"""
    st, v = guarded(lambda: a == b)
    if st == "ok":
        if v is True or v is False:
            return v
        return {"err": "returned " + type(v).__name__}
    return {"err": st if v is None else f"{st}:{v}"}


# ------------------------------------------------------------------------------------------------ spec -> text
# program : {"use": module | None, "lets": [(name, text)], "reg": size atom, "maps": [decl], "macros": [macro], "body": [stmt]}
# decl    : ("map", name, src) | ("mapq", name, src, idx atom) | ("maps", name, src, start, stop, step)   (atom | None = omitted)
# macro   : (name, [params], parallel, [stmts])
# stmt    : ("g", name, [args]) | ("loop", count atom, parallel, [stmts]) | ("blk", parallel, [stmts]) | ("sub", atom | None, [stmts])
# arg     : ("v", atom) | ("ix", name, atom)
# atom    : the TEXT of one token: a number literal or an identifier

_INT = re.compile(r"[-+]?[0-9]+\Z")
_NUM = re.compile(r"[-+]?[0-9]*\.[0-9]+([eE][-+]?[0-9]+)?\Z")


def is_lit(atom):
    return atom[0] in "+-.0123456789"


def _b(x):
    return "" if x is None else x


def r_decl(d):
    k = d[0]
    if k == "map":
        return f"map {d[1]} {d[2]}"
    if k == "mapq":
        return f"map {d[1]} {d[2]}[{d[3]}]"
    if k == "maps":
        s = f"map {d[1]} {d[2]}[{_b(d[3])}:{_b(d[4])}"
        if d[5] is not None:
            s += f":{d[5]}"
        return s + "]"
    raise KeyError(k)


def r_arg(a):
    if a[0] == "ix":
        return f"{a[1]}[{a[2]}]"
    return a[1]


def r_block(par, stmts, ind):
    o, c = ("<", ">") if par else ("{", "}")
    if not stmts:
        return o + " " + c
    pad = "\t" * (ind + 1)
    sep = " |\n" if par else "\n"
    return o + "\n" + sep.join(pad + r_stmt(s, ind + 1) for s in stmts) + "\n" + "\t" * ind + c


def r_stmt(s, ind=0):
    k = s[0]
    if k == "g":
        return " ".join([s[1]] + [r_arg(a) for a in s[2]])
    if k == "loop":
        return f"loop {s[1]} " + r_block(s[2], s[3], ind)
    if k == "blk":
        return r_block(s[1], s[2], ind)
    if k == "sub":
        return "subcircuit " + ("" if s[1] is None else f"{s[1]} ") + r_block(False, s[2], ind)
    raise KeyError(k)


def render(p):
    lines = []
    if p.get("use"):
        lines.append(f"from {p['use']} usepulses *")
    lines += [f"let {k} {v}" for k, v in p["lets"]]
    lines.append(f"register r[{p['reg']}]")
    lines += [r_decl(d) for d in p["maps"]]
    for name, params, par, stmts in p["macros"]:
        lines.append(" ".join(["macro", name] + list(params)) + " " + r_block(par, stmts, 0))
    lines += [r_stmt(s) for s in p["body"]]
    return "\n".join(lines) + "\n"


# ------------------------------------------------------------------------------------------------ spec -> meaning

class Invalid(Exception):
    """the script cannot give this program a meaning (it makes no claim then)"""


def number(text):
    """value of a number token, by Python's own reading"""
    if _INT.match(text):
        if len(text.lstrip("+-")) > 4300:
            raise Invalid("integer literal beyond Python's conversion limit")
        return int(text)
    if _NUM.match(text):
        v = float(text)
        if v in (float("inf"), float("-inf")):
            raise Invalid("float literal out of range")
        return v
    raise Invalid(f"not a number token: {text[:20]!r}")


def int_of(atom, lets, penv):
    if is_lit(atom):
        v = number(atom)
    elif atom in penv:
        pv = penv[atom]
        if pv[0] != "n":
            raise Invalid(f"{atom} is not a number")
        v = pv[1]
    elif atom in lets:
        v = lets[atom]
    else:
        raise Invalid(f"unknown name {atom}")
    if isinstance(v, bool) or not isinstance(v, int):
        raise Invalid(f"{atom} is not an integer")
    return v


def count_of(start, stop, step):
    if step > 0:
        return max(0, (stop - start + step - 1) // step)
    return max(0, (start - stop - step - 1) // (-step))


def qrange(fund, first, count, step):
    """a sequence of fundamental qubits fund[first], fund[first+step], ... (count of them), in canonical form"""
    if count == 0:
        return ("R", fund, 0, 0, 1)
    if count == 1:
        return ("R", fund, first, 1, 1)
    return ("R", fund, first, count, step)


def as_range(entry, name):
    if entry[0] == "F":
        return qrange(name, 0, entry[1], 1)
    if entry[0] == "R":
        return entry
    raise Invalid(f"{name} is not a register")


def ev_header(p):
    """-> (lets: name -> number, regs: name -> ("F", n) | ("R", fund, first, count, step) | ("Q", fund, index))"""
    lets, regs = {}, {}
    for name, text in p["lets"]:
        if name in lets:
            raise Invalid("let twice")
        lets[name] = number(text)
    n = int_of(p["reg"], lets, {})
    regs["r"] = ("F", n)
    for d in p["maps"]:
        k, name, src = d[0], d[1], d[2]
        if name in lets or name in regs:
            raise Invalid(f"{name} declared twice")
        if src not in regs:
            raise Invalid(f"unknown source {src}")
        _, fund, first, count, step = as_range(regs[src], src)
        if k == "map":
            regs[name] = qrange(fund, first, count, step)
        elif k == "mapq":
            i = int_of(d[3], lets, {})
            if not 0 <= i < count:
                raise Invalid("index out of range")
            regs[name] = ("Q", fund, first + i * step)
        else:
            a = 0 if d[3] is None else int_of(d[3], lets, {})
            b = count if d[4] is None else int_of(d[4], lets, {})
            c = 1 if d[5] is None else int_of(d[5], lets, {})
            if c == 0:
                raise Invalid("zero step")
            m = count_of(a, b, c)
            if m and not (0 <= a < count and 0 <= a + (m - 1) * c < count):
                raise Invalid("slice out of range")
            regs[name] = qrange(fund, first + a * step, m, step * c)
    return lets, regs


def ev_arg(a, lets, regs, penv):
    if a[0] == "v":
        atom = a[1]
        if is_lit(atom):
            return ("n", number(atom))
        if atom in penv:
            return penv[atom]
        if atom in lets:
            return ("n", lets[atom])
        if atom in regs:
            e = regs[atom]
            return ("q", e[1], e[2]) if e[0] == "Q" else ("r",) + as_range(e, atom)[1:]
        raise Invalid(f"unknown name {atom}")
    name = a[1]
    if name in penv:
        base = penv[name]
        if base[0] != "r":
            raise Invalid(f"{name} is not a register")
        _, fund, first, count, step = base
    elif name in regs:
        _, fund, first, count, step = as_range(regs[name], name)
    else:
        raise Invalid(f"unknown register {name}")
    i = int_of(a[2], lets, penv)
    if not 0 <= i < count:
        raise Invalid("index out of range")
    return ("q", fund, first + i * step)


def ev_stmt(s, env, penv, depth=0):
    lets, regs, macros = env
    if depth > 10:
        raise Invalid("too deep")
    k = s[0]
    if k == "g":
        args = tuple(ev_arg(a, lets, regs, penv) for a in s[2])
        if s[1] in macros:
            _, params, par, stmts = macros[s[1]]
            if len(params) != len(args):
                raise Invalid("arity")
            inner = dict(zip(params, args))
            return ("par" if par else "seq", [ev_stmt(x, env, inner, depth + 1) for x in stmts])
        return ("g", s[1], args)
    if k == "loop":
        n = int_of(s[1], lets, penv)
        if n < 0:
            raise Invalid("negative count")
        return ("rep", n, ("par" if s[2] else "seq", [ev_stmt(x, env, penv, depth + 1) for x in s[3]]))
    if k == "blk":
        return ("par" if s[1] else "seq", [ev_stmt(x, env, penv, depth + 1) for x in s[2]])
    if k == "sub":
        n = 1 if s[1] is None else int_of(s[1], lets, penv)
        if n < 0:
            raise Invalid("negative count")
        return ("sub", n, [ev_stmt(x, env, penv, depth + 1) for x in s[2]])
    raise KeyError(k)


UNROLL = 12
EMPTY = ("seq", ())


def norm(node):
    """canonical gate-level form: nested same-kind blocks spliced, empty blocks dropped, one-item blocks = the item,
    loops of up to UNROLL repetitions unrolled, longer ones kept as ("rep", count, body); a block that is never run has no body"""
    t = node[0]
    if t == "g":
        return node
    if t == "sub":
        if node[1] == 0:
            return ("sub", 0, ())
        inner = norm(("seq", node[2]))
        items = inner[1] if inner[0] == "seq" else (inner,)
        return ("sub", node[1], tuple(items))
    if t == "rep":
        n, body = node[1], norm(node[2])
        if n == 0 or body == EMPTY:
            return EMPTY
        if n == 1:
            return body
        if n <= UNROLL:
            return norm(("seq", [body] * n))
        if body[0] == "rep":
            return ("rep", n * body[1], body[2])
        return ("rep", n, body)
    out = []
    for ch in node[1]:
        c = ch if ch[0] == "g" else norm(ch)
        if c[0] in ("seq", "par") and (c[0] == t or len(c[1]) == 0):
            out.extend(c[1])
        else:
            out.append(c)
    if len(out) == 1:
        return out[0]
    if not out:
        return EMPTY
    return (t, tuple(out))


def analyse(p):
    """-> {"decls": (lets, regs) | None, "meaning": tree | None}"""
    try:
        lets, regs = ev_header(p)
    except Invalid:
        return {"decls": None, "meaning": None}
    try:
        macros = {}
        for m in p["macros"]:
            if m[0] in macros or m[0] in lets or m[0] in regs:
                raise Invalid("macro name clash")
            macros[m[0]] = m
        meaning = norm(("seq", [ev_stmt(s, (lets, regs, macros), {}) for s in p["body"]]))
    except Invalid:
        meaning = None
    return {"decls": (lets, regs), "meaning": meaning}


def show(x, limit=60):
    """JSON-friendly rendering of declarations / meanings (long integers abbreviated)"""
    if isinstance(x, dict):
        return {k: show(v, limit) for k, v in x.items()}
    if isinstance(x, (tuple, list)):
        return [show(v, limit) for v in x]
    if isinstance(x, bool) or x is None or isinstance(x, str):
        return x
    if isinstance(x, int):
        s = repr(x) if abs(x) < 10**limit else f"<{len(repr(abs(x)))}-digit integer ending {abs(x) % 1000:03d}>"
        return s
    return repr(x)


# ------------------------------------------------------------------------------------------------ value pools

P16, P31, P32, P53, P63, P64 = 2**16, 2**31, 2**32, 2**53, 2**63, 2**64
L4299 = "1" + "0" * 4298          # 4299 digits
L4299b = "1" + "0" * 4297 + "1"
L4299n = "9" * 4299
L4300 = "1" + "0" * 4299          # 4300 digits: the longest literal int() converts
L4300b = "1" + "0" * 4298 + "1"

# (a, b, class) -- texts of two integer tokens
INT_FALSY = [("0", "1"), ("0", "2"), ("0", "3"), ("1", "2"), ("2", "3"), ("-0", "1"), ("+0", "1"), ("00", "1"), ("0", "01"), ("1", "3")]
INT_SAME = [("0", "-0"), ("0", "+0"), ("0", "00"), ("1", "+1"), ("1", "01"), ("2", "+2")]
M61 = 2**61 - 1                   # hash(v) == hash(v + M61) for Python integers
INT_WRAP = [(str(v), str(v + w)) for v in (0, 1, 2) for w in (P16, P32, P64, M61)] + [("0", str(P63)), ("1", str(1 + 256)), ("0", "256")]
INT_ADJ = [(str(a), str(b)) for a, b in [(255, 256), (P16 - 1, P16), (P16, P16 + 1), (P31 - 1, P31), (P32 - 1, P32), (P32, P32 + 1), (P53 - 1, P53),
                                         (P53, P53 + 1), (P53 + 1, P53 + 2), (P63 - 1, P63), (P63, P63 + 1), (P64 - 1, P64), (P64, P64 + 1),
                                         (10**30, 10**30 + 1), (P53, P53 + 2), (10**18, 10**18 + 1)]]
INT_LONG = [(L4299, L4299b), (L4300, L4300b), (L4299n, L4300), (L4299, L4300)]
NEG = [("-1", "1"), ("-1", "0"), ("-1", "-2")]        # counts only: the script gives negative counts no meaning

FLOAT_TEXTS = ["0", "-0", "0.0", "-0.0", "+0.0", "0.00", ".0", "1.0e-400", "0.0e5", "1", "1.0", "-1", "-1.0", "0.5", ".5", "-.5", "-0.5",
               "0.1", "0.10000000000000002", "0.09999999999999999", "0.3", "0.30000000000000004", "1.0000000000000002", "0.9999999999999999",
               "9007199254740992", "9007199254740993", "9007199254740992.0", "9007199254740993.0", "9007199254740994.0",
               "1.7976931348623157e308", "1.7976931348623155e308", "5.0e-324", "1.0e-323", "2.2250738585072014e-308", "2.225073858507201e-308",
               "1.0e5", "100000", "100000.0", "1.0E5", "1.0e+5", "1.0e6", "123456789.123456789", "123456789.12345679", "1.0e22", "1.0e23",
               "9.999999999999999e22", "18446744073709551615", "18446744073709551616", "18446744073709551616.0", "3.141592653589793",
               "3.1415926535897927", "2", "2.0", "65536", "65536.0", "4294967296.0", "-1.0e-5", "1.0e-5", "0.00001"]
FLOAT_CURATED = [("0", "0.5"), ("0.0", "0.5"), ("-0.0", "0.5"), ("0", "5.0e-324"), ("0.0", "5.0e-324"), ("-0.0", "5.0e-324"), ("1.0e-400", "5.0e-324"),
                 ("0.0", "1.0e-400"), ("0", "0.0"), ("0.0", "-0.0"), ("0", "-0.0"), ("1", "1.0"), ("0", "1.0"), ("0.0", "1"), ("0.0", "1.0"),
                 ("1.0", "1.0000000000000002"), ("1.0", "0.9999999999999999"), ("1", "1.0000000000000002"), ("0.1", "0.10000000000000002"),
                 ("0.1", "0.09999999999999999"), ("0.3", "0.30000000000000004"), ("9007199254740992", "9007199254740993"),
                 ("9007199254740992.0", "9007199254740993"), ("9007199254740993", "9007199254740993.0"), ("9007199254740992.0", "9007199254740994.0"),
                 ("9007199254740992.0", "9007199254740993.0"), ("1.7976931348623157e308", "1.7976931348623155e308"), ("5.0e-324", "1.0e-323"),
                 ("2.2250738585072014e-308", "2.225073858507201e-308"), ("1.0e23", "9.999999999999999e22"), ("1.0e22", "1.0e23"),
                 ("18446744073709551615", "18446744073709551616.0"), ("18446744073709551616", "18446744073709551616.0"),
                 ("18446744073709551615", "18446744073709551616"), ("-1", "1"), ("-1.0", "1.0"), ("-0.5", "0.5"), ("0.5", ".5"), ("-.5", ".5"),
                 ("1.0e5", "100000"), ("1.0e5", "1.0e6"), ("1.0E5", "1.0e+5"), ("123456789.123456789", "123456789.12345679"),
                 ("3.141592653589793", "3.1415926535897927"), ("2", "2.0"), ("65536", "65536.0"), ("0", "65536"), ("0.0", "4294967296.0"),
                 ("1.0e-5", "0.00001"), ("-1.0e-5", "1.0e-5"), ("0", "1"), ("0", "2")]


def int_pairs(rng, thorough, with_neg=False, with_same=True):
    """a pool of integer token pairs: all of the falsy ones, a sample of the rest (all of them when thorough)"""
    out = [(a, b, "falsy") for a, b in INT_FALSY]
    pick = (lambda L, k: L) if thorough else (lambda L, k: rng.sample(L, min(k, len(L))))
    out += [(a, b, "wrap") for a, b in pick(INT_WRAP, 3)]
    out += [(a, b, "adjacent") for a, b in pick(INT_ADJ, 4)]
    if with_same:
        out += [(a, b, "respelled") for a, b in pick(INT_SAME, 2)]
    if thorough or rng.random() < 0.15:
        out += [(a, b, "long") for a, b in pick(INT_LONG, 1)]
    if with_neg:
        out += [(a, b, "negative") for a, b in pick(NEG, 1)]
    return out


def float_pairs(rng, thorough):
    out = [(a, b, "float_curated") for a, b in (FLOAT_CURATED if thorough else rng.sample(FLOAT_CURATED, 8))]
    for _ in range(12 if thorough else 3):
        a, b = rng.sample(FLOAT_TEXTS, 2)
        out.append((a, b, "float_random"))
    return out


# ------------------------------------------------------------------------------------------------ fragments
# A fragment is one statement that uses ONE varying token, plus what it needs (lets, maps, macros, register size).
# frag(role, route, ctx, pair, side, tag, gs) -> dict | None (combination not expressible)

STMT_ROLES = ["index", "index_second", "loop_count", "loop_count_par", "loop_count_empty", "sub_count", "sub_count_empty", "sub_count_loop",
              "arg_only", "arg_first", "arg_last", "arg_mid", "arg_after_zero"]
HEAD_ROLES = ["map_index", "map_index_of_slice", "slice_start", "slice_stop", "slice_step", "slice_of_slice_stop", "slice_rev_start", "slice_rev_step",
              "reg_size", "let_unused"]
ROLES = STMT_ROLES + HEAD_ROLES
STMT_ROUTES = ["literal", "let", "let_ref", "param", "let_param", "nested_param", "param_beside_register"]
HEAD_ROUTES = ["literal", "let", "let_ref"]
CTXS = ["top", "between", "in_loop", "in_par_loop", "in_par", "in_seq", "in_seq_in_par", "in_sub", "in_sub_n", "in_macro", "loop_in_sub", "sub_in_loop",
        "in_loop0", "in_par_macro", "after_twin"]
INT_ROLES = {"index", "index_second", "loop_count", "loop_count_par", "loop_count_empty", "sub_count", "sub_count_empty", "sub_count_loop", "map_index",
             "map_index_of_slice", "slice_start", "slice_stop", "slice_step", "slice_of_slice_stop", "slice_rev_start", "slice_rev_step", "reg_size"}
COUNT_ROLES = {"loop_count", "loop_count_par", "loop_count_empty", "sub_count", "sub_count_empty", "sub_count_loop"}
SUB_ROLES = {"sub_count", "sub_count_empty", "sub_count_loop"}
ARG_ROLES = {"arg_only", "arg_first", "arg_last", "arg_mid", "arg_after_zero"}
GATE_ROLES = ARG_ROLES | {"index", "index_second"}          # the statement is a gate


def V(atom):
    return ("v", atom)


def _val(text):
    try:
        return number(text)
    except Invalid:
        return None


def site(role, atom, tag, gs, sizes):
    """the statement (+ maps) in which `atom` plays `role`; None = not expressible.  sizes: register size both sides must have."""
    g, h = ("X", "Y") if gs else ("G", "H")
    maps = []
    r0 = ("ix", "r", "0")
    if role == "index":
        st = ("g", g, [("ix", "r", atom)])
    elif role == "index_second":
        st = ("g", "CX" if gs else "G2", [("ix", "r", "1" if not gs else str(sizes - 1)), ("ix", "r", atom)])
    elif role == "loop_count":
        st = ("loop", atom, False, [("g", g, [r0])])
    elif role == "loop_count_par":
        st = ("loop", atom, True, [("g", g, [r0]), ("g", h, [("ix", "r", "1")])])
    elif role == "loop_count_empty":
        st = ("loop", atom, False, [])
    elif role == "sub_count":
        st = ("sub", atom, [("g", g, [r0])])
    elif role == "sub_count_empty":
        st = ("sub", atom, [])
    elif role == "sub_count_loop":
        st = ("sub", atom, [("loop", "2", False, [("g", g, [r0])]), ("g", h, [r0])])
    elif role == "arg_only":
        if gs:
            return None
        st = ("g", g, [V(atom)])
    elif role == "arg_first":
        st = ("g", "PF" if gs else g, [V(atom), r0])
    elif role == "arg_last":
        st = ("g", "P" if gs else g, [r0, V(atom)])
    elif role == "arg_mid":
        if gs:
            return None
        st = ("g", g, [V("1"), V(atom), V("0")])
    elif role == "arg_after_zero":
        if gs:
            return None
        st = ("g", g, [V("0"), V(atom), r0])
    else:
        raise KeyError(role)
    return st, maps


def head_site(role, atom, tag, gs, n, use):
    """(maps, statement) for a role that lives in the header; n = size of the register (an int); use = how the alias is used"""
    a, b = "a" + tag, "b" + tag
    g = "X" if gs else "G"
    N = str(n)

    def user(name, indexable):
        if use == "unused":
            return ("g", g, [("ix", "r", "0")])
        if use == "whole" and not gs:
            return ("g", g, [V(name)])
        if indexable:
            return ("g", g, [("ix", name, "0")])
        return ("g", g, [V(name)]) if not gs else ("g", g, [("ix", "r", "0")])
    if role == "map_index":
        return [("mapq", a, "r", atom)], (("g", g, [V(a)]) if use != "unused" else ("g", g, [("ix", "r", "0")]))
    if role == "map_index_of_slice":
        return [("maps", b, "r", "1", None, None), ("mapq", a, b, atom)], (("g", g, [V(a)]) if use != "unused" else ("g", g, [("ix", "r", "0")]))
    if role == "slice_start":
        return [("maps", a, "r", atom, N, None)], user(a, False)
    if role == "slice_stop":
        return [("maps", a, "r", "0", atom, None)], user(a, False)
    if role == "slice_step":
        return [("maps", a, "r", "0", N, atom)], user(a, True)
    if role == "slice_of_slice_stop":
        return [("maps", b, "r", "1", N, "2"), ("maps", a, b, None, atom, None)], user(a, False)
    if role == "slice_rev_start":
        return [("maps", a, "r", atom, "-1", "-1")], user(a, True)
    if role == "slice_rev_step":
        return [("maps", a, "r", str(n - 1), "-1", atom)], user(a, True)
    raise KeyError(role)


def need_of(role, pair):
    """register size needed so that both sides are in range (None = no constraint from this role)"""
    vals = [v for v in (_val(t) for t in pair if t is not None) if isinstance(v, int) and not isinstance(v, bool)]
    top = max(vals + [0])
    if role in ("index", "index_second", "map_index"):
        return top + 2
    if role == "map_index_of_slice":
        return top + 3
    if role in ("slice_start", "slice_stop", "slice_rev_start"):
        return top + 2
    if role == "slice_of_slice_stop":
        return 2 * top + 4
    if role in ("slice_step", "slice_rev_step"):
        return 6
    if role in ("loop_count_par",):
        return 2
    return 1


def wrap(stmt, ctx, tag, gs, gateish, has_sub):
    """place the statement in its context -> (macros, body) | None"""
    h = "Y" if gs else "H"
    other = ("g", h, [("ix", "r", "0")])
    if ctx == "top":
        return [], [stmt]
    if ctx == "between":
        return [], [other, stmt, other]
    if ctx == "in_loop":
        return [], [("loop", "2", False, [stmt, other])]
    if ctx == "in_loop0":
        return [], [("loop", "0", False, [stmt]), other]
    if ctx == "in_par_loop":
        return ([], [("loop", "3", True, [stmt, other])]) if gateish else None
    if ctx == "in_par":
        return ([], [("blk", True, [stmt, other])]) if gateish else None
    if ctx == "in_seq":
        return [], [("blk", False, [stmt, other])]
    if ctx == "in_seq_in_par":
        return ([], [("blk", True, [("blk", False, [stmt, other]), other])]) if not has_sub else None
    if ctx == "in_sub":
        return ([], [("sub", None, [stmt, other])]) if not has_sub else None
    if ctx == "in_sub_n":
        return ([], [("sub", "2", [stmt])]) if not has_sub else None
    if ctx == "in_macro":
        return [("w" + tag, [], False, [stmt, other])], [("g", "w" + tag, [])]
    if ctx == "in_par_macro":
        return ([("w" + tag, [], True, [stmt, other])], [("g", "w" + tag, [])]) if gateish else None
    if ctx == "loop_in_sub":
        return ([], [("sub", None, [("loop", "2", False, [stmt])])]) if not has_sub else None
    if ctx == "sub_in_loop":
        return ([], [("loop", "2", False, [("sub", None, [stmt])])]) if not has_sub else None
    raise KeyError(ctx)


def frag(role, route, ctx, pair, side, tag, gs, n, use="whole"):
    """-> {"lets", "maps", "macros", "body", "reg"} for side 0 / 1 of the pair, or None"""
    text = pair[side]
    k, k2, m, m2 = "k" + tag, "j" + tag, "m" + tag, "mm" + tag
    lets, macros = [], []
    if role == "let_unused":
        if route != "literal" or text is None:
            return None
        return {"lets": [(k, text)], "maps": [], "macros": [], "body": [], "reg": None}
    if text is None and route != "literal":
        return None
    via_macro = route in ("param", "let_param", "nested_param", "param_beside_register")
    if via_macro and role in HEAD_ROLES:
        return None
    # the atom at the site
    if route == "literal":
        atom = text
    elif route == "let":
        lets.append((k, text))
        atom = k
    elif route == "let_ref":
        if pair[0] is None or pair[1] is None:
            return None
        lets += [(k, pair[0]), (k2, pair[1])]
        atom = (k, k2)[side]
    else:
        atom = "p"
    reg = None
    if role == "reg_size":
        if text is not None and is_lit(text) and route == "literal" and (_val(text) or 0) <= 0:
            return None
        g = "X" if gs else "G"
        stmt = ("g", g, [V("r")]) if (use == "whole" and not gs) else ("g", g, [("ix", "r", "0")])
        maps, reg = [], atom
    elif role in HEAD_ROLES:
        if atom is None:
            if role not in ("slice_start", "slice_stop", "slice_step", "slice_of_slice_stop"):
                return None
        maps, stmt = head_site(role, atom, tag, gs, n, use)
    else:
        if atom is None and role not in SUB_ROLES:
            return None
        if route == "param_beside_register":
            if role != "index":
                return None
            stmt, maps = ("g", "X" if gs else "G", [("ix", "q", "p")]), []
        else:
            res = site(role, atom, tag, gs, n)
            if res is None:
                return None
            stmt, maps = res
    if via_macro:
        arg = V(text)
        if route == "let_param":
            lets.append((k, text))
            arg = V(k)
        if route == "param_beside_register":
            macros.append((m, ["q", "p"], False, [stmt]))
            stmt = ("g", m, [V("r"), arg])
        elif route == "nested_param":
            macros.append((m, ["p"], False, [stmt]))
            macros.append((m2, ["y"], False, [("g", m, [V("y")])]))
            stmt = ("g", m2, [arg])
        else:
            macros.append((m, ["p"], False, [stmt]))
            stmt = ("g", m, [arg])
    gateish = via_macro or role in GATE_ROLES or role in HEAD_ROLES
    if ctx == "after_twin":
        # the statement of side 0 stands in front on BOTH sides: [s(a), s(a)] against [s(a), s(b)]  (a cache of built
        # statements keyed too coarsely would turn the second into the first)
        if role in HEAD_ROLES or route not in ("literal", "param", "nested_param", "param_beside_register"):
            return None
        twin = frag(role, route, "top", pair, 0, tag, gs, n, use)
        if twin is None:
            return None
        return {"lets": lets, "maps": maps, "macros": macros, "body": [twin["body"][0], stmt], "reg": reg}
    placed = wrap(stmt, ctx, tag, gs, gateish, role in SUB_ROLES)
    if placed is None:
        return None
    wm, body = placed
    return {"lets": lets, "maps": maps, "macros": macros + wm, "body": body, "reg": reg}


def assemble(frags, n, use_module):
    """one program from fragments (in order); the register has size n unless a fragment sets it"""
    reg = str(n)
    for f in frags:
        if f["reg"] is not None:
            reg = f["reg"]
    return {"use": use_module, "lets": [x for f in frags for x in f["lets"]], "reg": reg, "maps": [x for f in frags for x in f["maps"]],
            "macros": [x for f in frags for x in f["macros"]], "body": [x for f in frags for x in f["body"]]}


def routes_of(role):
    if role == "let_unused":
        return ["literal"]
    return HEAD_ROUTES if role in HEAD_ROLES else STMT_ROUTES


def pairs_of(role, rng, thorough, n_hint=5):
    """token pairs for a role: (a, b, class); None = the token is absent"""
    if role in ARG_ROLES or role == "let_unused":
        return float_pairs(rng, thorough) + [(a, b, c) for a, b, c in int_pairs(rng, thorough) if c in ("falsy", "adjacent", "wrap", "long")][: (None if thorough else 8)]
    if role in SUB_ROLES:
        return [(None, "0", "absent"), (None, "1", "absent"), (None, "2", "absent"), (None, "-0", "absent")] + int_pairs(rng, thorough, with_neg=True)
    if role in COUNT_ROLES:
        return int_pairs(rng, thorough, with_neg=True)
    if role in ("slice_step", "slice_rev_step"):
        neg = role == "slice_rev_step"
        base = [("1", "2"), ("2", "3"), ("1", "3"), ("1", "5"), ("2", "6"), ("5", "6"), ("1", "+1"), ("3", "7")]
        out = [(("-" + a) if neg else a, ("-" + b) if neg else b, "step") for a, b in base]
        if not neg:
            out += [(None, "1", "absent"), (None, "2", "absent"), ("1", str(P64), "wrap"), ("6", str(P64 + 6), "wrap"), ("1", str(P16 + 1), "wrap")]
        else:
            out += [("-1", str(-P64 - 1), "wrap"), ("-6", str(-P53), "adjacent")]
        return out
    if role in ("slice_start", "slice_stop", "slice_of_slice_stop"):
        return [(None, "0", "absent"), (None, "1", "absent"), (None, "2", "absent")] + int_pairs(rng, thorough)
    if role == "reg_size":
        return [(a, b, c) for a, b, c in int_pairs(rng, thorough)]
    return int_pairs(rng, thorough)


# ------------------------------------------------------------------------------------------------ pair construction

def make_pair(rng, role, route, ctx, pair, gs, extra=None, use_module=None, use="whole"):
    """-> (A, B, tag dict) | None"""
    need = need_of(role, pair[:2])
    n = max(need, 2)
    if extra is not None:
        n = max(n, extra["need"])
    fa = frag(role, route, ctx, pair, 0, "", gs, n, use)
    fb = frag(role, route, ctx, pair, 1, "", gs, n, use)
    if fa is None or fb is None:
        return None
    if extra is not None:
        if role == "reg_size" and extra["need"] > 1:
            return None
        e = frag(extra["role"], extra["route"], extra["ctx"], (extra["text"], extra["text"]), 0, "e", gs, n, use)
        if e is None or e["reg"] is not None:
            return None
        fas, fbs = ([e, fa], [e, fb]) if extra["first"] else ([fa, e], [fb, e])
    else:
        fas, fbs = [fa], [fb]
    return assemble(fas, n, use_module), assemble(fbs, n, use_module)


EXTRA_ROLES = ["index", "loop_count", "sub_count", "arg_last", "arg_only", "map_index", "slice_stop", "loop_count_empty", "sub_count_empty"]
EXTRA_TEXTS = {"index": ["0", "1"], "loop_count": ["0", "1", "2", str(P64)], "sub_count": ["0", "1", None, "2", str(P53 + 1)], "arg_last": ["0", "0.0", "-0.0", "1", "0.5"],
               "arg_only": ["0", "0.0", "0.1"], "map_index": ["0", "1"], "slice_stop": ["0", "1", "2"], "loop_count_empty": ["0", "1"], "sub_count_empty": ["0", None]}


def random_extra(rng, gs):
    role = rng.choice(EXTRA_ROLES)
    if gs and role == "arg_only":
        role = "arg_last"
    text = rng.choice(EXTRA_TEXTS[role])
    if gs and role == "arg_last":
        text = rng.choice(["0", "1", "2"])
    route = rng.choice(HEAD_ROUTES if role in HEAD_ROLES else ["literal", "let", "param", "let_param"]) if text is not None else "literal"
    ctx = rng.choice(["top", "in_loop", "in_macro", "in_seq", "between"])
    need = need_of(role, (text, text))
    return {"role": role, "route": route, "ctx": ctx, "text": text, "first": rng.random() < 0.5, "need": need}


def core_grid():
    """always run: zero against one / two / absent for every role along every route (top level), subcircuit and loop counts in every context"""
    out = []
    for role in ROLES:
        for route in routes_of(role):
            for pair in [("0", "1", "falsy"), ("0", "2", "falsy"), ("1", "2", "falsy"), (None, "0", "absent"), (None, "1", "absent"), ("0.0", "0.5", "float_curated"),
                         ("0", "0.5", "float_curated"), ("-1", "-2", "step")]:
                if pair[2] == "float_curated" and role in INT_ROLES:
                    continue
                if pair[2] == "step" and role != "slice_rev_step":
                    continue
                if role == "slice_rev_step" and pair[2] != "step":
                    continue
                out.append((role, route, "top", pair, False))
    for role in ["sub_count", "loop_count", "index", "arg_last", "sub_count_empty"]:
        for ctx in CTXS[1:]:
            for route in ("literal", "param", "let"):
                for pair in [("0", "1", "falsy"), (None, "0", "absent")]:
                    out.append((role, route, ctx, pair, False))
    for role in ["sub_count", "loop_count", "index", "arg_last", "arg_first", "map_index", "slice_stop"]:
        for route in ("literal", "let", "param"):
            out.append((role, route, "top", ("0", "1", "falsy"), True))
    # numeric extremes, one of each class for every role that takes them, as a literal and through a let / a parameter
    ints = [("0", str(P16), "wrap"), ("0", str(P32), "wrap"), ("0", str(P64), "wrap"), ("0", str(M61), "wrap"), ("1", str(1 + M61), "wrap"),
            (str(P53), str(P53 + 1), "adjacent"), (str(P63 - 1), str(P63), "adjacent"), (str(P64 - 1), str(P64), "adjacent"), (str(P16 - 1), str(P16), "adjacent"),
            (L4300, L4300b, "long"), (L4299n, L4300, "long")]
    floats = [("0.1", "0.10000000000000002", "float_curated"), ("1.0", "1.0000000000000002", "float_curated"), ("0.0", "5.0e-324", "float_curated"),
              ("1.7976931348623157e308", "1.7976931348623155e308", "float_curated"), ("9007199254740993", "9007199254740992.0", "float_curated"),
              ("18446744073709551615", "18446744073709551616.0", "float_curated"), ("2.2250738585072014e-308", "2.225073858507201e-308", "float_curated"),
              ("-0.5", "0.5", "float_curated"), ("0.0", "-0.0", "float_curated"), ("1", "1.0", "float_curated")]
    for role in ["index", "loop_count", "sub_count", "arg_last", "arg_only", "map_index", "slice_stop", "slice_start", "reg_size", "let_unused", "map_index_of_slice"]:
        for route in ("literal", "let", "param"):
            for pair in ints:
                out.append((role, route, "top", pair, False))
    for role in ["arg_last", "arg_only", "arg_first", "arg_mid", "let_unused"]:
        for route in ("literal", "let", "param", "nested_param"):
            for pair in floats:
                out.append((role, route, "top", pair, False))
    # behind a copy of side A's statement
    for role in ["arg_last", "arg_only", "arg_first", "index", "loop_count", "sub_count", "index_second"]:
        for route in ("literal", "param"):
            for pair in [("0", "1", "falsy"), ("1", "2", "falsy"), ("0", str(M61), "wrap")] + ([("0", "0.5", "float_curated"), ("0.1", "0.10000000000000002", "float_curated"),
                                                                                             ("1", "1.5", "float_curated")] if role in ARG_ROLES else []):
                out.append((role, route, "after_twin", pair, False))
    return out


# ------------------------------------------------------------------------------------------------ real side

def parse_text(text, gs):
    return parse_jaqal_string(text, inject_pulses=GATES if gs else None, autoload_pulses=False)


ORACLES = ["eq_never_raises", "eq_symmetric", "eq_reflexive", "reparse_equal", "equal_pair_has_same_declarations_and_meaning",
           "declaration_change_is_unequal", "meaning_change_is_unequal", "different_declarations_or_meaning_different_text"]


def clip(s, k=400):
    return s if len(s) <= k else s[:k // 2] + f"...<{len(s) - k} more characters>..." + s[-k // 2:]


class Acc:
    def __init__(self):
        self.oracle = {k: {"cases": 0, "failures": []} for k in ORACLES}
        self.dist = Counter()
        self.samples = []
        self.nontrivial = set()
        self.cache = {}

    def check(self, name, ok, case, detail):
        o = self.oracle[name]
        o["cases"] += 1
        if not ok:
            if len(o["failures"]) < 20:
                o["failures"].append({"case": case, "detail": detail})
            else:
                o["more_failures"] = o.get("more_failures", 0) + 1

    def parsed(self, text, gs):
        """-> (status, circuit, generated text | None); the program-level oracles are evaluated once per distinct text"""
        key = (text, gs)
        if key not in self.cache:
            st, c = guarded(parse_text, text, gs)
            gen = None
            if st == "ok":
                stg, g = guarded(generate_jaqal_program, c)
                gen = g if stg == "ok" and isinstance(g, str) else None
                if gen is None:
                    self.dist[f"generate_fails:{stg}"] += 1
                self.cache[key] = (st, c, gen)
                self.program_oracles(text, gs, c, gen)
            else:
                self.dist[f"program_rejected:{st}"] += 1
                self.cache[key] = (st, None, None)
        return self.cache[key]

    def program_oracles(self, text, gs, c, gen):
        case = {"kind": "program", "text": text, "gateset": gs}
        self.dist["distinct_programs"] += 1
        st2, c2 = guarded(parse_text, text, gs)
        r = [py_eq(c, c)] + ([py_eq(c, c2), py_eq(c2, c)] if st2 == "ok" else [])
        self.check("eq_reflexive", all(x is True for x in r), case, f"c==c, c==second parse of the same text, reverse: {r}")
        if gen is not None:
            st, cg = guarded(parse_text, gen, gs)
            if st != "ok":
                self.check("reparse_equal", False, case, f"generated text not accepted ({st}: {cg}): {clip(gen)!r}")
            else:
                e = [py_eq(c, cg), py_eq(cg, c)]
                self.check("reparse_equal", e == [True, True], case, f"c==parse(generate(c)): {e[0]}, reverse: {e[1]}; text {clip(gen)!r}")


def pair_oracles(acc, case):
    gs = case["gateset"]
    sa, ca, ga = acc.parsed(case["a"], gs)
    sb, cb, gb = acc.parsed(case["b"], gs)
    if sa != "ok" or sb != "ok":
        acc.dist["pair_skipped_a_side_rejected"] += 1
        return None
    ab, ba = py_eq(ca, cb), py_eq(cb, ca)
    acc.check("eq_never_raises", isinstance(ab, bool) and isinstance(ba, bool), case, f"a==b: {ab}, b==a: {ba}")
    acc.check("eq_symmetric", ab == ba, case, f"a==b is {ab} but b==a is {ba}")
    equal = ab is True or ba is True
    dd, md = case.get("decl_differs"), case.get("meaning_differs")
    why = f"declarations {case.get('decls_a')} vs {case.get('decls_b')}; meanings {case.get('meaning_a')} vs {case.get('meaning_b')}"
    if equal:
        acc.check("equal_pair_has_same_declarations_and_meaning", not dd and not md, case,
                  f"the circuits compare equal (a==b {ab}, b==a {ba}) but declarations differ: {dd}, gate-level meaning differs: {md}; {why}")
    if dd:
        acc.check("declaration_change_is_unequal", ab is False and ba is False, case, f"declarations differ but a==b is {ab}, b==a is {ba}; {why}")
    if md:
        acc.check("meaning_change_is_unequal", ab is False and ba is False, case, f"gate-level meanings differ but a==b is {ab}, b==a is {ba}; {why}")
    if (dd or md) and ga is not None and gb is not None:
        acc.check("different_declarations_or_meaning_different_text", ga != gb, case, f"both circuits generate {clip(ga)!r}")
    return ab, ba, ca, cb


def token_diff(ta, tb):
    """how the two texts differ, token-wise (distribution only)"""
    split = lambda t: re.findall(r"[A-Za-z_][A-Za-z0-9_.]*|[-+]?[0-9]*\.?[0-9]+(?:[eE][-+]?[0-9]+)?|\S", t)  # noqa
    a, b = split(ta), split(tb)
    if len(a) == len(b):
        k = sum(x != y for x, y in zip(a, b))
        return f"{k}_token{'s' if k != 1 else ''}_substituted"
    if abs(len(a) - len(b)) == 1:
        lo, hi = (a, b) if len(a) < len(b) else (b, a)
        for i in range(len(hi)):
            if hi[:i] + hi[i + 1:] == lo:
                return "1_token_inserted"
    return "other"


def process(acc, A, B, tagd, gs, measure=True):
    ta, tb = render(A), render(B)
    if ta == tb:
        acc.dist["identical_texts_skipped"] += 1
        return
    ia, ib = analyse(A), analyse(B)
    da, db = ia["decls"], ib["decls"]
    dd = None if da is None or db is None else (da != db)
    md = None if ia["meaning"] is None or ib["meaning"] is None else (ia["meaning"] != ib["meaning"])
    case = {"kind": "pair", "gateset": gs, "a": ta, "b": tb, "decl_differs": dd, "meaning_differs": md,
            "decls_a": show(da), "decls_b": show(db), "meaning_a": show(ia["meaning"]), "meaning_b": show(ib["meaning"])}
    case.update(tagd)
    acc.dist["pairs_generated"] += 1
    res = pair_oracles(acc, case)
    if res is None:
        acc.dist[f"rejected:role:{tagd['role']}"] += 1
        return
    ab, ba, ca, cb = res
    acc.nontrivial.add(ta + "\x00" + tb)
    d = acc.dist
    d["pairs"] += 1
    for key in ("role", "route", "context", "values"):
        d[f"{key}:{tagd[key]}"] += 1
    d[f"role_x_route:{tagd['role']}:{tagd['route']}"] += 1
    if tagd.get("extra"):
        d["with_second_fragment"] += 1
        d[f"second_fragment:{tagd['extra'].split(':')[0]}"] += 1
    if tagd.get("usepulses"):
        d["with_usepulses_line"] += 1
    d["pairs_gateset" if gs else "pairs_no_gateset"] += 1
    d["text_difference:" + token_diff(ta, tb)] += 1
    d[f"script_verdict:decl_{'unknown' if dd is None else 'differs' if dd else 'same'}:meaning_{'unknown' if md is None else 'differs' if md else 'same'}"] += 1
    d["pair_compares_" + ("equal" if ab is True and ba is True else "unequal" if ab is False and ba is False else "ODD")] += 1
    if measure and md and tagd["role"] in STMT_ROLES and tagd["route"] in ("let", "let_param"):
        # NOT judged: C20 speaks about parser-produced circuits; after a pass the pair is only measured
        def same_after():
            fa, fb = fill_in_let(ca), fill_in_let(cb)
            return fa.body == fb.body and fa.macros == fb.macros
        st, v = guarded(same_after)
        d["measured(not judged):after_fill_in_let:meaning_differs:" + (("bodies_and_macros_EQUAL" if v else "unequal") if st == "ok" else st)] += 1
    if len(acc.samples) < 8 and not any(s["role"] == tagd["role"] for s in acc.samples):
        acc.samples.append({k: (clip(v) if isinstance(v, str) else v) for k, v in case.items() if k not in ("decls_a", "decls_b", "meaning_a", "meaning_b")})


# ------------------------------------------------------------------------------------------------ run / replay

def one(acc, rng, role, route, ctx, pair, gs, extra=None, use_module=None, use="whole"):
    built = make_pair(rng, role, route, ctx, pair, gs, extra, use_module, use)
    if built is None:
        acc.dist["combination_not_expressible"] += 1
        return False
    A, B = built
    tagd = {"role": role, "route": route, "context": ctx, "values": pair[2], "tokens": [None if t is None else clip(t, 40) for t in pair[:2]],
            "extra": None if extra is None else f"{extra['role']}:{extra['route']}:{extra['ctx']}", "usepulses": bool(use_module)}
    process(acc, A, B, tagd, gs)
    return True


def run(seed: int, n: int, driver: str = DEFAULT_DRIVER, thorough: bool = False) -> dict:
    _imports()
    acc = Acc()
    with alarm_handler():
        rng = random.Random(f"{seed}:c20_edge:core")
        for role, route, ctx, pair, gs in core_grid():
            one(acc, rng, role, route, ctx, pair, gs)
        if thorough:   # the whole product role x route x context for the falsy pairs
            for role in ROLES:
                for route in routes_of(role):
                    for ctx in CTXS[1:]:
                        for pair in [("0", "1", "falsy"), ("0", "2", "falsy"), (None, "0", "absent"), ("0.0", "0.5", "float_curated")]:
                            if (pair[2] == "float_curated") != (role in ARG_ROLES or role == "let_unused") and pair[2] != "absent":
                                continue
                            if role == "slice_rev_step":
                                pair = ("-1", "-2", "step")
                            for gs in (False, True):
                                one(acc, rng, role, route, ctx, pair, gs)
        done = acc.dist["pairs_generated"]
        acc.dist["core_grid_pairs"] = done
        rng = random.Random(f"{seed}:c20_edge:random")
        budget = max(0, n - done)
        tries = 0
        pools = {}
        while budget > 0 and tries < 20 * n + 1000:
            tries += 1
            role = rng.choice(ROLES)
            if rng.random() < 0.25:
                role = rng.choice(sorted(SUB_ROLES | {"loop_count", "index", "arg_last"}))
            route = rng.choice(routes_of(role))
            ctx = rng.choice(CTXS) if rng.random() < 0.7 else "top"
            if role not in pools or rng.random() < 0.05:
                pools[role] = pairs_of(role, rng, thorough)
            pair = rng.choice(pools[role])
            if rng.random() < 0.5:
                pair = (pair[1], pair[0], pair[2])
            gs = rng.random() < 0.2
            if gs and role == "arg_last":
                # typed gate P: its last argument is an integer (PF, used for arg_first, takes any number)
                pair = rng.choice(int_pairs(rng, thorough))
            extra = random_extra(rng, gs) if rng.random() < 0.45 else None
            use_module = rng.choice(["qscout.v1.std", "m", ".loc"]) if rng.random() < 0.15 else None
            use = rng.choice(["whole", "indexed", "unused"])
            before = acc.dist["pairs_generated"]
            one(acc, rng, role, route, ctx, pair, gs, extra, use_module, use)
            budget -= acc.dist["pairs_generated"] - before
    return {"corr": {}, "oracle": acc.oracle, "distribution": dict(sorted(acc.dist.items())),
            "samples": acc.samples, "nontrivial": len(acc.nontrivial)}


def replay(case: dict, driver: str = DEFAULT_DRIVER) -> dict:
    """re-run ONE failing case; {"oracle_ok": False, "detail": ..} when an oracle still fails on it"""
    _imports()
    with alarm_handler():
        acc = Acc()
        kind = case.get("kind")
        if kind == "program":
            acc.parsed(case["text"], case["gateset"])
        elif kind == "pair":
            pair_oracles(acc, case)
        else:
            return {"oracle_ok": None, "detail": f"unknown case kind {kind!r}"}
    bad = [(name, f["detail"]) for name, o in acc.oracle.items() for f in o["failures"]]
    if bad:
        return {"oracle_ok": False, "detail": "; ".join(f"{n}: {d}" for n, d in bad[:6])}
    return {"oracle_ok": True, "detail": "all oracles hold on this case"}


def main():
    ap = argparse.ArgumentParser()
    ap.add_argument("--driver", default=DEFAULT_DRIVER)
    ap.add_argument("--n", type=int, default=2500)
    ap.add_argument("--seed", type=int, default=20)
    ap.add_argument("--thorough", action="store_true")
    ap.add_argument("--json", action="store_true")
    args = ap.parse_args()
    res = run(args.seed, args.n, args.driver, args.thorough)
    if args.json:
        print(json.dumps(res, indent=1))
    bad = 0
    for name, d in res["oracle"].items():
        print(f"oracle {name}: {d['cases']} cases, {len(d['failures'])} failures")
        for x in d["failures"][:3]:
            print("  FINDING", json.dumps(x)[:2500])
        bad += len(d["failures"])
    print("distribution:")
    for k, v in res["distribution"].items():
        print("  ", k, v)
    print("nontrivial distinct cases:", res["nontrivial"])
    print("RESULT:", "OK" if bad == 0 else f"{bad} PROBLEMS")
    sys.exit(0 if bad == 0 else 1)


if __name__ == "__main__":
    main()
