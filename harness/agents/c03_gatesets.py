#!/venv/bin/python
"""C03 — several emulator runs in ONE process, over DIFFERENT native gate sets that share gate names and signatures.

The other C03 streams (emu_diff, walk_diff) inject one fixed gate set for the whole process, call the emulator once
per program and never look at a result again after a later run.  This stream covers that dimension:

  a HISTORY is a sequence of steps over a small world of
      definition pool : GateDefinition specs  {name, unitary spec | None, copy_of}.  Every name of the vocabulary
                        (A B N: q / R: q,int / RF: float,q / W: q,int,int / E F: q,q / EP: q,int,q / T: q,q,q /
                        I_A I_E I_R) has ONE signature, and several pool entries with different unitaries: permuted,
                        re-phased, parametrised differently (other coefficients on the classical arguments), a
                        rotation, no unitary at all, the very same unitary in a distinct object, a `.copy(ideal_unitary=…)`
                        of another entry;
      gate sets       : name -> pool entry (two sets that name the same entry share the GateDefinition OBJECT), with or
                        without `add_idle_gates` (then I_A / I_E / I_R are idle gates, otherwise ordinary definitions);
      programs        : random Jaqal texts over the shared vocabulary (and shared let / map / macro names, each program
                        with its own definitions): lets, let-sized register, alias chains, macros, loops, parallel
                        blocks, prepare_all/measure_all and `subcircuit {}` blocks, several subcircuits;
      circuits        : (program, gate set, entry point parse_jaqal_string | circuitbuilder.build) - the same text under
                        two gate sets, two circuits over the same gate-set object, the same pair twice;
      steps           : ["run", circuit, shared-backend | null]   run_jaqal_circuit (default backend, or one
                                                                  UnitarySerializedEmulator instance reused by runs)
                        ["parse", circuit]                        build the circuit object now, run it later
                        ["drop"]                                  forget every circuit / gate set / backend object
                                                                  (garbage collected; later steps build fresh objects,
                                                                  results of earlier runs are kept).
  The histories of one `run` execute one after the other in the harness process (which is itself one long history);
  besides the random histories there is a systematic sweep: every vocabulary name x every way its definition can differ
  between two sets that share all other definition objects x the orders AB / ABA / AAB / parse both then BA / shared
  backend / A drop B (one random order per pair in the quick tier, all of them in the thorough tier).
  A failing history is then re-run ALONE in a fresh interpreter (hash seed 0, address randomisation off, so that it
  behaves the same every time) and shrunk there (steps removed, unused objects pruned), so that the reported case fails
  on its own; if it only fails after earlier histories the case is {"kind": "sequence", "histories": [...]} and the
  failure is that of its last history.  `replay` runs a case the same way.

Oracles (property C03 on the real code alone; no Lean driver is used, `corr` is empty):
  state_is_product_of_own_gates   after EVERY run step, for each subcircuit of the returned result: `state_vector`
                                  equals U_k … U_1 e0 computed independently with numpy (explicit 2^n x 2^n embedding of
                                  each gate matrix, bit j of the gate index = j-th qubit argument, bit i of the state
                                  index = register qubit i) from the gate set THAT circuit was built with - exactly when
                                  all its matrices are Gaussian dyadic, to 1e-9 otherwise - and
                                  `simulated_probability_by_int` equals |amplitude|^2 to 1e-9.  Idle gates and gates
                                  without a unitary are skipped.  A valid program that raises is a failure too.
  earlier_results_stay_correct    after every later step, every result object returned by an EARLIER run (that was
                                  correct when first read) is read again and must still satisfy the same equation.

`distribution` records the situations reached (run after a different gate set with the same names, same text under
another set back to back, same circuit object run again, circuits sharing definition objects, shared backend reused,
after a drop, register size changed, …), history lengths and the systematic sweep.

    PYTHONPATH=/verif /venv/bin/python -m harness.agents.c03_gatesets [--seed S] [--count N] [--thorough]
"""
import argparse
import gc
import json
import os
import random
import re
import signal
import subprocess
import sys
import time
import warnings

import numpy as np

try:
    from harness import timeouts as T
except ImportError:  # run as a plain script
    sys.path.insert(0, os.path.dirname(os.path.dirname(os.path.dirname(os.path.abspath(__file__)))))
    from harness import timeouts as T

DEFAULT_DRIVER = "/verif/lean/.lake/build/bin/jaqal-model"
TOL = 1e-9
MAX_EXEC = 40  # executed gates per subcircuit (keeps dyadic arithmetic exact in doubles)

SIG = {
    "A": "q", "B": "q", "N": "q", "R": "qi", "RF": "fq", "W": "qii",
    "E": "qq", "F": "qq", "EP": "qiq", "T": "qqq",
    "I_A": "q", "I_E": "qq", "I_R": "qi",
}
VOCAB = list(SIG)
IDLE_NAMES = ("I_A", "I_E", "I_R")
ORACLES = ("state_is_product_of_own_gates", "earlier_results_stay_correct")

_L = {}


def _lib():
    if not _L:
        os.environ["JAQALPAQ_RUN_EMULATOR"] = "1"
        from jaqalpaq.core import GateDefinition, Parameter, ParamType
        from jaqalpaq.core.gatedef import BusyGateDefinition, add_idle_gates
        from jaqalpaq.core.circuitbuilder import build
        from jaqalpaq.parser import parse_jaqal_string
        from jaqalpaq.emulator import run_jaqal_circuit
        from jaqalpaq.emulator.unitary import UnitarySerializedEmulator
        from jaqalpaq.error import JaqalError

        _L.update(GateDefinition=GateDefinition, Parameter=Parameter, ParamType=ParamType,
                  BusyGateDefinition=BusyGateDefinition, add_idle_gates=add_idle_gates, build=build,
                  parse_jaqal_string=parse_jaqal_string, run_jaqal_circuit=run_jaqal_circuit,
                  UnitarySerializedEmulator=UnitarySerializedEmulator, JaqalError=JaqalError)
    return _L


def nq_of(name):
    return SIG[name].count("q")


def csig_of(name):
    return [c for c in SIG[name] if c != "q"]


# ------------------------------------------------------------------ matrices of a unitary spec
# spec: None | ["fix", s, t] | ["par", s, t, [c_1..c_k, c_0]] | ["rot", s, t, axis, scale]
#   base(m, s, t)  permutation (from s) with phases i^k (from s, t), times a dense dyadic factor when s is even
#   par            base . diag(i^(e * w_j)),  e = c_0 + sum c_k * (x_k for an int slot, round(4 x_k) for a float slot)
#   rot            base . R_axis(scale * sum x)  (one qubit)  /  base . diag(exp(i scale sum(x) w_j))   - NOT dyadic
_PH = [1, 1j, -1, -1j]
_SX = np.array([[(1 + 1j) / 2, (1 - 1j) / 2], [(1 - 1j) / 2, (1 + 1j) / 2]], dtype=complex)
_HH = np.kron(np.array([[1, 1], [1, -1]], dtype=complex), np.array([[1, 1], [1, -1]], dtype=complex)) / 2


def embed(u, qs, n):
    """The 2^n x 2^n matrix acting as `u` on qubits qs (bit j of a `u` index <-> qs[j]) and as the identity elsewhere;
    bit i of a row / column index is qubit i."""
    d = 1 << n
    idx = np.arange(d)
    sub = np.zeros(d, dtype=int)
    mask = 0
    for j, q in enumerate(qs):
        sub |= ((idx >> q) & 1) << j
        mask |= 1 << q
    rest = idx & ~mask
    return np.where(rest[:, None] == rest[None, :], u[sub[:, None], sub[None, :]], 0)


def _matvec(f, v):  # elementwise (no BLAS); exact on dyadic entries
    return (f * v[None, :]).sum(axis=1)


def _matmul(a, b):
    return (a[:, :, None] * b[None, :, :]).sum(axis=1)


def base_matrix(m, s, t):
    d = 1 << m
    r = random.Random(f"c03gs/perm/{m}/{s}")
    p = list(range(d))
    r.shuffle(p)
    pos = r.sample(range(m), min(m, 2))
    two = r.random() < 0.5
    r2 = random.Random(f"c03gs/phase/{m}/{s}/{t}")
    mat = np.zeros((d, d), dtype=complex)
    for j in range(d):
        mat[p[j], j] = _PH[r2.randrange(4)]
    if s % 2 == 0:
        dense = embed(_HH, pos, m) if (m >= 2 and two) else embed(_SX, pos[:1], m)
        mat = _matmul(mat, dense)
    return mat


def _weights(m, s):
    r = random.Random(f"c03gs/w/{m}/{s}")
    w = [0] + [r.randrange(4) for _ in range((1 << m) - 1)]
    w[-1] = 1 + 2 * r.randrange(2)
    return w


def spec_matrix(spec, name, cargs):
    """The matrix of gate `name` with unitary spec `spec` at classical arguments cargs (parameter order). A fresh array."""
    m = nq_of(name)
    kind = spec[0]
    b = base_matrix(m, spec[1], spec[2])
    if kind == "fix":
        return b
    slots = csig_of(name)
    if kind == "par":
        coef = spec[3]
        e = coef[-1]
        for c, x, sl in zip(coef, cargs, slots):
            e += c * (int(round(4 * float(x))) if sl == "f" else int(x))
        w = _weights(m, spec[1])
        return b * np.array([_PH[(e * wj) % 4] for wj in w], dtype=complex)[None, :]
    if kind == "rot":
        ang = spec[4] * float(sum(float(x) for x in cargs))
        if m == 1:
            c, s_ = np.cos(ang / 2), np.sin(ang / 2)
            r = {"x": np.array([[c, -1j * s_], [-1j * s_, c]]),
                 "y": np.array([[c, -s_], [s_, c]], dtype=complex),
                 "z": np.array([[np.exp(-0.5j * ang), 0], [0, np.exp(0.5j * ang)]])}[spec[3]]
            return _matmul(b, r.astype(complex))
        w = _weights(m, spec[1])
        return b * np.exp(1j * ang * np.array(w, dtype=float))[None, :]
    raise ValueError(f"bad unitary spec {spec}")


def spec_exact(spec):
    return spec is None or spec[0] != "rot"


# ------------------------------------------------------------------ the world of one history
def eff_spec(case, si, name):
    """Unitary spec the gate `name` has in gate set si (None: idle or no unitary)."""
    st = case["sets"][si]
    if st["idle"] and name in IDLE_NAMES:
        return None
    return case["defs"][st["defs"][name]]["u"]


def reference(case, ci):
    """{"states": [vector per subcircuit], "exact": bool} for circuit ci, from ITS gate set."""
    c = case["circs"][ci]
    prog = case["progs"][c["prog"]]
    n = prog["n"]
    exact = True
    states = []
    for sub in prog["subs"]:
        v = np.zeros(1 << n, dtype=complex)
        v[0] = 1
        for g in sub:
            spec = eff_spec(case, c["set"], g["g"])
            if spec is None:
                continue
            exact = exact and spec_exact(spec)
            v = _matvec(embed(spec_matrix(spec, g["g"], g["a"]), g["qs"], n), v)
        states.append(v)
    return {"states": states, "exact": exact}


class _World:
    """The live objects of one epoch (between two drop steps)."""

    def __init__(self, case):
        self.case = case
        self.defs, self.sets, self.circs, self.backends = {}, {}, {}, {}

    def get_def(self, pi):
        if pi not in self.defs:
            L = _lib()
            d = self.case["defs"][pi]
            name, spec = d["name"], d["u"]
            fn = None if spec is None else (lambda *a, _s=spec, _n=name: spec_matrix(_s, _n, a))
            if d.get("copy_of") is not None and fn is not None:
                obj = self.get_def(d["copy_of"]).copy(ideal_unitary=fn)
            else:
                PT = L["ParamType"]
                kinds = {"q": PT.QUBIT, "i": PT.INT, "f": PT.FLOAT}
                obj = L["GateDefinition"](name, [L["Parameter"](f"p{k}", kinds[c]) for k, c in enumerate(SIG[name])],
                                          ideal_unitary=fn)
            self.defs[pi] = obj
        return self.defs[pi]

    def get_set(self, si):
        if si not in self.sets:
            L = _lib()
            st = self.case["sets"][si]
            d = {}
            for name in st["defs"]:  # every vocabulary name (a pruned case: the names its programs use)
                if st["idle"] and name in IDLE_NAMES:
                    continue
                d[name] = self.get_def(st["defs"][name])
            d["prepare_all"] = L["BusyGateDefinition"]("prepare_all", [])
            d["measure_all"] = L["BusyGateDefinition"]("measure_all", [])
            if st["idle"]:
                d = L["add_idle_gates"](d)
            self.sets[si] = d
        return self.sets[si]

    def get_circ(self, ci):
        if ci not in self.circs:
            L = _lib()
            c = self.case["circs"][ci]
            prog = self.case["progs"][c["prog"]]
            gs = self.get_set(c["set"])
            if c.get("via") == "build":
                self.circs[ci] = L["build"](prog["sexpr"], inject_pulses=gs, autoload_pulses=False)
            else:
                self.circs[ci] = L["parse_jaqal_string"](prog["text"], inject_pulses=gs, autoload_pulses=False)
        return self.circs[ci]

    def get_backend(self, b):
        if b is None:
            return None
        if b not in self.backends:
            self.backends[b] = _lib()["UnitarySerializedEmulator"]()
        return self.backends[b]


class Hang(Exception):
    pass


def _alarm(*_a):
    raise Hang()


def _guarded(f):
    """-> ("ok", value) | ("hang", "") | ("err", "Type: message")"""
    signal.alarm(int(T.limit()))
    try:
        with warnings.catch_warnings():
            warnings.simplefilter("ignore")
            return ("ok", f())
    except Hang:
        return ("hang", "")
    except Exception as e:  # every program here is valid: nothing is a legitimate rejection
        return ("err", f"{type(e).__name__}: {e}")
    finally:
        signal.alarm(0)


def _fmt(v):
    v = np.asarray(v)
    if np.iscomplexobj(v):
        return "[" + ", ".join(f"{z.real:.6g}{z.imag:+.6g}j" for z in v.tolist()) + "]"
    return "[" + ", ".join(f"{x:.6g}" for x in v.tolist()) + "]"


def check_result(res, ref):
    try:
        subs = list(res.subcircuits)
    except Exception as e:
        return False, f"result has no subcircuits: {type(e).__name__}: {e}"
    if len(subs) != len(ref["states"]):
        return False, f"{len(subs)} subcircuits reported, {len(ref['states'])} executed"
    for k, (sc, want) in enumerate(zip(subs, ref["states"])):
        try:
            v = np.asarray(sc.state_vector)
            p = np.asarray(sc.simulated_probability_by_int)
        except Exception as e:
            return False, f"subcircuit {k}: {type(e).__name__}: {e}"
        if v.shape != want.shape:
            return False, f"subcircuit {k}: state_vector shape {v.shape}, expected {want.shape}"
        ok = np.array_equal(v, want) if ref["exact"] else bool(np.max(np.abs(v - want)) <= TOL)
        if not ok:
            return False, (f"subcircuit {k}: state_vector {_fmt(v)} but the product of this circuit's own gate "
                           f"matrices on |0..0> is {_fmt(want)}" + ("" if ref["exact"] else f" (tolerance {TOL})"))
        pw = np.abs(want) ** 2
        if p.shape != pw.shape or not bool(np.max(np.abs(p - pw)) <= TOL):
            return False, f"subcircuit {k}: probabilities {_fmt(p)} but |amplitude|^2 is {_fmt(pw)}"
    return True, ""


def _run_step(world, ci, b):
    r = _guarded(lambda: world.get_circ(ci))
    if r[0] != "ok":
        return r
    circ = r[1]
    be = world.get_backend(b)
    run = _lib()["run_jaqal_circuit"]
    return _guarded((lambda: run(circ)) if be is None else (lambda: run(circ, backend=be)))


def exec_history(case, refs):
    """Run the steps in THIS process. -> {"runs", "rereads", "fail_run": [...], "fail_reread": [...], "hang": bool}"""
    old = signal.signal(signal.SIGALRM, _alarm)
    out = {"runs": 0, "rereads": 0, "fail_run": [], "fail_reread": [], "hang": False}
    try:
        _lib()
        world = _World(case)
        results = []  # [step, circuit, result, still believed correct]
        for t, st in enumerate(case["steps"]):
            fresh = None
            if st[0] == "drop":
                r = None
                world = _World(case)
                gc.collect()
            elif st[0] == "parse":
                r = _guarded(lambda: world.get_circ(st[1]))
                if r[0] != "ok":
                    out["fail_run"].append({"step": t, "detail": f"building circuit {st[1]} (a valid program): {r[0]} {r[1]}"})
                    out["hang"] = r[0] == "hang"
                    if out["hang"]:
                        break
                r = None
            elif st[0] == "run":
                ci, b = st[1], st[2]
                out["runs"] += 1
                r = _run_step(world, ci, b)  # no reference to the circuit / backend stays in this frame
                if r[0] != "ok":
                    out["fail_run"].append({"step": t, "detail": f"circuit {ci} (a valid program): {r[0]} {r[1]}"})
                    out["hang"] = r[0] == "hang"
                    if out["hang"]:
                        break
                else:
                    ok, detail = check_result(r[1], refs[ci])
                    if not ok:
                        out["fail_run"].append({"step": t, "detail": f"circuit {ci}: {detail}"})
                    fresh = [t, ci, r[1], ok]
            else:
                raise ValueError(f"bad step {st}")
            for e in results:
                if not e[3]:
                    continue
                out["rereads"] += 1
                ok, detail = check_result(e[2], refs[e[1]])
                if not ok:
                    e[3] = False
                    out["fail_reread"].append({"step": t, "earlier_step": e[0],
                                               "detail": f"result of step {e[0]} (circuit {e[1]}) read again after step {t} {st}: {detail}"})
            if fresh:
                results.append(fresh)
    finally:
        signal.alarm(0)
        signal.signal(signal.SIGALRM, old)
    return out


def run_history(case):
    """One history (or a {"kind": "sequence", "histories": [...]} of them, reporting the last) in THIS process."""
    if case.get("kind") == "sequence":
        out = None
        for h in case["histories"]:
            out = run_history(h)
        return out
    refs = [reference(case, ci) for ci in range(len(case["circs"]))]
    out = exec_history(case, refs)
    if out.get("hang"):
        T.saw_hang()
    return out


_PREFIX = []


def _no_aslr():
    """["setarch", arch, "-R"] when that works here (addresses, hence the allocator's behaviour, repeat exactly), else []."""
    if not _PREFIX:
        import platform
        import shutil

        pre = []
        exe = shutil.which("setarch")
        if exe:
            cand = [exe, platform.machine(), "-R"]
            try:
                if subprocess.run(cand + ["true"], capture_output=True, timeout=20).returncode == 0:
                    pre = cand
            except Exception:
                pre = []
        _PREFIX.append(pre)
    return _PREFIX[0]


def fresh_many(cases, fixed=True):
    """Each case in its OWN fresh interpreter (same sys.path, hence the same library) -> list of out | None.
    fixed: hash seed 0 and no address randomisation, so that a case behaves the same every time; fixed=False leaves the
    addresses random (a regression that depends on object addresses may show only then, and only some of the time)."""
    env = dict(os.environ)
    env["PYTHONPATH"] = os.pathsep.join(p for p in sys.path if p)
    env["JAQALPAQ_RUN_EMULATOR"] = "1"
    env["PYTHONHASHSEED"] = "0"  # same allocation pattern every time (matters for regressions that depend on object addresses)
    cmd = (_no_aslr() if fixed else []) + [sys.executable, "-W", "ignore", os.path.abspath(__file__), "--worker"]
    outs = [None] * len(cases)
    for lo in range(0, len(cases), 8):
        procs = []
        for c in cases[lo:lo + 8]:
            try:
                pr = subprocess.Popen(cmd, stdin=subprocess.PIPE, stdout=subprocess.PIPE, stderr=subprocess.DEVNULL, env=env, text=True)
            except OSError:
                pr = None
            procs.append((pr, json.dumps({k: v for k, v in c.items() if k != "oracle"}, sort_keys=True)))
        for k, (pr, inp) in enumerate(procs):
            if pr is None:
                continue
            try:
                so, _ = pr.communicate(inp, timeout=T.limit() * 2 + 30)
                outs[lo + k] = json.loads(so.strip().splitlines()[-1])
            except subprocess.TimeoutExpired:
                pr.kill()
                pr.communicate()
                outs[lo + k] = {"runs": 0, "rereads": 0, "fail_reread": [], "hang": True,
                                "fail_run": [{"step": None, "detail": "no answer from a fresh interpreter"}]}
            except Exception:
                outs[lo + k] = None
    return outs


# ------------------------------------------------------------------ situations (static facts about a history)
def situations(case):
    """per run step: the list of labels describing what preceded it"""
    labels = {}
    seen = []  # (circ, set, prog, epoch, backend)
    epoch = 0
    for t, st in enumerate(case["steps"]):
        if st[0] == "drop":
            epoch += 1
            continue
        if st[0] != "run":
            continue
        ci, b = st[1], st[2]
        c = case["circs"][ci]
        s, p = c["set"], c["prog"]
        L = []
        if not seen:
            L.append("first_run_of_process")
        else:
            if any(x[1] != s for x in seen):
                L.append("after_run_with_other_set_same_names")
            if any(x[1] != s and x[2] == p for x in seen):
                L.append("same_text_ran_under_other_set_before")
            if seen[-1][1] != s and seen[-1][2] == p:
                L.append("same_text_other_set_back_to_back")
            if any(x[0] == ci and x[3] == epoch for x in seen):
                L.append("same_circuit_object_run_again")
            if any(x[0] == ci and x[3] != epoch for x in seen):
                L.append("circuit_rebuilt_after_drop_run_again")
            if any(x[0] != ci and x[1] == s and x[3] == epoch for x in seen):
                L.append("other_circuit_over_same_gateset_object_ran_before")
            d1 = case["sets"][s]["defs"]
            for x in seen:
                if x[1] != s and x[3] == epoch:
                    d0 = case["sets"][x[1]]["defs"]
                    common = [k for k in d1 if k in d0]
                    if any(d0[k] == d1[k] for k in common) and any(d0[k] != d1[k] for k in common):
                        L.append("shares_some_definition_objects_with_earlier_set")
                        break
            if b is not None and any(x[4] == b and x[3] == epoch for x in seen):
                L.append("shared_backend_instance_reused")
            if epoch and any(x[3] != epoch for x in seen):
                L.append("after_drop")
            if case["progs"][seen[-1][2]]["n"] != case["progs"][p]["n"]:
                L.append("register_size_differs_from_previous_run")
            if case["sets"][s]["idle"] != case["sets"][seen[-1][1]]["idle"]:
                L.append("idle_gates_differ_from_previous_run")
        if c.get("via") == "build":
            L.append("circuit_from_circuitbuilder_build")
        labels[t] = L
        seen.append((ci, s, p, epoch, b))
    return labels


# ------------------------------------------------------------------ program generator
class _Prog:
    """item kinds: ("gate", name, [qubit], [carg])  ("call", macro, [qubit], [carg])  ("loop", count, [item])
    ("par", [[item]]);  qubit: int | ("p", j);  carg: number | let name | ("p", j)."""

    def __init__(self, rng, n, nsub, maxlen):
        self.rng, self.n = rng, n
        r = rng.randrange
        self.lets = {"NQ": n, "K0": r(8), "K1": r(8), "L0": r(4), "X0": 0.25 * r(8)}
        self.let_sized = rng.random() < 0.4
        self.arrays = [("r", list(range(n)))]
        self.maps = []
        self.singles = []
        for name in ("a", "b"):
            if rng.random() < 0.6:
                src, res = rng.choice(self.arrays)
                if rng.random() < 0.2:
                    self.maps.append((name, ["whole", src]))
                    self.arrays.append((name, list(res)))
                else:
                    ln = len(res)
                    lo = r(ln)
                    hi = rng.randint(lo + 1, ln)
                    st = rng.choice([1, 1, 2])
                    self.maps.append((name, ["slice", src, lo, hi, st]))
                    self.arrays.append((name, res[lo:hi:st]))
        if rng.random() < 0.5:
            src, res = rng.choice(self.arrays)
            k = r(len(res))
            self.maps.append(("q", ["item", src, k]))
            self.singles.append(("q", res[k]))
        self.macros = {}
        for name in ("M0", "M1"):
            if rng.random() < 0.5:
                self._gen_macro(name)
        while True:
            self.subs = [(rng.choice(["plain", "block"]), self._gen_items(rng.randint(0, maxlen), 0)) for _ in range(nsub)]
            if all(len(s) <= MAX_EXEC for s in self.serialise()):
                break

    # ---- generation
    def _carg(self, slot, mparam):
        rng = self.rng
        if mparam is not None and rng.random() < 0.5:
            return ("p", mparam)
        x = rng.random()
        if slot == "i":
            return rng.choice(["K0", "K1"]) if x < 0.4 else rng.randrange(8)
        if x < 0.3:
            return "X0"
        if x < 0.45:
            return rng.randrange(4)  # an integer literal in a float slot
        return 0.25 * rng.randrange(8)

    def _gen_gate(self, pool, mparam=None, in_macro=False):
        rng = self.rng
        names = [g for g in VOCAB if nq_of(g) <= len(pool)]
        weights = [1 if (g in IDLE_NAMES or g == "N") else 3 for g in names]
        g = rng.choices(names, weights)[0]
        qs = rng.sample(pool, nq_of(g))
        if in_macro:
            qs = [("p", q) for q in qs]
        return ("gate", g, qs, [self._carg(sl, mparam) for sl in csig_of(g)])

    def _gen_macro(self, name):
        rng = self.rng
        nq = rng.randint(1, min(2, self.n))
        ni = rng.randint(0, 1)
        body = []
        for _ in range(rng.randint(1, 3)):
            prev = [m for m, (mq, _, _) in self.macros.items() if mq <= nq]
            if prev and rng.random() < 0.3:
                m = rng.choice(prev)
                mq, mi, _ = self.macros[m]
                qs = [("p", j) for j in rng.sample(range(nq), mq)]
                body.append(("call", m, qs, [(("p", nq) if ni and rng.random() < 0.5 else rng.randrange(8)) for _ in range(mi)]))
            else:
                body.append(self._gen_gate(list(range(nq)), mparam=nq if ni else None, in_macro=True))
        self.macros[name] = (nq, ni, body)

    def _gen_simple(self, pool):
        rng = self.rng
        ms = [m for m, (mq, _, _) in self.macros.items() if mq <= len(pool)]
        if ms and rng.random() < 0.2:
            m = rng.choice(ms)
            mq, mi, _ = self.macros[m]
            return ("call", m, rng.sample(pool, mq), [rng.choice(["K0", "K1", rng.randrange(8)]) for _ in range(mi)])
        return self._gen_gate(pool)

    def _gen_items(self, length, depth):
        rng, n = self.rng, self.n
        allq = list(range(n))
        items = []
        while len(items) < length:
            x = rng.random()
            if x < 0.12 and n >= 2:
                parts = list(allq)
                rng.shuffle(parts)
                nb = rng.randint(2, min(3, n))
                cuts = sorted(rng.sample(range(1, n), nb - 1))
                pools = [parts[a:b] for a, b in zip([0] + cuts, cuts + [n])]
                items.append(("par", [[self._gen_simple(pl) for _ in range(rng.choice([1, 1, 2]))] for pl in pools]))
            elif x < 0.24 and depth < 2:
                cnt = "L0" if rng.random() < 0.4 else rng.randint(0, 3)
                items.append(("loop", cnt, self._gen_items(rng.randint(1, 3), depth + 1)))
            else:
                items.append(self._gen_simple(allq))
        return items

    # ---- the executed gate list
    def _ser(self, items, qenv=None, cenv=None):
        out = []
        rq = lambda q: qenv[q[1]] if isinstance(q, tuple) else q
        rc = lambda a: cenv[a[1]] if isinstance(a, tuple) else (self.lets[a] if isinstance(a, str) else a)
        for it in items:
            if it[0] == "gate":
                out.append({"g": it[1], "qs": [rq(q) for q in it[2]], "a": [rc(a) for a in it[3]]})
            elif it[0] == "call":
                nq, ni, body = self.macros[it[1]]
                out.extend(self._ser(body, [rq(q) for q in it[2]], {nq + j: rc(a) for j, a in enumerate(it[3])}))
            elif it[0] == "loop":
                out.extend(self._ser(it[2], qenv, cenv) * rc(it[1]))
            else:
                for br in it[1]:
                    out.extend(self._ser(br, qenv, cenv))
        return out

    def serialise(self):
        return [self._ser(items) for _, items in self.subs]

    # ---- surface forms of a qubit: ("r", i) | (alias, pos) | (single alias,)
    def _qforms(self, q):
        forms = []
        for name, res in self.arrays[1:]:
            forms += [(name, pos) for pos, t in enumerate(res) if t == q]
        forms += [(name,) for name, t in self.singles if t == q]
        return forms

    def _qref(self, q, rng, pn):
        if isinstance(q, tuple):
            return (pn[q[1]],)
        forms = self._qforms(q)
        if forms and rng.random() < 0.7:
            return rng.choice(forms)
        return ("r", q)

    # ---- text
    @staticmethod
    def _num(a):
        return repr(float(a)) if isinstance(a, float) else str(a)

    def _targs(self, name_sig, qs, cargs, rng, pn):
        qi, ci = iter(qs), iter(cargs)
        out = []
        for c in name_sig:
            if c == "q":
                f = self._qref(next(qi), rng, pn)
                out.append(f[0] if len(f) == 1 else f"{f[0]}[{f[1]}]")
            else:
                a = next(ci)
                out.append(pn[a[1]] if isinstance(a, tuple) else (a if isinstance(a, str) else self._num(a)))
        return out

    def _titems(self, items, rng, pn=None):
        out = []
        for it in items:
            if it[0] == "gate":
                out.append(" ".join([it[1]] + self._targs(SIG[it[1]], it[2], it[3], rng, pn)))
            elif it[0] == "call":
                nq, ni, _ = self.macros[it[1]]
                out.append(" ".join([it[1]] + self._targs("q" * nq + "i" * ni, it[2], it[3], rng, pn)))
            elif it[0] == "loop":
                out.append(f"loop {it[1]} {{ " + " ; ".join(self._titems(it[2], rng, pn)) + " }")
            else:
                brs = []
                for br in it[1]:
                    parts = self._titems(br, rng, pn)
                    brs.append(parts[0] if len(parts) == 1 else "{ " + " ; ".join(parts) + " }")
                out.append("< " + " | ".join(brs) + " >")
        return out

    def text(self, seed):
        rng = random.Random(seed)
        out = [f"let {k} {self._num(v)}" for k, v in self.lets.items()]
        out.append("register r[NQ]" if self.let_sized else f"register r[{self.n}]")
        for name, f in self.maps:
            if f[0] == "whole":
                out.append(f"map {name} {f[1]}")
            elif f[0] == "item":
                out.append(f"map {name} {f[1]}[{f[2]}]")
            else:
                out.append(f"map {name} {f[1]}[{f[2]}:{f[3]}" + (f":{f[4]}]" if f[4] != 1 else "]"))
        for name, (nq, ni, body) in self.macros.items():
            pn = [f"x{j}" for j in range(nq)] + [f"k{j}" for j in range(ni)]
            out.append(f"macro {name} " + " ".join(pn) + " { " + " ; ".join(self._titems(body, rng, pn)) + " }")
        for style, items in self.subs:
            body = self._titems(items, rng)
            out += (["prepare_all"] + body + ["measure_all"]) if style == "plain" else (["subcircuit {"] + body + ["}"])
        return "\n".join(out) + "\n"

    # ---- S-expression (circuitbuilder.build)
    def _sargs(self, name_sig, qs, cargs, rng, pn):
        qi, ci = iter(qs), iter(cargs)
        out = []
        for c in name_sig:
            if c == "q":
                f = self._qref(next(qi), rng, pn)
                out.append(f[0] if len(f) == 1 else ["array_item", f[0], f[1]])
            else:
                a = next(ci)
                out.append(pn[a[1]] if isinstance(a, tuple) else a)
        return out

    def _sitems(self, items, rng, pn=None):
        out = []
        for it in items:
            if it[0] == "gate":
                out.append(["gate", it[1]] + self._sargs(SIG[it[1]], it[2], it[3], rng, pn))
            elif it[0] == "call":
                nq, ni, _ = self.macros[it[1]]
                out.append(["gate", it[1]] + self._sargs("q" * nq + "i" * ni, it[2], it[3], rng, pn))
            elif it[0] == "loop":
                out.append(["loop", it[1], ["sequential_block"] + self._sitems(it[2], rng, pn)])
            else:
                brs = []
                for br in it[1]:
                    parts = self._sitems(br, rng, pn)
                    brs.append(parts[0] if len(parts) == 1 else ["sequential_block"] + parts)
                out.append(["parallel_block"] + brs)
        return out

    def sexpr(self, seed):
        rng = random.Random(seed)
        out = ["circuit"] + [["let", k, v] for k, v in self.lets.items()]
        out.append(["register", "r", "NQ" if self.let_sized else self.n])
        for name, f in self.maps:
            out.append(["map", name, f[1]] if f[0] == "whole" else ["map", name, f[1], f[2]] if f[0] == "item"
                       else ["map", name, f[1], f[2], f[3], f[4]])
        for name, (nq, ni, body) in self.macros.items():
            pn = [f"x{j}" for j in range(nq)] + [f"k{j}" for j in range(ni)]
            out.append(["macro", name] + pn + [["sequential_block"] + self._sitems(body, rng, pn)])
        for style, items in self.subs:
            body = self._sitems(items, rng)
            if style == "plain":
                out += [["gate", "prepare_all"]] + body + [["gate", "measure_all"]]
            else:
                out.append(["subcircuit_block", ""] + body)
        return out


def gen_prog(rng, n, nsub, maxlen):
    p = _Prog(rng, n, nsub, maxlen)
    s = rng.randrange(1 << 30)
    return {"text": p.text(s), "sexpr": p.sexpr(s + 1), "n": n, "subs": p.serialise()}


# ------------------------------------------------------------------ gate-set generator
def rand_spec(rng, name, dense=None):
    nc = len(csig_of(name))
    s = rng.randrange(6)
    if dense is not None:
        s = 2 * rng.randrange(3) + (0 if dense else 1)
    t = rng.randrange(3)
    if nc == 0:
        return ["fix", s, t]
    x = rng.random()
    if x < 0.15:
        return ["rot", s, t, rng.choice("xyz"), rng.choice([0.3, 0.7, 1.1])]
    if x < 0.25:
        return ["fix", s, t]
    return ["par", s, t, [rng.randrange(1, 4) for _ in range(nc)] + [rng.randrange(4)]]


def variant_spec(rng, name, spec, how=None):
    """A different unitary for the same name / signature."""
    nc = len(csig_of(name))
    if spec is None:
        return rand_spec(rng, name)
    how = how or rng.choice(["rephase", "permute", "reparam" if nc else "permute", "none" if name == "N" else "rephase", "other"])
    if how == "none":
        return None
    if how == "rephase":
        return spec[:2] + [(spec[2] + rng.randint(1, 2)) % 3] + spec[3:]
    if how == "permute":
        return [spec[0], (spec[1] + rng.randint(1, 5)) % 6] + spec[2:]
    if how == "reparam" and nc:
        if spec[0] == "par":
            coef = list(spec[3])
            k = rng.randrange(len(coef))
            coef[k] = (coef[k] + rng.randint(1, 3)) % 4
            return spec[:3] + [coef]
        if spec[0] == "rot":
            if nq_of(name) == 1:
                return spec[:3] + [rng.choice([a for a in "xyz" if a != spec[3]]), spec[4]]
            return spec[:4] + [rng.choice([a for a in (0.3, 0.7, 1.1) if a != spec[4]])]
        return ["par", spec[1], spec[2], [rng.randrange(1, 4) for _ in range(nc)] + [rng.randrange(4)]]
    for _ in range(20):
        new = rand_spec(rng, name)
        if new != spec:
            return new
    return None


def gen_sets(rng, nsets):
    pool, sets = [], []

    def new_def(name, u, copy_of=None):
        pool.append({"name": name, "u": u, "copy_of": copy_of if u is not None else None})
        return len(pool) - 1

    base = {}
    for name in VOCAB:
        none = rng.random() < (0.6 if name == "N" else 0.04)
        base[name] = new_def(name, None if none else rand_spec(rng, name, dense=True if name == "A" else None))
    sets.append({"defs": base, "idle": rng.random() < 0.5})
    for _ in range(1, nsets):
        src = rng.choice(sets)
        d = {}
        for name in VOCAB:
            i0 = src["defs"][name]
            x = rng.random()
            if x < 0.3:
                d[name] = i0
            elif x < 0.4:
                d[name] = new_def(name, pool[i0]["u"], i0 if rng.random() < 0.3 else None)
            else:
                d[name] = new_def(name, variant_spec(rng, name, pool[i0]["u"]), i0 if rng.random() < 0.3 else None)
        sets.append({"defs": d, "idle": rng.random() < 0.5})
    return pool, sets


# ------------------------------------------------------------------ history generators
def gen_history(rng, thorough=False):
    nmax = 5 if thorough else 4
    same_size = rng.random() < 0.5
    n0 = rng.randint(1, nmax)
    progs = [gen_prog(rng, n0 if same_size else rng.randint(1, nmax), rng.randint(1, 3), 7)
             for _ in range(rng.choice([1, 1, 2, 2, 3]))]
    pool, sets = gen_sets(rng, rng.randint(2, 4))
    via = lambda: "build" if rng.random() < 0.2 else "parse"
    circs = [{"prog": 0, "set": 0, "via": via()}, {"prog": 0, "set": 1, "via": via()}]
    for _ in range(rng.randint(0, 4)):
        circs.append({"prog": rng.randrange(len(progs)), "set": rng.randrange(len(sets)), "via": via()})
    steps = []
    be = lambda: None if rng.random() < 0.7 else rng.randrange(2)
    if rng.random() < 0.5:
        b = be()
        steps += [["run", 0, b], ["run", 1, b], ["run", 0, be()]]
    total = rng.randint(3, 16 if thorough else 8)
    last = None
    while sum(1 for s in steps if s[0] == "run") < total:
        x = rng.random()
        if x < 0.08:
            steps.append(["drop"])
        elif x < 0.2:
            steps.append(["parse", rng.randrange(len(circs))])
        else:
            ci = last if (last is not None and rng.random() < 0.15) else rng.randrange(len(circs))
            steps.append(["run", ci, be()])
            last = ci
    return {"kind": "history", "defs": pool, "sets": sets, "progs": progs, "circs": circs, "steps": steps}


SWEEP_HOWS = ["rephase", "permute", "reparam", "unitary_to_none", "none_to_unitary", "equal_distinct_object",
              "copy_of", "idle_to_unitary", "unitary_to_idle"]
SWEEP_ORDERS = ["AB", "ABA", "parse_both_then_BA", "AB_shared_backend", "A_drop_B", "AAB"]


def gen_sweep_case(rng, name, how, order):
    """Two gate sets that share every definition OBJECT except the one of `name`; one flat program around that gate."""
    m = nq_of(name)
    n = rng.randint(m, max(m, 3))
    pool = []
    base = {}
    for g in VOCAB:
        pool.append({"name": g, "u": rand_spec(rng, g, dense=True if g in ("A", "B") else None), "copy_of": None})
        base[g] = len(pool) - 1
    other = dict(base)
    idle_a = idle_b = False
    u0 = pool[base[name]]["u"]
    if how in ("rephase", "permute", "reparam"):
        pool.append({"name": name, "u": variant_spec(rng, name, u0, how), "copy_of": None})
    elif how == "unitary_to_none":
        pool.append({"name": name, "u": None, "copy_of": None})
    elif how == "none_to_unitary":
        pool[base[name]]["u"] = None
        pool.append({"name": name, "u": u0, "copy_of": None})
    elif how == "equal_distinct_object":
        pool.append({"name": name, "u": u0, "copy_of": None})
    elif how == "copy_of":
        pool.append({"name": name, "u": variant_spec(rng, name, u0, "permute"), "copy_of": base[name]})
    elif how == "idle_to_unitary":
        idle_a = True
        pool.append({"name": name, "u": u0, "copy_of": None})
    elif how == "unitary_to_idle":
        idle_b = True
        pool.append({"name": name, "u": u0, "copy_of": None})
    other[name] = len(pool) - 1
    sets = [{"defs": base, "idle": idle_a}, {"defs": other, "idle": idle_b}]

    def gate(g, qs):
        a = [(0.25 * rng.randrange(8) if sl == "f" else rng.randrange(8)) for sl in csig_of(g)]
        return {"g": g, "qs": qs, "a": a}

    sub = [gate("A", [q]) for q in range(n)] + [gate("B", [rng.randrange(n)])]
    tgt = gate(name, rng.sample(range(n), m))
    sub += [tgt, gate("A", [rng.randrange(n)])]
    if rng.random() < 0.5:
        sub.append(dict(tgt))  # the same gate at the same arguments twice
    lines = [f"register r[{n}]", "prepare_all"]
    sx = ["circuit", ["register", "r", n], ["gate", "prepare_all"]]
    for g in sub:
        qi, ai = iter(g["qs"]), iter(g["a"])
        args = [("q", next(qi)) if c == "q" else ("c", next(ai)) for c in SIG[g["g"]]]
        lines.append(" ".join([g["g"]] + [f"r[{v}]" if k == "q" else _Prog._num(v) for k, v in args]))
        sx.append(["gate", g["g"]] + [["array_item", "r", v] if k == "q" else v for k, v in args])
    lines.append("measure_all")
    sx.append(["gate", "measure_all"])
    prog = {"text": "\n".join(lines) + "\n", "sexpr": sx, "n": n, "subs": [sub]}
    via = "build" if rng.random() < 0.2 else "parse"
    circs = [{"prog": 0, "set": 0, "via": via}, {"prog": 0, "set": 1, "via": via}]
    steps = {"AB": [["run", 0, None], ["run", 1, None]],
             "ABA": [["run", 0, None], ["run", 1, None], ["run", 0, None]],
             "parse_both_then_BA": [["parse", 0], ["parse", 1], ["run", 1, None], ["run", 0, None]],
             "AB_shared_backend": [["run", 0, 0], ["run", 1, 0]],
             "A_drop_B": [["run", 0, None], ["drop"], ["run", 1, None]],
             "AAB": [["run", 0, None], ["run", 0, None], ["run", 1, None]]}[order]
    return {"kind": "history", "sweep": [name, how, order], "defs": pool, "sets": sets, "progs": [prog],
            "circs": circs, "steps": steps}


def sweep_cases(rng, full):
    """Every vocabulary name x every applicable way its definition differs; one order each (all orders when full)."""
    out = []
    for name in VOCAB:
        for how in SWEEP_HOWS:
            if how == "reparam" and not csig_of(name):
                continue
            if how in ("idle_to_unitary", "unitary_to_idle") and name not in IDLE_NAMES:
                continue
            for order in (SWEEP_ORDERS if full else [rng.choice(SWEEP_ORDERS)]):
                out.append(gen_sweep_case(rng, name, how, order))
    return out


# ------------------------------------------------------------------ isolating / shrinking a failing history
def _bad(out, which):
    return bool(out and (out["fail_run"] if which == "run" else out["fail_reread"]))


def prune(case):
    """Drop circuits / programs / sets / definitions no step refers to (indices renumbered)."""
    used_c = sorted({s[1] for s in case["steps"] if s[0] in ("run", "parse")})
    cmap = {c: k for k, c in enumerate(used_c)}
    circs = [dict(case["circs"][c]) for c in used_c]
    used_p = sorted({c["prog"] for c in circs})
    used_s = sorted({c["set"] for c in circs})
    pmap = {p: k for k, p in enumerate(used_p)}
    smap = {s: k for k, s in enumerate(used_s)}
    for c in circs:
        c["prog"], c["set"] = pmap[c["prog"]], smap[c["set"]]
    sets = []
    for s in used_s:
        st = case["sets"][s]
        names = {w for c in circs if c["set"] == smap[s]
                 for w in re.findall(r"[A-Za-z_][A-Za-z_0-9]*", case["progs"][used_p[c["prog"]]]["text"]) if w in SIG}
        if st["idle"]:
            names = {nm[2:] if nm in IDLE_NAMES else nm for nm in names}  # an idle gate is made from its parent
        sets.append({"defs": {k: v for k, v in st["defs"].items() if k in names}, "idle": st["idle"]})
    need = set()

    def want(i):
        while i is not None and i not in need:
            need.add(i)
            i = case["defs"][i].get("copy_of")

    for st in sets:
        for i in st["defs"].values():
            want(i)
    used_d = sorted(need)
    dmap = {d: k for k, d in enumerate(used_d)}
    defs = []
    for d in used_d:
        e = dict(case["defs"][d])
        if e.get("copy_of") is not None:
            e["copy_of"] = dmap[e["copy_of"]]
        defs.append(e)
    for st in sets:
        st["defs"] = {k: dmap[v] for k, v in st["defs"].items()}
    progs = []
    for p in used_p:
        e = dict(case["progs"][p])
        if not any(c["prog"] == pmap[p] and c.get("via") == "build" for c in circs):
            e.pop("sexpr", None)
        progs.append(e)
    steps = [[s[0], cmap[s[1]]] + s[2:] if s[0] in ("run", "parse") else list(s) for s in case["steps"]]
    out = {k: v for k, v in case.items() if k not in ("defs", "sets", "progs", "circs", "steps")}
    out.update(defs=defs, sets=sets, progs=progs, circs=circs, steps=steps)
    return out


def shrink(case, which, out):
    """Fewer steps with the same oracle still failing; every attempt runs in its own fresh interpreter."""
    fl = out["fail_run"] if which == "run" else out["fail_reread"]
    best = case
    if fl and fl[0]["step"] is not None and fl[0]["step"] + 1 < len(case["steps"]):
        cand = dict(case, steps=case["steps"][: fl[0]["step"] + 1])
        (o,) = fresh_many([cand])
        if _bad(o, which):
            best, out = cand, o
    for _round in range(2):
        pairs = [(i, dict(best, steps=best["steps"][:i] + best["steps"][i + 1:])) for i in range(len(best["steps"]) - 1)]
        pairs = [(i, c) for i, c in pairs if any(s[0] == "run" for s in c["steps"])]
        if not pairs:
            break
        outs = fresh_many([c for _, c in pairs])
        good = [k for k, o in enumerate(outs) if _bad(o, which)]
        if not good:
            break
        gone = {pairs[k][0] for k in good}
        joint = dict(best, steps=[s for j, s in enumerate(best["steps"]) if j not in gone])
        o = outs[good[0]]
        if len(gone) > 1:
            (o,) = fresh_many([joint])
        if _bad(o, which):
            best, out = joint, o
            break
        best, out = pairs[good[0]][1], outs[good[0]]
    try:
        cand = prune(best)
        (o,) = fresh_many([cand])
        if _bad(o, which):
            best, out = cand, o
    except Exception:
        pass
    return best, out


def isolate_sequence(ks, history, which, fixed=True):
    """The failures were seen in the harness process only: for the first k of ks where it still fails, the sequence of
    histories that leads to history k, run in a fresh interpreter and halved while its last history still fails.
    -> (case, out) | None"""
    outs = fresh_many([{"kind": "sequence", "histories": list(history[: k + 1])} for k in ks], fixed)
    hit = [(k, o) for k, o in zip(ks, outs) if _bad(o, which)]
    if not hit:
        return None
    k, o = hit[0]
    case = history[k]
    pre = list(history[:k])
    for _ in range(6 if fixed else 0):
        if len(pre) <= 1:
            break
        h = len(pre) // 2
        o1, o2 = fresh_many([{"kind": "sequence", "histories": pre[h:] + [case]}, {"kind": "sequence", "histories": pre[:h] + [case]}])
        if _bad(o1, which):
            pre, o = pre[h:], o1
        elif _bad(o2, which):
            pre, o = pre[:h], o2
        else:
            break
    return {"kind": "sequence", "histories": pre + [case]}, o


def report_failures(seen, history, which):
    """seen: [(index in history, out in the harness process)] -> [(case, out, note)], those that fail on their own in a
    fresh interpreter first (shrunk)."""
    done, rest = [], []

    def polluted(e):  # the very first run of a history failed: the cause lies in an earlier history
        f = (e[1]["fail_run"] if which == "run" else e[1]["fail_reread"])[0]
        return f["step"] is None or "first_run_of_process" in situations(history[e[0]]).get(f["step"], [])

    seen = sorted(seen, key=polluted)  # stable: self-contained candidates first
    cands = seen[:8]
    try:
        outs = fresh_many([history[k] for k, _ in cands])
    except Exception:
        outs = [None] * len(cands)
    alone = [j for j, o in enumerate(outs) if _bad(o, which)]
    for j in alone[:ISOLATE]:
        case, o = history[cands[j][0]], outs[j]
        try:
            case, o = shrink(case, which, o)
        except Exception:
            pass
        done.append((case, o, ""))
    if not alone and cands and any(o is not None for o in outs):
        ks = sorted({seen[0][0], seen[len(seen) // 2][0], seen[-1][0]})
        try:
            r = isolate_sequence(ks, history, which)
        except Exception:
            r = None
        if r:
            done.append((r[0], r[1], f"(only after the {len(r[0]['histories']) - 1} earlier histories of the sequence, in one process) "))
        else:
            try:
                r = isolate_sequence(ks + ks, history, which, fixed=False)
            except Exception:
                r = None
            if r:
                done.append((r[0], r[1], f"(only after the {len(r[0]['histories']) - 1} earlier histories of the sequence, in one process, and "
                                         "only with randomised addresses: does not fail every time) "))
    taken = set(alone[:ISOLATE])
    for j, (k, o) in enumerate(seen):
        if j in taken:
            continue
        note = "(fails on its own in a fresh interpreter too) " if j in alone else \
               f"(seen in the harness process after {k} earlier histories; not reproduced on its own in a fresh interpreter) " if j < len(cands) and outs[j] is not None else \
               f"(seen in the harness process after {k} earlier histories; not re-run on its own) "
        rest.append((history[k], o, note))
    return done + rest


def _describe(case, which, out, note=""):
    f = (out["fail_run"] if which == "run" else out["fail_reread"])[0]
    last = case["histories"][-1] if case.get("kind") == "sequence" else case
    st = f["step"]
    lab = situations(last).get(st, [])
    return f"{note}step {st} {last['steps'][st] if st is not None else ''} [{', '.join(lab)}]: {f['detail']}"


class _Packed:
    """The cases executed so far, kept as JSON strings (thousands of live nested containers would make every
    gc.collect() of a drop step slower and slower)."""

    def __init__(self):
        self._s = []

    def append(self, case):
        self._s.append(json.dumps(case))

    def __len__(self):
        return len(self._s)

    def __getitem__(self, i):
        if isinstance(i, slice):
            return [json.loads(x) for x in self._s[i]]
        return json.loads(self._s[i])


# ------------------------------------------------------------------ run / replay
ISOLATE = 2  # failures per oracle that are re-run and shrunk in fresh interpreters


def run(seed: int, n: int, driver: str = DEFAULT_DRIVER, thorough: bool = False) -> dict:
    rng = random.Random(f"c03_gatesets:{seed}")
    dist = {}

    def bump(k, d=1):
        dist[k] = dist.get(k, 0) + d

    oracle = {o: {"cases": 0, "failures": [], "total_failures": 0} for o in ORACLES}
    samples, distinct = [], set()
    history = _Packed()  # every case executed in this process, in order
    seen_fail = {o: [] for o in ORACLES}  # (index in history, out)

    def do(case, stream):
        history.append(case)
        out = run_history(case)
        labels = situations(case)
        nruns = sum(1 for s in case["steps"] if s[0] == "run")
        bump("histories:" + stream)
        bump(f"history_runs={min(nruns, 12)}{'+' if nruns >= 12 else ''}")
        bump("steps:run", nruns)
        bump("steps:parse_then_run_later", sum(1 for s in case["steps"] if s[0] == "parse"))
        bump("steps:drop", sum(1 for s in case["steps"] if s[0] == "drop"))
        bump("gate_sets_in_history", len(case["sets"]))
        bump("gate_sets_with_idle_gates", sum(1 for s in case["sets"] if s["idle"]))
        bump("definitions_copy_of_another", sum(1 for d in case["defs"] if d.get("copy_of") is not None))
        bump("definitions_without_unitary", sum(1 for d in case["defs"] if d["u"] is None))
        bump("definitions_rotation_(tolerance)", sum(1 for d in case["defs"] if d["u"] and d["u"][0] == "rot"))
        for ls in labels.values():
            for lab in ls:
                bump("run:" + lab)
        for p in case["progs"]:
            bump(f"program_qubits={p['n']}")
            bump("program_subcircuits", len(p["subs"]))
            bump("program_executed_gates", sum(len(s) for s in p["subs"]))
        oracle[ORACLES[0]]["cases"] += out["runs"]
        oracle[ORACLES[1]]["cases"] += out["rereads"]
        if any("after_run_with_other_set_same_names" in ls for ls in labels.values()):
            distinct.add(json.dumps([case["progs"][0]["text"], case["steps"], case["sets"]], sort_keys=True))
        for which, name in (("run", ORACLES[0]), ("reread", ORACLES[1])):
            fl = out["fail_run"] if which == "run" else out["fail_reread"]
            if fl:
                oracle[name]["total_failures"] += len(fl)
                if len(seen_fail[name]) < 20:
                    seen_fail[name].append((len(history) - 1, out))
        if len(samples) < 2 and stream == "random":
            samples.append(prune(case))

    for case in sweep_cases(rng, full=thorough):
        bump("sweep:" + case["sweep"][1])
        bump("sweep_order:" + case["sweep"][2])
        do(case, "sweep")
    for _ in range(n):
        do(gen_history(rng, thorough), "random")

    # failing histories: those that fail on their own in a fresh interpreter come first (shrunk), the others as seen
    for which, name in (("run", ORACLES[0]), ("reread", ORACLES[1])):
        if seen_fail[name]:
            for case, out, note in report_failures(seen_fail[name], history, which)[:20]:
                if not note:
                    bump("failures_isolated_in_fresh_interpreter")
                oracle[name]["failures"].append({"case": dict(case, oracle=name), "detail": _describe(case, which, out, note)})
    return {"corr": {}, "oracle": oracle, "distribution": dist, "samples": samples, "nontrivial": len(distinct)}


def replay(case: dict, driver: str = DEFAULT_DRIVER) -> dict:
    """Re-runs the case in a fresh interpreter (in this process when that is not possible)."""
    case = {k: v for k, v in case.items() if k != "oracle"} | {"oracle": case.get("oracle")}
    (out,) = fresh_many([case])
    if out is None:
        out = run_history(case)
    elif not (out["fail_run"] or out["fail_reread"]):
        # a violation that depends on the state of the allocator may need more than one attempt; one observed violation is enough
        for o in fresh_many([case, case, case], fixed=False):
            if o and (o["fail_run"] or o["fail_reread"]):
                out = o
                break
    want = case.get("oracle")
    order = [("reread", ORACLES[1]), ("run", ORACLES[0])] if want == ORACLES[1] else [("run", ORACLES[0]), ("reread", ORACLES[1])]
    nfail = len(out["fail_run"]) + len(out["fail_reread"])
    for which, name in order:
        if _bad(out, which):
            return {"model": None, "impl": None, "oracle_ok": False, "detail": f"{name}: " + _describe(case, which, out),
                    "failures": nfail}
    return {"model": None, "impl": None, "oracle_ok": True,
            "detail": f"{out['runs']} runs and {out['rereads']} re-reads of earlier results agree with the numpy reference"}


# ------------------------------------------------------------------ CLI
def main(argv=None):
    ap = argparse.ArgumentParser(description=__doc__.split("\n")[0])
    ap.add_argument("--driver", default=DEFAULT_DRIVER)
    ap.add_argument("--count", type=int, default=150, help="number of random histories")
    ap.add_argument("--seed", type=int, default=0)
    ap.add_argument("--thorough", action="store_true")
    ap.add_argument("--json", action="store_true")
    ap.add_argument("--worker", action="store_true", help="(internal) one case as JSON on stdin, its outcome as JSON on stdout")
    a = ap.parse_args(argv)
    if a.worker:
        print(json.dumps(run_history(json.loads(sys.stdin.read()))))
        return 0
    t0 = time.time()
    res = run(a.seed, a.count, a.driver, a.thorough)
    if a.json:
        print(json.dumps(res))
    bad = 0
    for o, r in res["oracle"].items():
        print(f"oracle {o:32s} cases={r['cases']:6d} failures={r['total_failures']}")
        bad += r["total_failures"]
        for d in r["failures"][:2]:
            print("   DETAIL", d["detail"][:700])
            print("   CASE  ", json.dumps(d["case"])[:1500])
    print(f"nontrivial={res['nontrivial']}  wall={time.time() - t0:.1f}s  distribution=" + json.dumps(res["distribution"]))
    return 1 if bad else 0


if __name__ == "__main__":
    sys.exit(main())
