#!/venv/bin/python
"""Direct oracles for C02 along two dimensions the other C02 script (parse_diff.py) never varies:
the parser ENTRY POINT through which a text is parsed, and the HISTORY of parse calls made before.

C02 says the verdict (accepted / rejected), the reported statement tree and the reported error position are
functions of the TEXT: "the parser accepts a text exactly when it is derivable …, the statement tree it reports is
the one the grammar assigns to that text …, a rejected text raises a parse error whose position is that of a token
of the text at or after the first offending one, or the end of input".  Hence every way of handing the same text
to the parser must give the same verdict / tree / position, and a call must give the same answer whatever was
parsed before it in the same process.

API:   run(seed, n, driver, thorough) -> dict ; replay(case, driver) -> dict   (notes/AGENT_CONVENTIONS.md)
CLI:   /venv/bin/python -m harness.agents.c02_entry [--n N] [--seed S] [--thorough] [--json]
`corr` is empty (no Lean driver is used).

Entry points (every one that exists in the loaded library; `distribution["entry_<name>"]` counts the calls):
  full parse   sx, sx_up        parse_to_sexpression(text[, return_usepulses=True])
               cls              JaqalParser(source_text=text).parse(JaqalLexer().tokenize(text))
               str, str_up      jaqalpaq.parser.parser.parse_jaqal_string(text, autoload_pulses=False[, return_usepulses=True])
               str_x            … with expand_macro/expand_let (verdict and position only)
               pkg_str          jaqalpaq.parser.parse_jaqal_string (the public name)
               file, file_up, pkg_file   parse_jaqal_file on a file holding the text
  header only  sx_h, sx_h_up    parse_to_sexpression(text, header_only=True[, return_usepulses=True])
               str_h, str_h_up  parse_jaqal_string_header
               file_h, file_h_up parse_jaqal_file_header
A file is read by the library in Python's text mode, which turns "\r\n" and "\r" into "\n"; the file entry points
are therefore compared with the string entry points on the text AS READ (identical unless the text contains "\r").

Texts (n programs; each yields the streams below; every text gets a random layout on top of parse_diff's
layouts: leading blank/comment lines, trailing material, and an indentation mode — none / the same prefix on
every line / on every non-blank line / on all lines but one / ragged; prefixes mix spaces and tabs):
  scoped   : well-scoped programs (one register, lets, maps, macros with calls, loops, subcircuits, parallel
             blocks) that the circuit builder accepts, so that circuits — not only errors — are compared
  valid    : parse_diff's grammar-directed programs (valid by construction)
  sidecond : the same with a violated side condition (header after body, register size, import)
  tokmut   : one token deleted / duplicated / swapped / replaced / inserted (lower bound of the error position known)
  charmut  : 1-3 characters changed
  hdrafter : a header statement after a body (error position known)
  stray    : an illegal character inside / a stray token after a valid program (error position known)
  crlf     : a valid program with "\n" -> "\r\n" or "\r" (strings: rejected at a "\r"; files: accepted)
  edge     : a fixed list (empty text, indentation only, …)

Oracles (all on the real code alone):
  valid_accepted_by_every_entry  : a text that is derivable from the grammar by construction is accepted by every
                                   full-parse entry point (a non-parse JaqalError of the circuit builder counts as
                                   accepted: the text was parsed)
  entries_agree_on_acceptance    : all full-parse entry points give the same verdict on the same text
  entries_agree_on_tree          : on an accepted text all tree entry points report the same tree (and usepulses
                                   table) and every circuit entry point returns exactly what the circuit builder
                                   makes of that tree (equal circuit, or the same builder error)
  entries_agree_on_position      : on a rejected text all full-parse entry points report the same (line, column)
  position_is_token_start        : every reported position (any entry point, also header-only) is EOF or the start
                                   of a token / the illegal character of the ORIGINAL text, according to an
                                   independent hand-written tokenizer (not the library's lexer)
  position_not_before_offender   : where the first offending token is known (tokmut: not before the mutated
                                   top-level statement; hdrafter, stray: the token itself) no entry point reports
                                   an earlier position
  header_mode_consistent         : header-only entry points: on an accepted text they return exactly the header
                                   statements of the full tree (circuit entry points: the builder's circuit of
                                   those); on a rejected text they either reject at the same position as the full
                                   parse or return header statements only; all of them agree with each other
  repeat_same_result             : in-process A, B, A — the second A (same entry point, same text) gives the result
                                   of the first although B (same text in another mode / an indented or dedented
                                   variant / another text) ran in between and the first result was modified by
                                   the caller
  history_independent            : a multiset of (entry point, text) calls in which the same text recurs under
                                   different modes is executed in a fresh subprocess in one order and in another
                                   fresh subprocess in the REVERSE order (thorough: a third, shuffled order), so
                                   every pair of calls occurs in both relative orders; the result of every
                                   (entry point, text) must be the same at all its occurrences.  A failure is
                                   reduced to a short history and shown with the result of the same call made
                                   first in a fresh process.
"""
import argparse
import collections
import copy
import json
import os
import random
import re
import signal
import subprocess
import sys
import tempfile
import textwrap

from harness import timeouts as _T
from harness.agents.parse_diff import Gen

ROOT = os.path.dirname(os.path.dirname(os.path.dirname(os.path.abspath(__file__))))
DEFAULT_DRIVER = "/verif/lean/.lake/build/bin/jaqal-model"

ORACLES = (
    "valid_accepted_by_every_entry",
    "entries_agree_on_acceptance",
    "entries_agree_on_tree",
    "entries_agree_on_position",
    "position_is_token_start",
    "position_not_before_offender",
    "header_mode_consistent",
    "repeat_same_result",
    "history_independent",
)

# ------------------------------------------------------------------------------------------ the library


_LIB = None


def lib():
    """The names of the loaded library (looked up lazily: nothing happens at import time)."""
    global _LIB
    if _LIB is None:
        import jaqalpaq.parser as P
        import jaqalpaq.parser.parser as PP
        from jaqalpaq.parser import slyparse as S
        from jaqalpaq.parser.identifier import Identifier
        from jaqalpaq.core.circuitbuilder import build
        from jaqalpaq.error import JaqalError

        _LIB = dict(P=P, PP=PP, S=S, Identifier=Identifier, build=build, JaqalError=JaqalError,
                    JaqalParseError=S.JaqalParseError, src=os.path.dirname(os.path.dirname(os.path.dirname(os.path.abspath(P.__file__)))))
    return _LIB


class Hang(BaseException):
    pass


def _alarm(*_a):
    raise Hang()


# name -> (mode, kind, source);  mode: full | header ; kind: tree | circuit | verdict ; source: text | file
ENTRY_INFO = collections.OrderedDict(
    sx=("full", "tree", "text"), sx_up=("full", "tree", "text"), cls=("full", "tree", "text"),
    str=("full", "circuit", "text"), str_up=("full", "circuit", "text"), str_x=("full", "verdict", "text"),
    pkg_str=("full", "circuit", "text"),
    file=("full", "circuit", "file"), file_up=("full", "circuit", "file"), pkg_file=("full", "circuit", "file"),
    sx_h=("header", "tree", "text"), sx_h_up=("header", "tree", "text"),
    str_h=("header", "circuit", "text"), str_h_up=("header", "circuit", "text"),
    file_h=("header", "circuit", "file"), file_h_up=("header", "circuit", "file"),
)


def _entry_callable(name):
    """-> function(text_or_path) or None when the loaded library has no such entry point."""
    L = lib()
    P, PP, S = L["P"], L["PP"], L["S"]
    g = lambda mod, attr: getattr(mod, attr, None)
    if name in ("sx", "sx_up", "sx_h", "sx_h_up"):
        f = g(PP, "parse_to_sexpression")
        if f is None:
            return None
        kw = {}
        if name.endswith("_up"):
            kw["return_usepulses"] = True
        if "_h" in name:
            kw["header_only"] = True
        return lambda t: f(t, **kw)
    if name == "cls":
        return lambda t: S.JaqalParser(source_text=t).parse(S.JaqalLexer().tokenize(t))
    if name in ("str", "str_up", "str_x", "pkg_str"):
        f = g(P if name == "pkg_str" else PP, "parse_jaqal_string")
        if f is None:
            return None
        kw = {"autoload_pulses": False}
        if name == "str_up":
            kw["return_usepulses"] = True
        if name == "str_x":
            kw.update(expand_macro=True, expand_let=True)
        return lambda t: f(t, **kw)
    if name in ("file", "file_up", "pkg_file"):
        f = g(P if name == "pkg_file" else PP, "parse_jaqal_file")
        if f is None:
            return None
        kw = {"autoload_pulses": False}
        if name == "file_up":
            kw["return_usepulses"] = True
        return lambda p: f(p, **kw)
    if name in ("str_h", "str_h_up"):
        f = g(PP, "parse_jaqal_string_header")
        if f is None:
            return None
        return (lambda t: f(t, return_usepulses=True)) if name.endswith("_up") else (lambda t: f(t))
    if name in ("file_h", "file_h_up"):
        f = g(PP, "parse_jaqal_file_header")
        if f is None:
            return None
        return (lambda p: f(p, return_usepulses=True)) if name.endswith("_up") else (lambda p: f(p))
    raise KeyError(name)


_CALLABLES = {}


def entry_names():
    out = []
    for name in ENTRY_INFO:
        if name not in _CALLABLES:
            _CALLABLES[name] = _entry_callable(name)
        if _CALLABLES[name] is not None:
            out.append(name)
    return out


# ----------------------------------------------------------------------------------- canonical results


def canon_tree(v):
    L = lib()
    if isinstance(v, L["Identifier"]):
        return {"id": str(v)}
    if isinstance(v, (list, tuple, collections.deque)):
        return [canon_tree(a) for a in v]
    if isinstance(v, bool):
        return {"bool": v}
    if isinstance(v, int):
        return {"i": v}
    if isinstance(v, float):
        return {"f": repr(v)}
    if v is None or isinstance(v, str):
        return v
    return {"other": type(v).__name__, "repr": repr(v)[:200]}


def canon_up(up):
    """The usepulses table {Identifier: all} (or {"usepulses": table}) as a sorted list."""
    if isinstance(up, dict) and set(up) == {"usepulses"}:
        up = up["usepulses"]
    if up is None:
        return None
    if not isinstance(up, dict):
        return {"other": repr(up)[:200]}
    return sorted([str(k), "*" if v is all else repr(v)[:80]] for k, v in up.items())


_ADDR = re.compile(r" at 0x[0-9a-fA-F]+")


def canon_circuit(c):
    return _ADDR.sub(" at 0x?", repr(c))


def guarded(f):
    """-> (outcome, raw).  outcome is JSON: ["ok"] | ["perr", line, col] | ["jerr", class, msg] |
    ["exc", class, msg] | ["hang"]; raw the returned value."""
    L = lib()
    old = signal.signal(signal.SIGALRM, _alarm)
    signal.alarm(int(_T.limit()))
    try:
        try:
            return ["ok"], f()
        finally:
            signal.alarm(0)
            signal.signal(signal.SIGALRM, old)
    except Hang:
        _T.saw_hang()
        return ["hang"], None
    except L["JaqalParseError"] as e:
        return ["perr", e.line, e.column], None
    except L["JaqalError"] as e:
        return ["jerr", type(e).__name__, str(e)[:300]], None
    except Exception as e:  # noqa
        return ["exc", type(e).__name__, str(e)[:300]], None


def call(name, text, path):
    """One guarded call of an entry point -> (outcome, raw tree or None).
    outcome: ["ok", tree | circuit repr | None, usepulses | None] or an error outcome of `guarded`."""
    mode, kind, source = ENTRY_INFO[name]
    f = _CALLABLES.get(name) or _entry_callable(name)
    o, raw = guarded(lambda: f(path if source == "file" else text))
    if o[0] != "ok":
        return o, None
    up = None
    if name.endswith("_up"):
        if not (isinstance(raw, tuple) and len(raw) == 2):
            return ["exc", "shape", f"return_usepulses=True returned {type(raw).__name__}: {repr(raw)[:120]}"], None
        raw, up = raw
        up = canon_up(up)
    if kind == "tree":
        return ["ok", canon_tree(raw), up], raw
    if kind == "circuit":
        return ["ok", canon_circuit(raw), up], None
    return ["ok", None, None], None


def build_outcome(raw):
    """What the circuit builder makes of a tree: ["ok", repr] | ["jerr"…] | ["exc"…]."""
    L = lib()
    o, c = guarded(lambda: L["build"](copy.deepcopy(raw)))
    if o[0] == "ok":
        return ["ok", canon_circuit(c)]
    return o


def file_view(text):
    """The text as Python's text-mode open() delivers it (universal newlines)."""
    return text.replace("\r\n", "\n").replace("\r", "\n")


# --------------------------------------------------------------------------- independent tokenizer

_ALPHA = set("abcdefghijklmnopqrstuvwxyzABCDEFGHIJKLMNOPQRSTUVWXYZ_")
_DIGIT = set("0123456789")
_ALNUM = _ALPHA | _DIGIT
_LITERAL = set("<>|{};[],*:")


def _ident_tail(s, i):
    """i is just after the first character of an identifier; returns the end of `(\\.?[a-zA-Z0-9_])*`."""
    n = len(s)
    while i < n:
        if s[i] in _ALNUM:
            i += 1
        elif s[i] == "." and i + 1 < n and s[i + 1] in _ALNUM:
            i += 2
        else:
            break
    return i


def _digits(s, i):
    n = len(s)
    while i < n and s[i] in _DIGIT:
        i += 1
    return i


def token_starts(text):
    """Offsets of the tokens of `text` (Jaqal's token rules written by hand, independent of the library's lexer),
    including the offset of the first illegal character, where scanning stops."""
    s, n, i = text, len(text), 0
    out = []
    while i < n:
        c = s[i]
        if c in " \t":
            i += 1
        elif c == "\n":
            out.append(i)
            while i < n and s[i] == "\n":
                i += 1
        elif c in _ALPHA:
            out.append(i)
            i = _ident_tail(s, i + 1)
        elif c == ".":
            out.append(i)
            i += 1
            if i < n and s[i] in _ALPHA:
                i = _ident_tail(s, i + 1)
        elif c in _DIGIT or c in "+-":
            out.append(i)
            j = i + 1 if c in "+-" else i
            k = _digits(s, j)
            if k < n and s[k] == "." and k + 1 < n and s[k + 1] in _DIGIT:  # NUMBER
                k = _digits(s, k + 1)
                if k < n and s[k] in "eE":
                    m = k + 1
                    if m < n and s[m] in "+-":
                        m += 1
                    if m < n and s[m] in _DIGIT:
                        k = _digits(s, m)
                i = k
            elif k > j:  # INT
                i = k
            else:  # a sign alone: illegal character
                return out
        elif c == "'":
            out.append(i)
            k = i + 1
            while k < n and s[k] in "01":
                k += 1
            if k > i + 1 and k < n and s[k] == "'":
                i = k + 1
            else:
                return out
        elif c == "/":
            if i + 1 < n and s[i + 1] == "/":
                k = s.find("\n", i)
                i = n if k < 0 else k
            elif i + 1 < n and s[i + 1] == "*":
                k = s.find("*/", i + 2)
                if k < 0:
                    out.append(i)
                    return out
                i = k + 2
            else:
                out.append(i)
                return out
        elif c in _LITERAL:
            out.append(i)
            i += 1
        else:
            out.append(i)
            return out
    return out


def line_col(text, off):
    return [1 + text.count("\n", 0, off), off - text.rfind("\n", 0, off)]


def token_positions(text):
    return {tuple(line_col(text, o)) for o in token_starts(text)}


def library_token_positions(text):
    """The same from the library's lexer (used only to count deviations of the two in `distribution`)."""
    L = lib()
    out = set()
    try:
        for t in L["S"].JaqalLexer().tokenize(text):
            out.add((t.lineno, t.index - text.rfind("\n", 0, t.index)))
    except L["JaqalParseError"] as e:
        out.add((e.line, e.column))
    except Exception:  # noqa
        return None
    return out


# ------------------------------------------------------------------------------------------ generators

LEADS = ["", "", "", "\n", "\n\n", " \n", "\t\n\n", "// head\n", "/* a\n * b */\n", "/**/", "\n// c\n\n"]
TRAILS = ["", "", "\n", " ", "\n\n", " // end", "\n/* end\n*/\n", "\t", "\n  \n"]
PREFIXES = ["  ", "    ", "\t", "\t  ", " \t", "        ", " "]
INDENT_MODES = ["none", "uniform_all", "uniform_all", "uniform_nonblank", "uniform_nonblank", "all_but_one", "ragged"]


def relayout(rng, text, mode=None):
    """Leading / trailing material and indentation.  Whitespace is only inserted at the start of lines (after a
    newline, which is an NL token, the end of a `//` comment, or inside a block comment), so the token sequence
    is unchanged up to the splitting of a run of newlines.  -> (new text, offset map old -> new, mode)"""
    lead, trail = rng.choice(LEADS), rng.choice(TRAILS)
    mode = mode or rng.choice(INDENT_MODES)
    prefix = rng.choice(PREFIXES)
    full = lead + text + trail
    lines = full.split("\n")
    skip = rng.randrange(len(lines))
    out, newoff, pos = [], [], 0
    for li, line in enumerate(lines):
        if mode == "none":
            ins = ""
        elif mode == "uniform_all":
            ins = prefix
        elif mode == "uniform_nonblank":
            ins = prefix if line.strip() else ""
        elif mode == "all_but_one":
            ins = prefix if li != skip else ""
        else:
            ins = rng.choice(["", "", " ", "  ", "\t", "    ", prefix])
        out.append(ins + line)
        pos += len(ins)
        for _ in range(len(line) + (1 if li + 1 < len(lines) else 0)):
            newoff.append(pos)
            pos += 1
    newoff.append(pos)
    text2 = "\n".join(out)
    assert len(newoff) == len(full) + 1 and pos == len(text2)
    shift = len(lead)
    return text2, (lambda off: newoff[off + shift]), mode


class Scoped:
    """Well-scoped programs as token lists with parse_diff's separator markers."""

    GATES = ["Rx", "Ry", "MS", "prepare_all", "measure_all", "g", "h", "Sxx", "foo.bar"]

    def __init__(self, rng):
        self.r = rng

    def program(self):
        r = self.r
        self.reg = r.choice(["r", "q", "reg", "ions"])
        self.size = r.randrange(2, 7)
        self.ints, self.floats, self.regs, self.qubits, self.macros = {}, [], {self.reg: self.size}, [], {}
        self.sigs = {}  # gate name -> kinds of its arguments (a gate keeps its arity within one program)
        hdr = []
        if r.random() < 0.25:
            hdr.append(["from", r.choice(["qscout.v1.std", "a.b", ".loc"]), "usepulses", "*"])
        for name in r.sample(["a", "b", "n", "k"], r.randrange(0, 3)):
            v = r.randrange(0, 4)
            self.ints[name] = v
            hdr.append(["let", name, str(v)])
        for name in r.sample(["pi_2", "theta", "x.y"], r.randrange(0, 2)):
            self.floats.append(name)
            hdr.append(["let", name, r.choice(["1.5707", "-0.25", "+.5", "2.5e-3"])])
        r.shuffle(hdr)
        if r.random() < 0.3 and self.ints and max(self.ints.values()) >= 2:
            name = max(self.ints, key=lambda k: self.ints[k])
            self.size = self.regs[self.reg] = self.ints[name]
            at = 1 + max(i for i, h in enumerate(hdr) if h[:2] == ["let", name])
            hdr.insert(at, ["register", self.reg, "[", name, "]"])
        else:
            hdr.insert(r.randrange(len(hdr) + 1), ["register", self.reg, "[", str(self.size), "]"])
        for name in r.sample(["m", "w", "ev", "tgt", "ctl"], r.randrange(0, 4)):
            k = r.random()
            src = r.choice(list(self.regs))
            sz = self.regs[src]
            if k < 0.25:
                self.regs[name] = sz
                hdr.append(["map", name, src])
            elif k < 0.5:
                self.qubits.append(name)
                hdr.append(["map", name, src, "[", str(r.randrange(sz)), "]"])
            elif k < 0.8:
                lo = r.randrange(0, sz)
                hi = r.randrange(lo + 1, sz + 1)
                self.regs[name] = hi - lo
                hdr.append(["map", name, src, "[", str(lo), ":", str(hi), "]"])
            else:
                self.regs[name] = (sz + 1) // 2
                hdr.append(["map", name, src, "[", ":", ":", "2", "]"])
        body = []
        for _ in range(r.choice([0, 1, 1, 2])):
            body.append(self.macro())
        for _ in range(r.choice([1, 2, 3, 4, 6])):
            body.append(self.stmt(0, (), True))
        out = ["SEQPAD"]
        for i, s in enumerate(hdr + body):
            if i:
                out.append("SEQ")
            out += s
        if r.random() < 0.5:
            out.append("SEQ")
        return out

    def qubit(self, params):
        r = self.r
        if params and r.random() < 0.5:
            return [r.choice(params)]
        if self.qubits and r.random() < 0.25:
            return [r.choice(self.qubits)]
        name = r.choice(list(self.regs))
        sz = self.regs[name]
        cands = [k for k, v in self.ints.items() if v < sz]
        if cands and r.random() < 0.2:
            return [name, "[", r.choice(cands), "]"]
        return [name, "[", str(r.randrange(sz)), "]"]

    def arg(self, kind, params):
        r = self.r
        if kind == "q":
            return self.qubit(params)
        if kind == "f":
            if self.floats and r.random() < 0.3:
                return [r.choice(self.floats)]
            return [r.choice(["1.5", "-0.25", "3.0e1", "0.0", "+2.5"])]
        if kind == "i":
            if self.ints and r.random() < 0.3:
                return [r.choice(list(self.ints))]
            return [str(r.randrange(-3, 9))]
        return [r.choice(list(self.regs))]

    def gate(self, params):
        r = self.r
        if self.macros and r.random() < 0.3:
            name = r.choice(list(self.macros))
            out = [name]
            for _ in range(self.macros[name]):
                out += self.qubit(params)
            return out
        name = r.choice(self.GATES)
        if name not in self.sigs:
            self.sigs[name] = [r.choice("qqqqqfffiir") for _ in range(r.choice([0, 1, 1, 2, 3]))]
        out = [name]
        for kind in self.sigs[name]:
            out += self.arg(kind, params)
        return out

    def seq_block(self, depth, params, sub_ok=False):
        r = self.r
        out = ["{", "SEQPAD"]
        k = r.choice([0, 1, 2, 3]) if depth < 3 else 1
        for i in range(k):
            if i:
                out.append("SEQ")
            out += self.stmt(depth + 1, params, sub_ok)
        if k and r.random() < 0.3:
            out.append("SEQ")
        return out + ["}"]

    def par_block(self, depth, params):
        r = self.r
        out = ["<", "PARPAD"]
        k = r.choice([0, 1, 2, 3])
        for i in range(k):
            if i:
                out.append("PAR")
            out += self.gate(params) if (depth >= 3 or r.random() < 0.75) else self.seq_block(depth + 1, params)
        if k and r.random() < 0.3:
            out.append("PAR")
        return out + [">"]

    def block(self, depth, params, sub_ok=False):
        return self.seq_block(depth, params, sub_ok) if self.r.random() < 0.7 else self.par_block(depth, params)

    def count(self):
        r = self.r
        return r.choice(list(self.ints)) if self.ints and r.random() < 0.4 else str(r.randrange(0, 5))

    def stmt(self, depth, params, sub_ok=False):
        """sub_ok: a subcircuit is allowed here (not inside a subcircuit, a parallel block or a macro)"""
        r = self.r
        k = r.random()
        if depth >= 3 or k < 0.5:
            return self.gate(params)
        if k < 0.7:
            return self.par_block(depth + 1, params)
        if k < 0.87 or not sub_ok:
            return ["loop", self.count()] + self.block(depth + 1, params, sub_ok)
        return ["subcircuit"] + ([self.count()] if r.random() < 0.5 else []) + self.seq_block(depth + 1, params)

    def macro(self):
        r = self.r
        name = r.choice(["M", "Bell", "echo", "u.v"]) + str(len(self.macros))
        params = r.sample(["p", "t", "c0", "x"], r.randrange(0, 3))
        out = ["macro", name] + params + self.block(1, tuple(params))
        self.macros[name] = len(params)
        return out


EDGE = ["", " ", "\t", "\n", "  \n  ", "    g", "\tg\n\th", "  g $", "\t\tg ]", "    register q[2]\n    g q[0]\n    let x 1\n",
        "  let a 1\n  $", "\n\n   loop 2\n   { g }", "  {\n    g\n  ", "  // only a comment", "  /* unterminated", " ;; ", "\t;\n\t;",
        "  register r[2]\n  g r[0]", "  register r[2] // c\n  /* x\n     y */ g r[1]\n", "    macro m a { g a }\n    m 1 2\n"]


# ---------------------------------------------------------------------------------------- cross-check


def verdict(o):
    """Parse verdict of an outcome: acc (parsed; a non-parse JaqalError comes from later stages) | rej | exc | hang"""
    return {"ok": "acc", "jerr": "acc", "perr": "rej", "exc": "exc", "hang": "hang"}[o[0]]


HEADER_HEADS = ("register", "let", "map", "usepulses", "import")


def header_prefix(tree_canon):
    """The header statements of a canonical full tree: everything before the first body statement."""
    out = [tree_canon[0]]
    for st in tree_canon[1:]:
        if not (isinstance(st, list) and st and st[0] in HEADER_HEADS):
            break
        out.append(st)
    return out


def raw_prefix(raw):
    out = [raw[0]]
    for st in raw[1:]:
        if not (isinstance(st, (list, tuple)) and st and st[0] in HEADER_HEADS):
            break
        out.append(st)
    return out


def _short(o):
    s = json.dumps(o)
    return s if len(s) < 260 else s[:257] + "..."


class Files:
    def __init__(self):
        self.dir = tempfile.TemporaryDirectory(prefix="c02_entry_")
        self.k = 0

    def write(self, text):
        self.k += 1
        p = os.path.join(self.dir.name, f"p{self.k}.jaqal")
        with open(p, "w", newline="", encoding="utf-8") as fd:
            fd.write(text)
        return p

    def close(self):
        self.dir.cleanup()


def cross_check(text, order, expect, files, dist=None):
    """Run the entry points `order` on `text` (in that order) and evaluate the oracles.
    expect: {"valid": True|None, "valid_file": True|None, "lb": [line, col]|None}
    -> (outcomes, {oracle: [detail, …]} for the oracles that were applicable (empty list = holds))"""
    path = files.write(text)
    fview = file_view(text)
    outs, raws = {}, {}
    for e in order:
        outs[e], raws[e] = call(e, text, path)
        if dist is not None:
            dist["entry_" + e] += 1
    res = collections.OrderedDict()

    def add(name, detail=None):
        res.setdefault(name, [])
        if detail:
            res[name].append(detail)

    # the two views: the text itself (string entry points) and the text as read from a file
    views = [("text", text, [e for e in order if ENTRY_INFO[e][2] == "text"])]
    file_entries = [e for e in order if ENTRY_INFO[e][2] == "file"]
    ref = {"text": {}}
    for m, e0 in (("full", "sx"), ("header", "sx_h")):
        if e0 in outs:
            ref["text"][m] = (outs[e0], raws[e0], e0)
    if file_entries:
        if fview == text:
            views[0] = ("text", text, list(order))
        else:
            views.append(("file", fview, file_entries))
            ref["file"] = {}
            for m, e0 in (("full", "sx"), ("header", "sx_h")):
                if _CALLABLES.get(e0):
                    o, r = call(e0, fview, None)
                    ref["file"][m] = (o, r, e0 + "(text as read from the file)")
    for vname, vtext, ents in views:
        if vname == "text":
            valid_here = bool(expect.get("valid") or (fview == text and expect.get("valid_file")))
        else:
            valid_here = bool(expect.get("valid_file"))
        toks = None
        full = [e for e in ents if ENTRY_INFO[e][0] == "full"]
        hdr = [e for e in ents if ENTRY_INFO[e][0] == "header"]
        R = ref[vname].get("full")
        R_tree = R is not None and R[0][0] == "ok" and R[1] is not None
        B = [None]

        def built():
            """what the circuit builder makes of the tree reported by the reference entry point"""
            if B[0] is None:
                B[0] = build_outcome(R[1])
            return B[0]

        # --- acceptance
        vs = {}
        for e in full:
            o = outs[e]
            v = verdict(o)
            if v == "exc" and ENTRY_INFO[e][1] != "tree" and R_tree and built()[:2] == o[:2]:
                v = "acc"  # the circuit builder itself raises this on the tree: the text was parsed
            vs[e] = v
        if valid_here:
            add("valid_accepted_by_every_entry")
            for e in full:
                if vs[e] != "acc":
                    add("valid_accepted_by_every_entry", f"{e}: {_short(outs[e])} on a text derivable from the grammar")
        if full and (len(full) > 1 or R):
            add("entries_agree_on_acceptance")
            for e in full:
                if vs[e] in ("exc", "hang"):
                    add("entries_agree_on_acceptance", f"{e}: {_short(outs[e])}")
            if R and R[2] not in vs:
                vs[R[2]] = verdict(R[0])
            if len({v for v in vs.values() if v in ("acc", "rej")}) > 1:
                add("entries_agree_on_acceptance", "verdicts differ: " + json.dumps(vs))
        # --- tree / circuit of an accepted text
        if R_tree and full:
            add("entries_agree_on_tree")
            tree = R[0][1]
            ups = {}
            for e in full:
                o = outs[e]
                kind = ENTRY_INFO[e][1]
                if o[0] == "ok" and o[2] is not None:
                    ups[e] = o[2]
                if kind == "tree":
                    if o[0] == "ok" and o[1] != tree:
                        add("entries_agree_on_tree", f"{e} reports {_short(o[1])}, {R[2]} reports {_short(tree)}")
                elif kind == "circuit" and o[0] in ("ok", "jerr", "exc"):
                    b = built()
                    if b[:2] == ["exc", "RecursionError"]:
                        continue
                    if o[0] == "ok":
                        if b[0] != "ok" or b[1] != o[1]:
                            add("entries_agree_on_tree", f"{e} returns {_short(o[1])}, but the builder makes {_short(b)} of the tree reported by {R[2]}")
                    elif b[0] == "ok":
                        if o[0] == "jerr" and dist is not None:
                            dist["jaqal_error_after_successful_build"] += 1  # e.g. too many registers: not a parser matter
                    elif b != o:
                        add("entries_agree_on_tree", f"{e} raises {_short(o)}, but the builder raises {_short(b)} on the tree reported by {R[2]}")
            if len({json.dumps(u) for u in ups.values()}) > 1:
                add("entries_agree_on_tree", "usepulses tables differ: " + _short(ups))
        # --- position of a rejected text
        if R and R[0][0] == "perr" and full:
            add("entries_agree_on_position")
            for e in full:
                if outs[e][0] == "perr" and outs[e][1:] != R[0][1:]:
                    add("entries_agree_on_position", f"{e} reports {outs[e][1:]}, {R[2]} reports {R[0][1:]}")
        for e in ents:
            o = outs[e]
            if o[0] != "perr":
                continue
            add("position_is_token_start")
            at_eof = o[1:] == ["EOF", 0]
            is_pos = isinstance(o[1], int) and isinstance(o[2], int)
            if not at_eof:
                if toks is None:
                    toks = token_positions(vtext)
                if not (is_pos and (o[1], o[2]) in toks):
                    add("position_is_token_start", f"{e} reports {o[1:]}, which is not the start of a token of the text")
            lb = expect.get("lb")
            if lb and vtext == text and ENTRY_INFO[e][0] == "full":
                add("position_not_before_offender")
                if not at_eof and is_pos and [o[1], o[2]] < lb:
                    add("position_not_before_offender", f"{e} reports {o[1:]}, before the first offending token at {lb}")
        # --- header-only mode
        H = ref[vname].get("header")
        if hdr and R:
            add("header_mode_consistent")
            want_tree = want_raw = None
            WB = [None]
            if R_tree:
                want_tree, want_raw = header_prefix(R[0][1]), raw_prefix(R[1])

            def want_built():
                if WB[0] is None:
                    WB[0] = build_outcome(want_raw)
                return WB[0]

            for e in hdr:
                o = outs[e]
                kind = ENTRY_INFO[e][1]
                if o[0] == "hang" or (o[0] == "exc" and not (kind == "circuit" and want_tree is not None and want_built() == o)):
                    add("header_mode_consistent", f"{e}: {_short(o)}")
                    continue
                if want_tree is not None:  # the full parse accepted
                    if o[0] == "perr":
                        add("header_mode_consistent", f"{e} rejects at {o[1:]} a text that {R[2]} accepts")
                    elif kind == "tree":
                        if o[1] != want_tree:
                            add("header_mode_consistent", f"{e} reports {_short(o[1])}; the header statements of the full tree are {_short(want_tree)}")
                    else:
                        wb = want_built()
                        if (o[0] == "ok" and (wb[0] != "ok" or wb[1] != o[1])) or (o[0] != "ok" and wb != o):
                            add("header_mode_consistent", f"{e} gives {_short(o)}; the builder makes {_short(wb)} of the header statements of the full tree")
                elif R[0][0] == "perr":  # the full parse rejected
                    if o[0] == "perr":
                        if o[1:] != R[0][1:]:
                            add("header_mode_consistent", f"{e} rejects at {o[1:]}, the full parse ({R[2]}) at {R[0][1:]}")
                    elif kind == "tree" and o[0] == "ok":
                        if header_prefix(o[1]) != o[1]:
                            add("header_mode_consistent", f"{e} returns body statements: {_short(o[1])}")
                if H and H[0][0] in ("ok", "perr") and o[0] != "exc":
                    # all header-only entry points agree with each other
                    if verdict(o) != verdict(H[0]):
                        add("header_mode_consistent", f"{e}: {_short(o)} but {H[2]}: {_short(H[0])}")
                    elif o[0] == "perr" and o[1:] != H[0][1:]:
                        add("header_mode_consistent", f"{e} rejects at {o[1:]}, {H[2]} at {H[0][1:]}")
                    elif o[0] == "ok" and H[0][0] == "ok":
                        if kind == "tree" and o[1] != H[0][1]:
                            add("header_mode_consistent", f"{e} reports {_short(o[1])}, {H[2]} reports {_short(H[0][1])}")
                        elif kind == "circuit" and H[1] is not None and want_tree is None:
                            hb = build_outcome(H[1])
                            if hb[0] != "ok" or hb[1] != o[1]:
                                add("header_mode_consistent", f"{e} returns {_short(o[1])}; the builder makes {_short(hb)} of the tree of {H[2]}")
            ups = {e: outs[e][2] for e in hdr if outs[e][0] == "ok" and outs[e][2] is not None}
            if len({json.dumps(u) for u in ups.values()}) > 1:
                add("header_mode_consistent", "usepulses tables differ: " + _short(ups))
    return outs, res


# -------------------------------------------------------------------------------------------- histories

WORKER_CODE = "from harness.agents import c02_entry as m; m._worker()"


def _worker():
    """Subprocess side: read {"texts": […], "calls": [[entry, text index], …]}, make the calls in order in this
    fresh process, print {"lib": path, "out": [outcome, …]}."""
    job = json.loads(sys.stdin.read())
    L = lib()
    entry_names()
    files = Files()
    paths = {}
    outs = []
    try:
        for e, ti in job["calls"]:
            text = job["texts"][ti]
            if ENTRY_INFO[e][2] == "file" and ti not in paths:
                paths[ti] = files.write(text)
            o, _raw = call(e, text, paths.get(ti))
            outs.append(o)
    finally:
        files.close()
    sys.stdout.write(json.dumps({"lib": L["src"], "out": outs}))
    sys.stdout.flush()


def _spawn(texts, calls):
    L = lib()
    env = dict(os.environ)
    env["PYTHONPATH"] = os.pathsep.join([L["src"], ROOT] + ([env["PYTHONPATH"]] if env.get("PYTHONPATH") else []))
    p = subprocess.Popen([sys.executable, "-W", "ignore", "-c", WORKER_CODE], stdin=subprocess.PIPE, stdout=subprocess.PIPE,
                         stderr=subprocess.PIPE, text=True, env=env, cwd=ROOT)
    p._job = json.dumps({"texts": texts, "calls": calls})
    return p


def _collect(p, ncalls):
    L = lib()
    try:
        so, se = p.communicate(p._job, timeout=_T.limit(4) + ncalls)
    except subprocess.TimeoutExpired:
        p.kill()
        p.communicate()
        raise RuntimeError("history worker did not finish")
    if p.returncode != 0:
        raise RuntimeError(f"history worker failed ({p.returncode}): {se[-600:]}")
    j = json.loads(so)
    if os.path.realpath(j["lib"]) != os.path.realpath(L["src"]):
        raise RuntimeError(f"history worker imported {j['lib']}, this process {L['src']}")
    if len(j["out"]) != ncalls:
        raise RuntimeError("history worker returned a wrong number of results")
    return j["out"]


def run_histories(jobs):
    """jobs: list of (texts, calls) -> list of outcome lists (all subprocesses run concurrently, 8 at a time)."""
    outs = [None] * len(jobs)
    for lo in range(0, len(jobs), 8):
        ps = [(k, _spawn(*jobs[k])) for k in range(lo, min(lo + 8, len(jobs)))]
        for k, p in ps:
            outs[k] = _collect(p, len(jobs[k][1]))
    return outs


def make_history(rng, pool, entries, n_texts):
    """-> (texts, calls): clusters of 2-4 calls on one text under different modes, shuffled, plus far repetitions."""
    texts = rng.sample(pool, min(n_texts, len(pool)))
    full = [e for e in entries if ENTRY_INFO[e][0] == "full"]
    hdr = [e for e in entries if ENTRY_INFO[e][0] == "header"]
    clusters, late = [], []
    for ti in range(len(texts)):
        k = rng.choice([2, 3, 3, 4])
        if hdr and rng.random() < 0.75:
            es = [rng.choice(hdr), rng.choice(full)] + rng.sample(entries, k - 2)
        else:
            es = rng.sample(entries, k)
        if rng.random() < 0.3:
            es.append(rng.choice(es))  # the same call twice
        rng.shuffle(es)
        clusters.append([[e, ti] for e in es])
        if rng.random() < 0.35:
            late.append([rng.choice(entries), ti])
    rng.shuffle(clusters)
    calls = [c for cl in clusters for c in cl]
    for c in late:
        calls.insert(rng.randrange(len(calls) + 1), c)
    return texts, calls


def history_failure(texts, jobs, occ, key):
    """Reduce a history-dependent call to a short history.  occ: [(job index, position, outcome)] of the call `key`
    -> (case, detail)"""
    e, ti = key
    fresh = run_histories([(texts, [[e, ti]])])[0][0]
    dev = sorted((pos, j) for j, pos, o in occ if o != fresh)
    if not dev:  # cannot happen when the occurrences differ, unless the call is not deterministic at all
        dev = sorted((pos, j) for j, pos, o in occ)
    pos, j = dev[0]
    prefix = jobs[j][1][: pos + 1]
    last = [e, ti]
    same = [c for c in prefix[:-1] if c[1] == ti]
    cands = [[c, last] for c in same]
    if same:
        cands.append(same + [last])
    if len(prefix) >= 2:
        cands.append(prefix[-2:])
    cands.append(prefix)
    uniq = []
    for c in cands:
        if c not in uniq:
            uniq.append(c)
    chosen, got = prefix, None
    for c, o in zip(uniq, run_histories([(texts, c) for c in uniq])):
        if o[-1] != fresh:
            chosen, got = c, o[-1]
            break
    if got is None:
        got = sorted({json.dumps(o) for _j, _p, o in occ})
        detail = f"results of {e} on the same text differ between call orders: {_short(got)}; alone in a fresh process: {_short(fresh)}"
    else:
        detail = (f"{e} gives {_short(got)} after {len(chosen) - 1} earlier call(s) "
                  f"({', '.join(c[0] for c in chosen[:-1][:6])}{'…' if len(chosen) > 7 else ''}) but {_short(fresh)} as the first call of a fresh process")
    used = sorted({c[1] for c in chosen})
    remap = {t: i for i, t in enumerate(used)}
    case = {"oracle": "history_independent", "texts": [texts[t] for t in used], "calls": [[c[0], remap[c[1]]] for c in chosen]}
    return case, detail


# ------------------------------------------------------------------------------------------------- run


def run(seed: int, n: int, driver: str = DEFAULT_DRIVER, thorough: bool = False) -> dict:
    rng = random.Random(seed * 7919 + 17)
    gen = Gen(rng)
    scoped = Scoped(rng)
    entries = entry_names()
    orc = collections.OrderedDict((k, {"cases": 0, "failures": []}) for k in ORACLES)
    dist = collections.Counter()
    samples = []
    files = Files()
    seen = set()
    pool_acc, pool_rej, pool_all = [], [], []
    for e in ENTRY_INFO:
        if e not in entries:
            dist["entry_missing_" + e] += 1
    P = lib()["P"]
    for name in getattr(P, "__all__", []):
        if name not in ("parse_jaqal_file", "parse_jaqal_string", "JaqalParseError"):
            dist["public_name_not_covered_" + name] += 1

    def fail(name, case, detail):
        if len(orc[name]["failures"]) < 20:
            orc[name]["failures"].append({"case": case, "detail": detail})
        dist["oracle_failures_" + name] += 1

    def check(stream, text, expect, imode):
        order = list(entries)
        rng.shuffle(order)
        outs, res = cross_check(text, order, expect, files, dist)
        seen.add(text)
        dist["stream_" + stream] += 1
        dist["indent_" + imode] += 1
        first = outs.get("sx") or outs[order[0]]
        dist[stream + "_" + {"ok": "accepted", "perr": "rejected"}.get(first[0], first[0])] += 1
        if first[0] == "perr":
            dist["rejected_at_EOF" if first[1] == "EOF" else "rejected_at_token"] += 1
        if any(outs[e][0] == "ok" for e in order if ENTRY_INFO[e][1] == "circuit" and ENTRY_INFO[e][0] == "full"):
            dist["circuit_built_" + stream] += 1
        if "sx" in outs and "sx_h" in outs and outs["sx"][0] == "perr" and outs["sx_h"][0] == "ok":
            dist["header_ok_full_rejected"] += 1
        lt = library_token_positions(text)  # (the library's lexer stops at a number that is out of range)
        if lt and lt != {p for p in token_positions(text) if p <= max(lt)}:
            dist["independent_tokenizer_differs_from_library_lexer"] += 1
        for name, details in res.items():
            orc[name]["cases"] += 1
            if details:
                fail(name, {"oracle": name, "stream": stream, "text": text, "order": order, "expect": expect}, "; ".join(details[:3])[:1500])
        (pool_acc if first[0] == "ok" else pool_rej).append(text)
        pool_all.append((text, outs))
        if len(samples) < 8 and stream not in ("edge",) and rng.random() < 0.1:
            samples.append({"stream": stream, "text": text, "indent": imode, "sx": _short(first)})

    try:
        for t in EDGE:
            check("edge", t, {}, "none")
        combos = [(h, b) for h in Gen.HEADER_KINDS for b in Gen.BODY_KINDS]
        for k in range(n):
            gen.comment_rate = rng.choice([0.0, 0.05, 0.2, 0.2, 0.5])
            kk = rng.random()
            if kk < 0.45:
                stream, toks, valid, stmt_start = "scoped", scoped.program(), True, None
            else:
                valid = kk < 0.85
                toks = gen.program(valid=valid)
                stream, stmt_start = ("valid" if valid else "sidecond"), gen.stmt_start
            base = gen.render(toks)
            text, _m, imode = relayout(rng, base)
            check(stream, text, {"valid": True} if valid else {}, imode)
            # a token mutant (lower bound of the error position known for parse_diff's programs)
            mtoks, i = gen.mutate_tokens(toks)
            mbase, offs = gen.render_pos(mtoks)
            mtext, mp, imode = relayout(rng, mbase)
            expect = {}
            if valid and stmt_start is not None:
                lb = stmt_start[i] if i < len(stmt_start) else len(mtoks)
                lb_off = offs[lb] if lb < len(offs) else len(mbase)
                expect["lb"] = line_col(mtext, mp(lb_off))
            check("tokmut", mtext, expect, imode)
            ctext, _m, imode = relayout(rng, gen.mutate_chars(gen.render(toks)))
            check("charmut", ctext, {}, imode)
            # header after body
            hkind, bkind = combos[k % len(combos)]
            htoks, at = gen.header_after_body(hkind, bkind)
            hbase, hoffs = gen.render_pos(htoks)
            htext, hp, imode = relayout(rng, hbase)
            check("hdrafter", htext, {"lb": line_col(htext, hp(hoffs[at]))}, imode)
            if valid:
                # an illegal character inside / a stray token after a valid program
                if rng.random() < 0.5:
                    # (no newline before the character: inside an unfinished statement the NL token would offend first)
                    j = rng.randrange(1, len(toks) + 1)
                    p0, bad = gen.render(toks[:j]) + rng.choice([" ", "", "\t"]), rng.choice(["$", ")", "#", "?"])
                else:
                    p0, bad = gen.render(toks) + rng.choice([" ", "", "\t", "\n", "\n  "]), rng.choice(["]", ",", "$", ":", "*"])
                p0 += rng.choice(["", "", "/*\n*/", "/* a\n * b\n **/ "])
                stext, sp, imode = relayout(rng, p0 + bad + rng.choice(["", " x", "\n", "\ng"]))
                check("stray", stext, {"lb": line_col(stext, sp(len(p0)))}, imode)
                if k % 3 == 0:
                    nl = rng.choice(["\r\n", "\r\n", "\r"])
                    ctext = text.replace("\n", nl) if rng.random() < 0.6 else "".join(nl if c == "\n" and rng.random() < 0.5 else c for c in text)
                    check("crlf", ctext, {"valid_file": True}, "crlf:" + imode)

        # ---- A, B, A in this process
        nrep = max(10, n // 2)
        for _ in range(nrep if pool_all else 0):
            text, _o = rng.choice(pool_all)
            a = rng.choice(entries)
            k = rng.random()
            if k < 0.55:
                b, btext, what = rng.choice([e for e in entries if e != a]), text, "same_text_other_entry"
            elif k < 0.7:
                b, btext, what = rng.choice(entries), textwrap.dedent(text), "dedented_variant"
            elif k < 0.85:
                b, btext, what = rng.choice(entries), textwrap.indent(text, rng.choice(PREFIXES)), "indented_variant"
            else:
                b, btext, what = rng.choice(entries), rng.choice(pool_all)[0], "other_text"
            mutate = rng.random() < 0.5
            case = {"oracle": "repeat_same_result", "calls": [[a, text], [b, btext], [a, text]], "mutate": mutate}
            ok, detail = repeat_check(case, files)
            dist["repeat_" + what] += 1
            orc["repeat_same_result"]["cases"] += 1
            if not ok:
                fail("repeat_same_result", case, detail)

        # ---- histories in fresh subprocesses
        nh = (2 if n < 100 else 3) * (2 if thorough else 1)
        per = max(6, min(60, n // 2 + 10))
        pool = [t for t, _o in pool_all]
        acc_first = pool_acc + [t for t, o in pool_all if o.get("sx", [""])[0] == "perr" and o.get("sx_h", [""])[0] == "ok"]
        jobs, metas = [], []
        acc_first, rej = sorted(set(acc_first)), sorted(set(pool_rej))
        for h in range(nh if pool else 0):
            if h % 3 == 2 or not acc_first:
                src = sorted(set(pool))
            else:
                src = rng.sample(acc_first, min(len(acc_first), 2 * per // 3 + 1)) + rng.sample(rej, min(len(rej), per // 3))
            texts, calls = make_history(rng, src, entries, per)
            orders = [calls, calls[::-1]]
            if thorough:
                sh = list(calls)
                rng.shuffle(sh)
                orders.append(sh)
            for o in orders:
                jobs.append((texts, o))
                metas.append(h)
            dist["history_calls"] += len(calls)
            dist["history_texts"] += len(texts)
            dist["history_processes"] += len(orders)
        results = run_histories(jobs)
        shrunk = 0
        for h in sorted(set(metas)):
            idxs = [j for j, m in enumerate(metas) if m == h]
            texts = jobs[idxs[0]][0]
            by_key = collections.OrderedDict()
            for j in idxs:
                for pos, (c, o) in enumerate(zip(jobs[j][1], results[j])):
                    by_key.setdefault((c[0], c[1]), []).append((j, pos, o))
            for key, occ in by_key.items():
                orc["history_independent"]["cases"] += 1
                dist["history_occurrences_%s" % (len(occ) if len(occ) < 4 else ">=4")] += 1
                vals = {json.dumps(o) for _j, _p, o in occ}
                if len(vals) > 1:
                    if shrunk < 4:
                        shrunk += 1
                        case, detail = history_failure(texts, jobs, occ, key)
                        fail("history_independent", case, detail)
                    else:
                        dist["oracle_failures_history_independent"] += 1
    finally:
        files.close()
    nontrivial = len({t for t in seen if len(t.split()) >= 3})
    return {"corr": {}, "oracle": dict(orc), "distribution": dict(dist), "samples": samples, "nontrivial": nontrivial}


def repeat_check(case, files):
    """A, B, A in this process: the two results of A must coincide. -> (ok, detail)"""
    entry_names()
    (a, text), (b, btext), _ = case["calls"]
    pa = files.write(text) if ENTRY_INFO[a][2] == "file" else None
    pb = files.write(btext) if ENTRY_INFO[b][2] == "file" else None
    o1, raw = call(a, text, pa)
    if case.get("mutate") and isinstance(raw, list):
        # "callers are free to modify what they get back"
        del raw[1:]
        raw.append(["gate", "junk"])
    call(b, btext, pb)
    o2, _raw = call(a, text, pa)
    if o1 == o2:
        return True, ""
    return False, f"{a} gave {_short(o1)} and then, after {b} on {'the same' if btext == text else 'another'} text, {_short(o2)}"


def replay(case: dict, driver: str = DEFAULT_DRIVER) -> dict:
    """Re-run one `failures` entry."""
    entry_names()
    name = case.get("oracle")
    if name == "history_independent":
        texts, calls = case["texts"], case["calls"]
        with_hist, alone = run_histories([(texts, calls), (texts, [calls[-1]])])
        ok = with_hist[-1] == alone[0]
        return {"oracle_ok": ok, "detail": "" if ok else f"{calls[-1][0]} after {len(calls) - 1} earlier call(s): {_short(with_hist[-1])}; "
                f"as the first call of a fresh process: {_short(alone[0])}", "history": [c[0] for c in calls]}
    files = Files()
    try:
        if name == "repeat_same_result":
            ok, detail = repeat_check(case, files)
            return {"oracle_ok": ok, "detail": detail}
        order = [e for e in case["order"] if e in ENTRY_INFO and _CALLABLES.get(e)]
        outs, res = cross_check(case["text"], order, case.get("expect", {}), files)
        details = res.get(name, [])
        return {"oracle_ok": not details, "detail": "; ".join(details[:3])[:1500], "results": {e: _short(o) for e, o in outs.items()}}
    finally:
        files.close()


def main():
    ap = argparse.ArgumentParser()
    ap.add_argument("--n", type=int, default=120)
    ap.add_argument("--seed", type=int, default=20260924)
    ap.add_argument("--thorough", action="store_true")
    ap.add_argument("--json", action="store_true")
    args = ap.parse_args()
    res = run(args.seed, args.n, DEFAULT_DRIVER, args.thorough)
    if args.json:
        print(json.dumps(res))
    else:
        print("== c02_entry ==")
        for name, o in res["oracle"].items():
            print(f"  oracle {name:32s} cases {o['cases']:7d}  failures {len(o['failures'])}")
            for f in o["failures"][:5]:
                print("    FAIL", f["detail"][:400])
                print("         case:", json.dumps(f["case"])[:400])
        print("  nontrivial distinct texts:", res["nontrivial"])
        for k in sorted(res["distribution"]):
            print(f"    {k:52s} {res['distribution'][k]}")
    sys.exit(1 if any(o["failures"] for o in res["oracle"].values()) else 0)


if __name__ == "__main__":
    main()
